"""Positive fixture for the effect analysis (C20.R2): every function here mutates an argument and must be reported."""


def writes_item(params_dict, batch):
    eq = batch.param_batch_dict
    for k in eq.keys():
        params_dict.eq_params[k] = eq[k]
    return params_dict


def appends(self, x):
    alias = self.items
    alias.append(x)
    return self


def deletes(d, k):
    del d[k]


def pure(d, k):
    e = dict(d)
    e[k] = 1
    res = {}
    res[k] = 2
    return e, res


def pure_fresh_in_one_branch(params_dict, keys):
    # the store only happens where `by_key` is a fresh dictionary; in the other branch the name is an alias of the argument
    # but nothing is written through it
    if keys:
        by_key = {}
        for k in keys:
            by_key[k] = params_dict.eq_params
    else:
        by_key = params_dict.eq_params
    return by_key


def pure_rebound(d, k):
    d = dict(d)        # the name no longer refers to the caller's object
    d[k] = 1
    return d


def writes_after_alias_in_branch(params_dict, flag):
    if flag:
        target = {}
    else:
        target = params_dict.eq_params
    target["x"] = 1     # may write into the caller's dictionary
    return target


def writes_in_closure(params_dict):
    def inner(k):
        params_dict.eq_params[k] = 0
    inner("a")
    return params_dict


def merges_in_place(batch_dict, keys):
    merged = batch_dict
    merged |= {k: None for k in keys}      # dict |= mutates the caller's dictionary
    return merged


def pure_merge(batch_dict, keys):
    merged = batch_dict | {k: None for k in keys}
    return merged
