"""Positive fixture for the effect analysis (C20.R2): every function here mutates an argument and must be reported."""


def writes_item(params_dict, batch):
    eq = batch.param_batch_dict
    for k in eq.keys():
        params_dict.eq_params[k] = eq[k]
    return params_dict


def appends(self, x):
    alias = self.items
    alias.append(x)
    return self


def deletes(d, k):
    del d[k]


def pure(d, k):
    e = dict(d)
    e[k] = 1
    res = {}
    res[k] = 2
    return e, res
