"""Abstract data generators (instances of the repository's classes with symbolic fields) for the dataflow checks."""
from __future__ import annotations
import numpy as np

from .alg import Poly, AT, Sym, SymDim, K, to_at, Top, Finding
from .extern import make_world
from .interp import freeze, Inst

MOD = "jinns.data._DataGenerators"


def rar_params():
    return {"start_iter": K('start_iter'), "update_every": K('update_every'),
            "sample_size_times": K('S_t'), "selected_sample_size_times": K('sel_t'),
            "sample_size_omega": K('S_x'), "selected_sample_size_omega": K('sel_x')}


class GenEnv:
    def __init__(self, repo, world=None):
        self.w = world if world is not None else make_world(repo)
        self.m = self.w.module(MOD)

    def cls(self, name):
        return self.m.env.get(name)

    def fn(self, name):
        return self.m.env.get(name)

    # ---- generators with symbolic state
    def ode(self, rar=False, method='uniform', **over):
        f = dict(key=Sym('key'), nt=K('nt'), tmin=K('tmin'), tmax=K('tmax'), temporal_batch_size=K('bt'), method=method,
                 rar_parameters=rar_params() if rar else None, nt_start=K('nt_start') if rar else K('nt'),
                 p_times=Sym('p_times') if rar else None, rar_iter_from_last_sampling=K('since') if rar else None,
                 rar_iter_nb=K('J') if rar else None, curr_time_idx=K('it'), times=Sym('times'))
        f.update(over)
        return self.cls("DataGeneratorODE").make(**f)

    def _statio_fields(self, dim, rar, border, method):
        return dict(key=Sym('key'), n=K('n'), nb=K('nb') if border else None, omega_batch_size=K('bx'),
                    omega_border_batch_size=(K('bb') if dim > 1 else 2) if border else None, dim=dim,
                    min_pts=tuple(K(f'min{i}') for i in range(dim)), max_pts=tuple(K(f'max{i}') for i in range(dim)),
                    method=method, rar_parameters=rar_params() if rar else None, n_start=K('n_start') if rar else K('n'),
                    p_omega=Sym('p_omega') if rar else None, p_border=None,
                    rar_iter_from_last_sampling=K('since') if rar else None, rar_iter_nb=K('J') if rar else None,
                    curr_omega_idx=K('ix'), curr_omega_border_idx=K('ib') if border else None, omega=Sym('omega'),
                    omega_border=(Sym('omega_border') if dim > 1 else AT((2,), np.array([K('min0'), K('max0')], dtype=object)))
                    if border else None)

    def statio(self, dim=2, rar=False, border=True, method='uniform', **over):
        f = self._statio_fields(dim, rar, border, method)
        if dim == 1 and border:
            f['nb'] = 2
        f.update(over)
        return self.cls("CubicMeshPDEStatio").make(**f)

    def nonstatio(self, dim=2, rar=False, border=True, method='uniform', cartesian=True, **over):
        f = self._statio_fields(dim, rar, border, method)
        if dim == 1 and border:
            f['nb'] = 2
        f.update(dict(temporal_batch_size=K('bt'), tmin=K('tmin'), tmax=K('tmax'), nt=K('nt'), cartesian_product=cartesian,
                      nt_start=K('nt_start') if rar else K('nt'), p_times=Sym('p_times') if rar else None,
                      curr_time_idx=K('it'), times=Sym('times')))
        f.update(over)
        return self.cls("CubicMeshPDENonStatio").make(**f)

    def obs(self, eq_keys=('nu',), **over):
        f = dict(key=Sym('key'), obs_batch_size=K('bo'), observed_pinn_in=Sym('obs_in'), observed_values=Sym('obs_val'),
                 observed_eq_params={k: Sym(f'obs_{k}') for k in eq_keys}, sharding_device=None, n=K('n_obs'),
                 curr_idx=K('io'), indices=Sym('indices'))
        f.update(over)
        return self.cls("DataGeneratorObservations").make(**f)

    def param(self, keys=('nu', 'th'), **over):
        f = dict(keys={k: Sym(f'key_{k}') for k in keys}, n=K('n_p'), param_batch_size=K('bp'),
                 param_ranges={k: (K(f'{k}_lo'), K(f'{k}_hi')) for k in keys}, method='uniform', user_data={},
                 curr_param_idx={k: K(f'ip_{k}') for k in keys}, param_n_samples={k: Sym(f'samples_{k}') for k in keys})
        f.update(over)
        return self.cls("DataGeneratorParameter").make(**f)


def walk_sym(v, f):
    """apply f to every Sym node reachable from v (through Sym args, tuples, Polys, ATs)"""
    seen = set()

    def rec(x):
        if isinstance(x, Sym):
            if id(x) in seen:
                return
            seen.add(id(x))
            f(x)
            for a in x.args:
                rec(a)
        elif isinstance(x, (tuple, list)):
            for y in x:
                rec(y)
        elif isinstance(x, dict):
            for y in x.values():
                rec(y)
        elif isinstance(x, Poly):
            for a in x.atoms():
                rec_atom(a)
        elif isinstance(x, AT):
            for p in x.entries():
                rec(p)
        elif isinstance(x, Inst):
            for y in x.fields.values():
                rec(y)

    def rec_atom(a):
        if a[0] == 'S':
            rec(a[1])
        elif a[0] in ('Inv', 'Abs'):
            rec(a[1])
        elif a[0] in ('FloorDiv', 'Mod'):
            rec(a[1]); rec(a[2])
        elif a[0] in ('Mean', 'Sum'):
            rec(a[2])
    rec(v)
