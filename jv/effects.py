"""G2-lite effect analysis: stores / deletes / mutating method calls on objects reachable from a function's
parameters, over the name-based call-graph closure of given entry points.  Purely syntactic (ast)."""
from __future__ import annotations
import ast
import os

MUTATORS = {"append", "extend", "insert", "pop", "remove", "clear", "update", "setdefault", "sort", "reverse", "popitem",
            "add", "discard", "__setitem__", "__delitem__"}


def access_root(e):
    """root Name of a pure access path (Name / Attribute / Subscript chain), else None"""
    while True:
        if isinstance(e, ast.Name):
            return e.id
        if isinstance(e, (ast.Attribute, ast.Subscript)):
            e = e.value
            continue
        return None


def is_access_path(e):
    return access_root(e) is not None


def functions_of(tree, modname):
    out = []

    def rec(body, prefix, cls):
        for st in body:
            if isinstance(st, (ast.FunctionDef, ast.AsyncFunctionDef)):
                out.append((modname, prefix + st.name, st, cls))
                rec(st.body, prefix + st.name + ".", cls)
            elif isinstance(st, ast.ClassDef):
                rec(st.body, prefix + st.name + ".", st.name)
    rec(tree.body, "", None)
    return out


def called_names(fn):
    names = set()
    for n in ast.walk(fn):
        if isinstance(n, ast.Call):
            f = n.func
            if isinstance(f, ast.Name):
                names.add(f.id)
            elif isinstance(f, ast.Attribute):
                names.add(f.attr)
        elif isinstance(n, (ast.Name,)) and isinstance(n.ctx, ast.Load):
            names.add(n.id)          # functions passed as values (tree_map(f, ...), lax.cond branches)
        elif isinstance(n, ast.Attribute) and isinstance(n.ctx, ast.Load):
            names.add(n.attr)
    return names


def closure(funcs, entry_pred):
    by_name = {}
    for f in funcs:
        by_name.setdefault(f[1].split(".")[-1], []).append(f)
    work = [f for f in funcs if entry_pred(f)]
    seen = set()
    out = []
    while work:
        f = work.pop()
        key = (f[0], f[1])
        if key in seen:
            continue
        seen.add(key)
        out.append(f)
        for nm in called_names(f[2]):
            for g in by_name.get(nm, ()):
                if (g[0], g[1]) not in seen:
                    work.append(g)
    return out


def _params_of(fn):
    a = fn.args
    names = {x.arg for x in a.posonlyargs + a.args + a.kwonlyargs}
    if a.vararg: names.add(a.vararg.arg)
    if a.kwarg: names.add(a.kwarg.arg)
    return names


def _taint_everywhere(fn, tainted):
    """flow-insensitive closure of `tainted` under aliasing over the whole function (used for nested functions, whose
    call time is unknown)"""
    tainted = set(tainted)
    body_nodes = [n for n in ast.walk(fn)]
    changed = True
    while changed:
        changed = False
        for n in body_nodes:
            if isinstance(n, ast.Assign):
                for t in n.targets:
                    changed |= _alias(t, n.value, tainted)
            elif isinstance(n, ast.AnnAssign) and n.value is not None:
                changed |= _alias(n.target, n.value, tainted)
            elif isinstance(n, (ast.For, ast.comprehension)):
                changed |= _taint_loop_target(n, tainted)
    return tainted


def _taint_loop_target(n, tainted):
    it, ch = n.iter, False
    hit = False
    if isinstance(it, ast.Call) and isinstance(it.func, ast.Attribute) and it.func.attr in ("items", "values") \
            and access_root(it.func.value) in tainted:
        hit = True
    elif access_root(it) in tainted:
        hit = True
    if hit:
        for nm in ast.walk(n.target):
            if isinstance(nm, ast.Name) and nm.id not in tainted:
                tainted.add(nm.id); ch = True
    return ch


def _effects_in_expr(e, tainted, findings):
    """mutating calls inside an expression (comprehensions bind their targets in a copy of the state)"""
    for n in ast.walk(e):
        if isinstance(n, ast.Call) and isinstance(n.func, ast.Attribute) and n.func.attr in MUTATORS:
            r = access_root(n.func.value)
            if r in tainted:
                findings.append((n.lineno, f"mutating call `{ast.unparse(n.func)}(...)` on an object reachable from parameter `{r}`"))


def analyse_function(fn, outer_tainted=()):
    """returns list of (lineno, description) of effects on parameter-reachable objects.  Flow-sensitive over the statements of
    the function: `name = <fresh value>` ends the aliasing of `name`, branches are analysed separately and joined, loop
    bodies are iterated to a fixed point; nested functions see the flow-insensitive aliases of the enclosing function."""
    params = _params_of(fn)
    everywhere = _taint_everywhere(fn, set(params) | set(outer_tainted))
    findings = []

    def assign(target, value, state):
        # kill then (maybe) re-taint
        if isinstance(target, ast.Name):
            state.discard(target.id)
            _alias(target, value, state)
        elif isinstance(target, (ast.Tuple, ast.List)):
            if isinstance(value, (ast.Tuple, ast.List)) and len(value.elts) == len(target.elts):
                for t, v in zip(target.elts, value.elts):
                    assign(t, v, state)
            else:
                for t in _flatten_targets(target):
                    if isinstance(t, ast.Name):
                        # unpacking of a tainted container yields tainted elements
                        if access_root(value) in state:
                            state.add(t.id)
                        else:
                            state.discard(t.id)
        if isinstance(target, (ast.Attribute, ast.Subscript)):
            pass

    def store_targets(n, state):
        if isinstance(n, ast.AugAssign) and isinstance(n.target, ast.Name) and n.target.id in state:
            # `name |= {...}` / `name += [...]` mutate the object the name refers to (dict / set / list), they do not rebind it
            v = n.value
            if (isinstance(n.op, ast.BitOr) and isinstance(v, (ast.Dict, ast.DictComp, ast.Set, ast.SetComp))) or \
                    (isinstance(n.op, ast.Add) and isinstance(v, (ast.List, ast.ListComp))):
                findings.append((n.lineno, f"in-place `{ast.unparse(n.target)} {type(n.op).__name__}= ...` on an object reachable from "
                                           f"parameter `{n.target.id}`"))
        targets = n.targets if isinstance(n, ast.Assign) else [n.target]
        for t in targets:
            for tt in _flatten_targets(t):
                if isinstance(tt, (ast.Attribute, ast.Subscript)) and access_root(tt) in state:
                    findings.append((n.lineno, f"store `{ast.unparse(tt)} = ...` on an object reachable from parameter "
                                               f"`{access_root(tt)}`"))

    def block(stmts, state):
        for st in stmts:
            state = stmt(st, state)
        return state

    def stmt(st, state):
        if isinstance(st, (ast.FunctionDef, ast.AsyncFunctionDef)):
            for ln, d in analyse_function(st, everywhere):
                findings.append((ln, d))
            return state
        if isinstance(st, ast.ClassDef):
            return state
        if isinstance(st, (ast.Assign, ast.AnnAssign, ast.AugAssign)):
            value = getattr(st, 'value', None)
            if value is not None:
                _effects_in_expr(value, state, findings)
                _lambdas(value)
            store_targets(st, state)
            if isinstance(st, ast.Assign):
                for t in st.targets:
                    assign(t, st.value, state)
            elif isinstance(st, ast.AnnAssign) and st.value is not None:
                assign(st.target, st.value, state)
            return state
        if isinstance(st, ast.Delete):
            for t in st.targets:
                if isinstance(t, (ast.Attribute, ast.Subscript)) and access_root(t) in state:
                    findings.append((st.lineno, f"`del {ast.unparse(t)}` on an object reachable from parameter `{access_root(t)}`"))
            return state
        if isinstance(st, (ast.Global, ast.Nonlocal)):
            findings.append((st.lineno, f"`{type(st).__name__.lower()} {', '.join(st.names)}`"))
            return state
        if isinstance(st, ast.If):
            _effects_in_expr(st.test, state, findings)
            a = block(st.body, set(state))
            b = block(st.orelse, set(state))
            return a | b
        if isinstance(st, (ast.For, ast.AsyncFor, ast.While)):
            cur = set(state)
            for _ in range(4):
                s0 = set(cur)
                if isinstance(st, (ast.For, ast.AsyncFor)):
                    _effects_in_expr(st.iter, s0, [])
                    for nm in ast.walk(st.target):
                        if isinstance(nm, ast.Name):
                            s0.discard(nm.id)
                    _taint_loop_target(st, s0)
                probe = []
                saved = list(findings)
                s1 = block(st.body, s0)
                del findings[len(saved):]
                nxt = cur | s1
                if nxt == cur:
                    break
                cur = nxt
            s0 = set(cur)
            if isinstance(st, (ast.For, ast.AsyncFor)):
                _effects_in_expr(st.iter, s0, findings)
                _taint_loop_target(st, s0)
            else:
                _effects_in_expr(st.test, s0, findings)
            out = block(st.body, s0)
            return block(st.orelse, cur | out)
        if isinstance(st, (ast.With, ast.AsyncWith)):
            for it in st.items:
                _effects_in_expr(it.context_expr, state, findings)
            return block(st.body, state)
        if isinstance(st, ast.Try):
            a = block(st.body, set(state))
            outs = [a]
            for h in st.handlers:
                outs.append(block(h.body, set(state) | a))
            o = set().union(*outs)
            o = block(st.orelse, o)
            return block(st.finalbody, o)
        if isinstance(st, ast.Match):
            outs = [set(state)]
            for c in st.cases:
                outs.append(block(c.body, set(state)))
            return set().union(*outs)
        # expression statements, return, raise, assert ...
        for child in ast.iter_child_nodes(st):
            if isinstance(child, ast.expr):
                _effects_in_expr(child, state, findings)
                _lambdas(child)
        return state

    def _lambdas(e):
        for n in ast.walk(e):
            if isinstance(n, ast.Lambda):
                lam_params = _params_of(n)
                st = everywhere | lam_params
                _effects_in_expr(n.body, st, findings)

    block(fn.body, set(params) | set(outer_tainted))
    # unique, in source order
    seen, out = set(), []
    for f in sorted(findings):
        if f not in seen:
            seen.add(f); out.append(f)
    return out


def _flatten_targets(t):
    if isinstance(t, (ast.Tuple, ast.List)):
        for e in t.elts:
            yield from _flatten_targets(e)
    elif isinstance(t, ast.Starred):
        yield from _flatten_targets(t.value)
    else:
        yield t


def _alias(target, value, tainted):
    """plain aliasing: name = <access path rooted at a tainted name> (also element-wise for tuples)"""
    ch = False
    if isinstance(target, ast.Name):
        if is_access_path(value) and access_root(value) in tainted and not isinstance(value, ast.Name) or \
                (isinstance(value, ast.Name) and value.id in tainted):
            if target.id not in tainted:
                tainted.add(target.id); ch = True
        elif isinstance(value, ast.IfExp):
            ch |= _alias(target, value.body, tainted) | _alias(target, value.orelse, tainted)
        elif isinstance(value, ast.BoolOp):
            for v in value.values:
                ch |= _alias(target, v, tainted)
    elif isinstance(target, (ast.Tuple, ast.List)) and isinstance(value, (ast.Tuple, ast.List)) and len(target.elts) == len(value.elts):
        for t, v in zip(target.elts, value.elts):
            ch |= _alias(t, v, tainted)
    return ch
