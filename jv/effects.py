"""G2-lite effect analysis: stores / deletes / mutating method calls on objects reachable from a function's
parameters, over the name-based call-graph closure of given entry points.  Purely syntactic (ast)."""
from __future__ import annotations
import ast
import os

MUTATORS = {"append", "extend", "insert", "pop", "remove", "clear", "update", "setdefault", "sort", "reverse", "popitem",
            "add", "discard", "__setitem__", "__delitem__"}


def access_root(e):
    """root Name of a pure access path (Name / Attribute / Subscript chain), else None"""
    while True:
        if isinstance(e, ast.Name):
            return e.id
        if isinstance(e, (ast.Attribute, ast.Subscript)):
            e = e.value
            continue
        return None


def is_access_path(e):
    return access_root(e) is not None


def functions_of(tree, modname):
    out = []

    def rec(body, prefix, cls):
        for st in body:
            if isinstance(st, (ast.FunctionDef, ast.AsyncFunctionDef)):
                out.append((modname, prefix + st.name, st, cls))
                rec(st.body, prefix + st.name + ".", cls)
            elif isinstance(st, ast.ClassDef):
                rec(st.body, prefix + st.name + ".", st.name)
    rec(tree.body, "", None)
    return out


def called_names(fn):
    names = set()
    for n in ast.walk(fn):
        if isinstance(n, ast.Call):
            f = n.func
            if isinstance(f, ast.Name):
                names.add(f.id)
            elif isinstance(f, ast.Attribute):
                names.add(f.attr)
        elif isinstance(n, (ast.Name,)) and isinstance(n.ctx, ast.Load):
            names.add(n.id)          # functions passed as values (tree_map(f, ...), lax.cond branches)
        elif isinstance(n, ast.Attribute) and isinstance(n.ctx, ast.Load):
            names.add(n.attr)
    return names


def closure(funcs, entry_pred):
    by_name = {}
    for f in funcs:
        by_name.setdefault(f[1].split(".")[-1], []).append(f)
    work = [f for f in funcs if entry_pred(f)]
    seen = set()
    out = []
    while work:
        f = work.pop()
        key = (f[0], f[1])
        if key in seen:
            continue
        seen.add(key)
        out.append(f)
        for nm in called_names(f[2]):
            for g in by_name.get(nm, ()):
                if (g[0], g[1]) not in seen:
                    work.append(g)
    return out


def analyse_function(fn):
    """returns list of (lineno, description) of effects on parameter-reachable objects"""
    a = fn.args
    tainted = {x.arg for x in a.posonlyargs + a.args + a.kwonlyargs}
    if a.vararg: tainted.add(a.vararg.arg)
    if a.kwarg: tainted.add(a.kwarg.arg)
    findings = []
    # nested functions are analysed separately, but see the enclosing tainted names (closures)
    changed = True
    body_nodes = [n for n in ast.walk(fn)]
    while changed:
        changed = False
        for n in body_nodes:
            if isinstance(n, ast.Assign):
                for t in n.targets:
                    changed |= _alias(t, n.value, tainted)
            elif isinstance(n, ast.AnnAssign) and n.value is not None:
                changed |= _alias(n.target, n.value, tainted)
            elif isinstance(n, (ast.For, ast.comprehension)):
                it = n.iter
                if isinstance(it, ast.Call) and isinstance(it.func, ast.Attribute) and it.func.attr in ("items", "values") \
                        and access_root(it.func.value) in tainted:
                    for nm in ast.walk(n.target):
                        if isinstance(nm, ast.Name) and nm.id not in tainted:
                            tainted.add(nm.id); changed = True
                elif access_root(it) in tainted:
                    for nm in ast.walk(n.target):
                        if isinstance(nm, ast.Name) and nm.id not in tainted:
                            tainted.add(nm.id); changed = True
    for n in body_nodes:
        if isinstance(n, (ast.Assign, ast.AugAssign, ast.AnnAssign)):
            targets = n.targets if isinstance(n, ast.Assign) else [n.target]
            for t in targets:
                for tt in _flatten_targets(t):
                    if isinstance(tt, (ast.Attribute, ast.Subscript)) and access_root(tt) in tainted:
                        findings.append((n.lineno, f"store `{ast.unparse(tt)} = ...` on an object reachable from parameter "
                                                   f"`{access_root(tt)}`"))
        elif isinstance(n, ast.Delete):
            for t in n.targets:
                if isinstance(t, (ast.Attribute, ast.Subscript)) and access_root(t) in tainted:
                    findings.append((n.lineno, f"`del {ast.unparse(t)}` on an object reachable from parameter `{access_root(t)}`"))
        elif isinstance(n, ast.Call) and isinstance(n.func, ast.Attribute) and n.func.attr in MUTATORS:
            r = access_root(n.func.value)
            if r in tainted:
                findings.append((n.lineno, f"mutating call `{ast.unparse(n.func)}(...)` on an object reachable from parameter `{r}`"))
        elif isinstance(n, (ast.Global, ast.Nonlocal)):
            findings.append((n.lineno, f"`{type(n).__name__.lower()} {', '.join(n.names)}`"))
    return findings


def _flatten_targets(t):
    if isinstance(t, (ast.Tuple, ast.List)):
        for e in t.elts:
            yield from _flatten_targets(e)
    elif isinstance(t, ast.Starred):
        yield from _flatten_targets(t.value)
    else:
        yield t


def _alias(target, value, tainted):
    """plain aliasing: name = <access path rooted at a tainted name> (also element-wise for tuples)"""
    ch = False
    if isinstance(target, ast.Name):
        if is_access_path(value) and access_root(value) in tainted and not isinstance(value, ast.Name) or \
                (isinstance(value, ast.Name) and value.id in tainted):
            if target.id not in tainted:
                tainted.add(target.id); ch = True
        elif isinstance(value, ast.IfExp):
            ch |= _alias(target, value.body, tainted) | _alias(target, value.orelse, tainted)
        elif isinstance(value, ast.BoolOp):
            for v in value.values:
                ch |= _alias(target, v, tainted)
    elif isinstance(target, (ast.Tuple, ast.List)) and isinstance(value, (ast.Tuple, ast.List)) and len(target.elts) == len(value.elts):
        for t, v in zip(target.elts, value.elts):
            ch |= _alias(t, v, tainted)
    return ch
