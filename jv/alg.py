"""Abstract algebraic domain of the tensor-formula inference engine (E2).

Values
------
Poly    polynomial with rational coefficients over *atoms* (negative exponents allowed)
AT      tensor with concrete (int) and named symbolic (str) axes; entries are Poly
SymDim  extent of a named axis
Sym     opaque (uninterpreted) term; may be used as a number through the atom ('S', sym)

Atoms (tuples, first element is the tag)
  ('X', j, deps)                      spatial coordinate j of the canonical point
  ('T', deps)                         time coordinate of the canonical point
  ('U', net, k, alpha, slots, fp, deps)   component k of network `net`, derivative multi-index
                                      alpha (sorted tuple of 'T' / ('X', j)), `slots` records
                                      constant inputs (e.g. "t=0"), fp = fingerprint of the
                                      parameter object the network was called with
  ('P', name, idx, deps, sg)          leaf of an equation parameter, sg = behind stop_gradient
  ('K', name)                         opaque scalar constant (Tmax, weights, volumes)
  ('F', name, k, deps)                opaque value of a user function / table
  ('Mean', axis, poly) ('Sum', axis, poly) ('Abs', poly) ('Log', atom)
  ('S', sym)                          an opaque term used as a number

Nothing from the analysed repository is imported or executed here.
"""
from __future__ import annotations

from fractions import Fraction
import numpy as np


class Top(Exception):
    """construct outside the analyser's vocabulary -> INCONCLUSIVE (never a violation)"""


class Finding(Exception):
    """the abstract semantics positively contradicts a structural requirement"""


class _Defer(Top):
    """a tensor reaches a place where only a scalar can be handled"""

    def __init__(self, *a):
        super().__init__(*(a or ("a tensor is used where the analyser handles scalars only",)))


_CANON_REPR = [False]


def _key(x):
    """canonical text of a value, used for hashing and ordering (equal values have equal keys: see Sym.__repr__)"""
    prev = _CANON_REPR[0]
    _CANON_REPR[0] = True
    try:
        return repr(x)
    finally:
        _CANON_REPR[0] = prev


# ======================================================================================
# polynomials
# ======================================================================================
class Poly:
    __slots__ = ("t", "_h")

    def __init__(self, t=None):
        self.t = {k: v for k, v in (t or {}).items() if v != 0}
        self._h = None

    # ---- constructors
    @staticmethod
    def const(c):
        if isinstance(c, float):
            c = Fraction(c).limit_denominator(10**9)
        return Poly({(): Fraction(c)})

    @staticmethod
    def atom(a):
        return Poly({((a, 1),): Fraction(1)})

    # ---- queries
    def is_const(self):
        return all(k == () for k in self.t)

    def cval(self):
        return self.t.get((), Fraction(0))

    def is_zero(self):
        return not self.t

    def single_atom(self):
        """the atom a if the polynomial is exactly 1*a, else None"""
        if len(self.t) == 1:
            (k, v), = self.t.items()
            if v == 1 and len(k) == 1 and k[0][1] == 1:
                return k[0][0]
        return None

    def atoms(self):
        out = set()
        for k in self.t:
            for a, _ in k:
                out.add(a)
        return out

    def deps(self):
        d = set()
        for k in self.t:
            for a, _ in k:
                d |= atom_deps(a)
        return d

    # ---- arithmetic
    def __add__(self, o):
        if isinstance(o, AT):
            return NotImplemented
        o = lift(o)
        d = dict(self.t)
        for k, v in o.t.items():
            d[k] = d.get(k, 0) + v
        return Poly(d)

    def __radd__(self, o):
        if isinstance(o, AT):
            return NotImplemented
        return self.__add__(o)

    def __neg__(self):
        return Poly({k: -v for k, v in self.t.items()})

    def __sub__(self, o):
        if isinstance(o, AT):
            return NotImplemented
        return self + (-lift(o))

    def __rsub__(self, o):
        if isinstance(o, AT):
            return NotImplemented
        return lift(o) - self

    def __mul__(self, o):
        if isinstance(o, AT):
            return NotImplemented
        o = lift(o)
        d = {}
        for k1, v1 in self.t.items():
            for k2, v2 in o.t.items():
                m = dict(k1)
                for a, e in k2:
                    m[a] = m.get(a, 0) + e
                k = tuple(sorted(((a, e) for a, e in m.items() if e != 0), key=_key))
                d[k] = d.get(k, 0) + v1 * v2
        return Poly(d)._simplify_even_powers()

    def _simplify_even_powers(self):
        """|p|^2 -> p^2 and sqrt(p)^2 -> p, whichever way the square was written (x**2, x*x, square(x))"""
        if not any(a[0] in ('Abs', 'Sqrt') and e >= 2 for k in self.t for a, e in k):
            return self
        out = Poly()
        for k, v in self.t.items():
            term_ = Poly.const(v)
            for a, e in k:
                if a[0] in ('Abs', 'Sqrt') and e >= 2:
                    inner = a[1]
                    n_in = (e // 2) * (2 if a[0] == 'Abs' else 1)
                    for _ in range(n_in):
                        term_ = term_ * inner
                    if e % 2:
                        term_ = term_ * Poly({((a, 1),): Fraction(1)})
                else:
                    term_ = term_ * Poly({((a, e),): Fraction(1)})
            out = out + term_
        return out

    def __rmul__(self, o):
        if isinstance(o, AT):
            return NotImplemented
        return self.__mul__(o)

    def __truediv__(self, o):
        if isinstance(o, AT):
            return NotImplemented
        o = lift(o)
        if o.is_zero():
            raise Top("division by zero polynomial")
        if o.is_const():
            return self * Poly.const(1 / o.cval())
        if len(o.t) == 1:
            (k, v), = o.t.items()
            inv = Poly({tuple((a, -e) for a, e in k): 1 / v})
            return self * inv
        # general quotient: opaque reciprocal atom
        return self * Poly({((('Inv', o), 1),): Fraction(1)})

    def __rtruediv__(self, o):
        if isinstance(o, AT):
            return NotImplemented
        return lift(o) / self

    def __floordiv__(self, o):
        o = lift(o)
        if self.is_const() and o.is_const():
            return Poly.const(self.cval() // o.cval())
        return Poly.atom(('FloorDiv', self, o))

    def __rfloordiv__(self, o):
        return lift(o).__floordiv__(self)

    def __mod__(self, o):
        o = lift(o)
        if self.is_const() and o.is_const():
            return Poly.const(self.cval() % o.cval())
        return Poly.atom(('Mod', self, o))

    def __rmod__(self, o):
        return lift(o).__mod__(self)

    def __pow__(self, n):
        n = n.cval() if isinstance(n, Poly) else n
        if isinstance(n, float) and n == int(n):
            n = int(n)
        if isinstance(n, Fraction) and n.denominator == 1:
            n = int(n)
        if not isinstance(n, int):
            if isinstance(n, (float, Fraction)) and not self.is_const():
                # a root of a symbolic count: opaque, with the square root in the same form as sqrt(x)
                base = _sym_arg(self)
                return Poly.atom(('S', Sym('sqrt', base) if n == 0.5 else Sym('pow', base, Fraction(n).limit_denominator(1000))))
            raise Top(f"non-integer power {n!r}")
        if n < 0:
            return Poly.const(1) / (self ** (-n))
        if n == 2:
            a = self.single_atom()
            if a is not None and a[0] == 'Abs':
                return a[1] * a[1]
            if a is not None and a[0] == 'Sqrt':
                return a[1]
            if len(self.t) == 1:
                (k, v), = self.t.items()
                if len(k) == 1 and k[0][0][0] == 'Abs' and k[0][1] == 1:
                    inner = k[0][0][1]
                    return (inner * inner) * Poly.const(v * v)
        r = Poly.const(1)
        for _ in range(n):
            r = r * self
        return r

    def __getitem__(self, i):
        """an expression over opaque arrays is an array: indexing it gives an opaque element / view"""
        if any(a[0] == 'S' for a in self.atoms()):
            return Poly.atom(('S', Sym('getitem', _sym_arg(self), _freeze(i))))
        raise Top(f"index {i!r} applied to the scalar expression {self}")

    def __eq__(self, o):
        if isinstance(o, (int, float, Fraction)) and not isinstance(o, bool):
            return self.is_const() and self.cval() == o
        return isinstance(o, Poly) and self.t == o.t

    def __ne__(self, o):
        return not self.__eq__(o)

    def __hash__(self):
        if self._h is None:
            self._h = hash(tuple(sorted(((_key(k), v) for k, v in self.t.items()))))
        return self._h

    def __bool__(self):
        if self.is_const():
            return self.cval() != 0
        raise Top("truth value of a symbolic quantity")

    def __int__(self):
        if self.is_const() and self.cval().denominator == 1:
            return int(self.cval())
        raise Top(f"integer value of symbolic {self}")

    def __index__(self):
        return self.__int__()

    def __float__(self):
        if self.is_const():
            return float(self.cval())
        raise Top(f"float value of symbolic {self}")

    def _cmp(self, o, op):
        o = lift(o)
        if self.is_const() and o.is_const():
            a, b = self.cval(), o.cval()
            return {'<': a < b, '<=': a <= b, '>': a > b, '>=': a >= b}[op]
        return Pred.compare(self, o, op)

    def __lt__(self, o): return self._cmp(o, '<')
    def __le__(self, o): return self._cmp(o, '<=')
    def __gt__(self, o): return self._cmp(o, '>')
    def __ge__(self, o): return self._cmp(o, '>=')

    def __repr__(self):
        if not self.t:
            return "0"
        out = []
        shown = self
        if any(a[0] == 'Sum' for k in self.t for a, _ in k):
            try:
                shown = fold_means(self)          # readability only: |A|^-1 * Sum[A](q) is printed Mean[A](q)
            except Exception:
                shown = self
        for k, v in sorted(shown.t.items(), key=_key):
            mon = "*".join(fmt_atom(a) + (f"^{e}" if e != 1 else "") for a, e in k)
            c = str(v) if v.denominator == 1 else f"({v})"
            if mon and v == 1:
                out.append(mon)
            elif mon and v == -1:
                out.append("-" + mon)
            else:
                out.append(f"{c}*{mon}" if mon else c)
        return " + ".join(out)

    # ---- calculus
    def diff(self, var, tag=None):
        """derivative w.r.t. the canonical variable `var`; with a tag, only through atoms that carry the tag in their dependency
        set (the perturbation of ONE differentiation: values captured from an enclosing scope are constants for it)"""
        res = Poly()
        for k, v in self.t.items():
            for (a, e) in k:
                da = datom(a, var, tag)
                if da is None:
                    continue
                rest = dict(k)
                rest[a] = e - 1
                mono = Poly({tuple(sorted(((x, y) for x, y in rest.items() if y), key=_key)): v * e})
                res = res + mono * da
        return res

    def map_atoms(self, f):
        """rebuild the polynomial with every atom a replaced by f(a) (an atom or a Poly)"""
        res = Poly()
        for k, v in self.t.items():
            m = Poly.const(v)
            for a, e in k:
                r = f(a)
                r = r if isinstance(r, Poly) else Poly.atom(r)
                m = m * (r ** e if e >= 0 else Poly.const(1) / (r ** (-e)))
            res = res + m
        return res


def lift(x):
    if isinstance(x, Poly):
        return x
    if isinstance(x, AT):
        if x.axes == ():
            return x.data[()]
        raise _Defer()
    if isinstance(x, (bool, np.bool_)):
        return Poly.const(int(x))
    if isinstance(x, (int, float, Fraction, np.integer, np.floating)):
        return Poly.const(x if not isinstance(x, (np.integer, np.floating)) else x.item())
    if isinstance(x, Sym):
        return Poly.atom(('S', x))
    if isinstance(x, SymDim):
        return x.poly()
    raise Top(f"cannot use {type(x).__name__} as a number")


# ======================================================================================
# predicates over symbolic integers (comparator normal form, G4)
# ======================================================================================
class Pred:
    """normalised predicate: ('ge0', poly) / ('eq0', poly) / ('not', p) / ('and', ps) / ('or', ps) /
    ('sym', sym)"""
    __slots__ = ("kind", "arg")

    def __init__(self, kind, arg):
        self.kind, self.arg = kind, arg

    @staticmethod
    def compare(a, b, op):
        a, b = lift(a), lift(b)
        if op == '>=': return Pred('ge0', a - b)
        if op == '<=': return Pred('ge0', b - a)
        # strict comparisons: quantities built from opaque array values (loss values, ...) are reals, the
        # symbolic constants of the generators / schedules (indices, sizes, counters) are integers, for which
        # a > b  <=>  a - b - 1 >= 0
        d = (a - b) if op == '>' else (b - a)
        if op in ('>', '<'):
            if _real_valued(d):
                return Pred('gt0', d)
            return Pred('ge0', d - 1)
        if op == '==':
            p = a - b
            # canonical sign: first monomial positive
            if p.t:
                k0 = sorted(p.t.items(), key=_key)[0]
                if k0[1] < 0:
                    p = -p
            return Pred('eq0', p)
        if op == '!=':
            return Pred('not', Pred.compare(a, b, '=='))
        raise Top(f"comparison {op}")

    @staticmethod
    def strict_float_lt(a, b):
        """a < b on reals (no integer shift)"""
        return Pred('lt_real', (lift(a), lift(b)))

    def negate(self):
        if self.kind == 'not':
            return self.arg
        if self.kind == 'ge0':      # not (p >= 0)  <=>  -p - 1 >= 0   (integers)
            if _real_valued(self.arg):
                # reals (loss values, ...) can be NaN: `not (a >= b)` is NOT `a < b` then (both comparisons are false on NaN), so the
                # negation of a real comparison stays a negation
                return Pred('not', self)
            return Pred('ge0', -self.arg - 1)
        if self.kind == 'gt0':
            return Pred('not', self)
        if self.kind == 'and':      # De Morgan: negations are pushed to the comparisons (one normal form for both spellings)
            ps = [as_pred(p).negate() for p in self.arg]
            return Pred.disj(ps)
        if self.kind == 'or':
            return Pred.conj([as_pred(p).negate() for p in self.arg])
        return Pred('not', self)

    def __and__(self, o):
        return Pred.conj([self, o])

    # a comparison of arrays is a boolean array: the method spellings of the reductions used on masks
    def sum(self, *a, **k):
        return Sym('count_nonzero', self)

    def any(self, *a, **k):
        return Sym('any', self)

    def all(self, *a, **k):
        return self

    def astype(self, *a, **k):
        # the 0/1 indicator of the comparison (an opaque number)
        return Sym('indicator', self)

    def __or__(self, o):
        return Pred.disj([self, o])

    @staticmethod
    def disj(ps):
        flat = []
        for p in ps:
            if isinstance(p, (bool, np.bool_)):
                if p:
                    return True
                continue
            p = as_pred(p)
            if isinstance(p, (bool, np.bool_)):       # a constant array such as zeros((), bool)
                if p:
                    return True
                continue
            flat.extend(p.arg if p.kind == 'or' else [p])
        if not flat:
            return False
        uniq = sorted(set(flat), key=repr)
        return uniq[0] if len(uniq) == 1 else Pred('or', tuple(uniq))

    @staticmethod
    def conj(ps):
        flat = []
        for p in ps:
            if isinstance(p, (bool, np.bool_)):
                if not p:
                    return False
                continue
            p = as_pred(p)
            if isinstance(p, (bool, np.bool_)):
                if not p:
                    return False
                continue
            if p.kind == 'and':
                flat.extend(p.arg)
            else:
                flat.append(p)
        if not flat:
            return True
        if len(flat) == 1:
            return flat[0]
        return Pred('and', tuple(sorted(set(flat), key=_key)))

    def __eq__(self, o):
        return isinstance(o, Pred) and self.kind == o.kind and self.arg == o.arg

    def __hash__(self):
        return hash((self.kind, self.arg if not isinstance(self.arg, list) else tuple(self.arg)))

    def __bool__(self):
        raise Top(f"branching on a symbolic predicate {self}")

    def __repr__(self):
        if self.kind == 'ge0': return f"[{self.arg} >= 0]"
        if self.kind == 'gt0': return f"[{self.arg} > 0]"
        if self.kind == 'eq0': return f"[{self.arg} == 0]"
        if self.kind == 'not': return f"not{self.arg}"
        if self.kind == 'lt_real': return f"[{self.arg[0]} <R {self.arg[1]}]"
        if self.kind in ('and', 'or'): return "(" + f" {self.kind} ".join(map(repr, self.arg)) + ")"
        return f"[{self.arg}]"


_INTEGER_VALUED_OPS = ('count_nonzero', '.size', '.ndim', 'dim', 'len', 'floordiv', 'mod', 'argmax', 'argmin', 'argsort', 'top_k.idx',
                       'shape_rest', 'arange', '$i')


def _real_valued(d):
    """the polynomial involves an opaque quantity that is not known to be an integer (a loss value, an array entry, ...)"""
    for at in d.atoms():
        if at[0] == 'S':
            op = at[1].op if isinstance(at[1], Sym) else None
            if op not in _INTEGER_VALUED_OPS:
                return True
    return False


def as_pred(x):
    if isinstance(x, Pred):
        return x
    if isinstance(x, (bool, np.bool_)):
        return bool(x)
    if isinstance(x, Sym):
        return Pred('sym', x)
    if isinstance(x, AT) and x.axes == ():
        return as_pred(x.data[()])
    if isinstance(x, Poly):
        a = x.single_atom()
        if a is not None and a[0] == 'S':
            return Pred('sym', a[1])
        if a is not None and a[0] == 'Pred':
            return a[1]
        if x.is_const():
            return x.cval() != 0
    raise Top(f"not a predicate: {x!r}")


# ======================================================================================
# opaque terms
# ======================================================================================
ROWS_REST = '<all the other axes in full>'


class Sym:
    """uninterpreted term op(args); hashable, structural equality"""
    __slots__ = ("op", "args", "_h")

    def __init__(self, op, *args):
        self.op = op
        self.args = tuple(args)
        self._h = None

    def __eq__(self, o):
        if not (isinstance(o, Sym) and self.op == o.op):
            return False
        if self.op == 'dynamic_slice' and (self._rows_only() or o._rows_only()):
            # a window of ROWS of x (dynamic_slice_in_dim(x, i, b, axis=0)) is dynamic_slice(x, (i, 0, ...), (b, full, ...)): when one
            # side is written that way, only the store, the first start index and the number of rows are compared
            a, b = self.args, o.args
            return len(a) == 3 and len(b) == 3 and a[0] == b[0] and a[1][:1] == b[1][:1] and a[2][:1] == b[2][:1] and \
                all(x == 0 or x == ROWS_REST for x in a[1][1:] + b[1][1:])
        return self.args == o.args

    def _rows_only(self):
        return len(self.args) == 3 and isinstance(self.args[1], tuple) and ROWS_REST in self.args[1]

    def __ne__(self, o):
        return not self.__eq__(o)

    def __hash__(self):
        if self._h is None:
            self._h = hash(_key(self))
        return self._h

    def __repr__(self):
        if not self.args:
            return str(self.op)
        if _CANON_REPR[0] and self.op == 'dynamic_slice' and len(self.args) == 3 and isinstance(self.args[1], tuple) \
                and isinstance(self.args[2], tuple) and all(x == 0 or x == ROWS_REST for x in self.args[1][1:]):
            # key of a window of rows: the two spellings (explicit zeros / dynamic_slice_in_dim) share it
            return f"dynamic_slice({self.args[0]!r}, {self.args[1][:1]!r}, {self.args[2][:1]!r})"
        return f"{self.op}(" + ", ".join(map(repr, self.args)) + ")"

    # numbers
    def _p(self): return Poly.atom(('S', self))
    def __add__(self, o): return self._p() + o
    def __radd__(self, o): return o + self._p()
    def __sub__(self, o): return self._p() - o
    def __rsub__(self, o): return o - self._p()
    def __mul__(self, o): return self._p() * o
    def __rmul__(self, o): return o * self._p()
    def __truediv__(self, o): return self._p() / o
    def __rtruediv__(self, o): return lift(o) / self._p()
    def __neg__(self): return -self._p()
    def __pow__(self, n): return self._p() ** n
    def __mod__(self, o): return self._p() % o
    def __floordiv__(self, o): return self._p() // o
    def __lt__(self, o): return self._p() < o
    def __le__(self, o): return self._p() <= o
    def __gt__(self, o): return self._p() > o
    def __ge__(self, o): return self._p() >= o

    def __bool__(self):
        raise Top(f"branching on an opaque value {self}")

    def __getitem__(self, i):
        if isinstance(i, Sym) and i.op not in ('dim', '.ndim', 'shape_rest'):
            return Sym('gather', self, i)            # indexing by an index array = take(..., axis=0)
        return Sym('getitem', self, _freeze(i))

    def __iter__(self):
        raise Top(f"iteration over an opaque value {self}")


def _freeze(i):
    if isinstance(i, slice):
        # one spelling: [0:k] == [:k], [a:b:1] == [a:b]
        start = None if (isinstance(i.start, int) and not isinstance(i.start, bool) and i.start == 0) else i.start
        step = None if (isinstance(i.step, int) and not isinstance(i.step, bool) and i.step == 1) else i.step
        return ('slice', _freeze(start), _freeze(i.stop), _freeze(step))
    if isinstance(i, (tuple, list)):
        return tuple(_freeze(x) for x in i)
    if i is Ellipsis:
        return '...'
    if isinstance(i, Poly) and i.is_const() and i.cval().denominator == 1:
        return int(i.cval())
    return i


# ======================================================================================
# atoms
# ======================================================================================
def atom_deps(a):
    tag = a[0]
    if tag == 'X': return set(a[2])
    if tag == 'T': return set(a[1])
    if tag == 'U': return set(a[6])
    if tag == 'P': return set(a[3])
    if tag == 'F': return set(a[3])
    if tag == 'R': return set(a[4])
    if tag in ('Mean', 'Sum'): return a[2].deps() - set(a[1])
    if tag == 'Abs': return a[1].deps()
    if tag == 'Sqrt': return a[1].deps()
    if tag == 'Inv': return a[1].deps()
    if tag == 'Log': return atom_deps(a[1])
    if tag in ('FloorDiv', 'Mod'): return a[1].deps() | a[2].deps()
    return set()


def map_deps(a, f):
    """atom with its dependency set transformed by f (recursively through binders)"""
    tag = a[0]
    if tag == 'X': return ('X', a[1], frozenset(f(set(a[2]))))
    if tag == 'T': return ('T', frozenset(f(set(a[1]))))
    if tag == 'U': return a[:6] + (frozenset(f(set(a[6]))),)
    if tag == 'P': return a[:3] + (frozenset(f(set(a[3]))), a[4])
    if tag == 'F': return a[:3] + (frozenset(f(set(a[3]))),) + a[4:]
    if tag == 'R': return a[:4] + (frozenset(f(set(a[4]))),)
    if tag in ('Mean', 'Sum'): return (tag, a[1], a[2].map_atoms(lambda x: map_deps(x, f)))
    if tag in ('Abs', 'Inv', 'Sqrt'): return (tag, a[1].map_atoms(lambda x: map_deps(x, f)))
    if tag == 'Log': return ('Log', map_deps(a[1], f))
    return a


def strip_deps_atom(a):
    return map_deps(a, lambda s: set())


def fmt_atom(a):
    tag = a[0]
    if tag == 'X': return f"x{a[1]}"
    if tag == 'T': return "t"
    if tag == 'U':
        al = "".join(("t" if v == 'T' else str(v[1])) for v in a[3])
        vis = [s for s in a[4] if not s.endswith('=absent')]
        sl = "" if not vis else "@" + ",".join(vis)
        return f"{a[1]}{a[2]}" + (f"_{{{al}}}" if al else "") + sl
    if tag == 'P': return ("sg:" if a[4] else "") + f"{a[1]}" + ("".join(f"[{i}]" for i in a[2]))
    if tag == 'K': return str(a[1])
    if tag == 'F': return f"{a[1]}" + (f"[{a[2]}]" if a[2] is not None else "")
    if tag in ('Mean', 'Sum'): return f"{tag}[{','.join(a[1])}]({a[2]})"
    if tag == 'Abs': return f"|{a[1]}|"
    if tag == 'Inv': return f"1/({a[1]})"
    if tag == 'Sqrt': return f"sqrt({a[1]})"
    if tag == 'Log': return f"log({fmt_atom(a[1])})"
    if tag == 'S': return repr(a[1])
    if tag == 'R': return f"uniform[{a[1]}]({a[2]}, {a[3]})"
    if tag == 'FloorDiv': return f"({a[1]})//({a[2]})"
    if tag == 'Mod': return f"({a[1]})%({a[2]})"
    if tag == 'Pred': return repr(a[1])
    return repr(a)


def var_key(a):
    if a[0] == 'X': return ('X', a[1])
    if a[0] == 'T': return 'T'
    return None


def datom(a, var, adtag=None):
    tag = a[0]
    if adtag is not None and adtag not in atom_deps(a):
        return None
    if var_key(a) == var:
        return Poly.const(1)
    if tag == 'U':
        if a[4]:
            # evaluated at a constant slot: differentiating w.r.t. the *other* variables is fine
            blocked = {s.split('=')[0] for s in a[4]}
            vname = 't' if var == 'T' else f"x{var[1]}"
            if vname in blocked:
                return None
        return Poly.atom(('U', a[1], a[2], tuple(sorted(a[3] + (var,), key=_key)), a[4], a[5], a[6]))
    if tag == 'Log':
        d = datom(a[1], var, adtag)
        return None if d is None else d / Poly.atom(a[1])
    if tag == 'Inv':
        d = a[1].diff(var, adtag)
        if d.is_zero():
            return None
        return -d * Poly.atom(a) * Poly.atom(a)
    if tag in ('Mean', 'Sum', 'Abs'):
        raise Top("derivative through a binder")
    return None


# ======================================================================================
# symbolic extents
# ======================================================================================
class SymDim:
    """extent of a named axis, with the little arithmetic the code base performs on extents"""

    def __init__(self, name):
        self.name = name

    def poly(self):
        if self.name in UNIT_AXES:
            return Poly.const(1)
        return Poly.atom(('K', self.name))

    def __add__(self, o): return self.poly() + lift(o)
    __radd__ = __add__
    def __sub__(self, o): return self.poly() - lift(o)
    def __rsub__(self, o): return lift(o) - self.poly()
    def _derived(self, o, sym, fn):
        """extent computed from extents: a named extent whose polynomial value is remembered (see axis_extent)"""
        if sym in ('*', '//') and not isinstance(o, SymDim):
            try:
                if _dim(o) == 1:
                    return self               # |A| * 1, |A| // 1
            except Exception:
                pass
        nm = f"({self.name}{sym}{getattr(o, 'name', o)})"
        try:
            eo = axis_extent(o.name) if isinstance(o, SymDim) else lift(o)
            AXIS_EXTENT.setdefault(nm, fn(axis_extent(self.name), eo))
        except Exception:
            pass
        return SymDim(nm)

    def __floordiv__(self, o): return self._derived(o, '//', lambda a, b: a // b)
    def __mod__(self, o): return Poly.const(0) if isinstance(o, SymDim) else SymDim(f"({self.name}%{o})")
    def __mul__(self, o): return self._derived(o, '*', lambda a, b: a * b)
    __rmul__ = __mul__
    def __eq__(self, o):
        if isinstance(o, SymDim):
            if o.name == self.name:
                return True
            # extents of two DIFFERENT axes: generic (unrelated) unless a configuration declares both and they coincide
            ea, eb = AXIS_EXTENT.get(self.name), AXIS_EXTENT.get(o.name)
            return ea is not None and eb is not None and ea == eb
        if self.name in UNIT_AXES and isinstance(o, (int, Poly)):
            return lift(o) == Poly.const(1)           # the configuration declares this row axis to have exactly one row
        if isinstance(o, (int, Poly)): return False   # a row axis is never a small literal extent
        return NotImplemented
    def __ne__(self, o): return not self.__eq__(o)
    def __hash__(self): return hash(self.name)
    def __repr__(self): return f"|{self.name}|"
    def __index__(self): raise Top(f"concrete value of symbolic extent {self}")


# ======================================================================================
# tensors with named axes
# ======================================================================================
def _box(p):
    d = np.empty((), dtype=object)
    d[()] = p
    return d


class AT:
    def __init__(self, axes, data):
        self.axes = tuple(axes)
        if not isinstance(data, np.ndarray):
            data = np.array(data, dtype=object)
        self.data = data
        cs = tuple(a for a in self.axes if isinstance(a, int))
        if self.data.shape != cs:
            raise AssertionError(f"AT shape mismatch axes={self.axes} data={self.data.shape}")

    @staticmethod
    def scalar_of(p):
        return AT((), _box(lift(p)))

    # ---- shape-ish
    @property
    def shape(self):
        return tuple(a if isinstance(a, int) else SymDim(a) for a in self.axes)

    @property
    def ndim(self):
        return len(self.axes)

    @property
    def size(self):
        n = 1
        if any(not isinstance(a, int) for a in self.axes):
            # the number of entries as a polynomial in the extents of the named axes
            q = Poly.const(1)
            for a in self.axes:
                q = q * (Poly.const(a) if isinstance(a, int) else SymDim(a).poly())
            return q
        for a in self.axes:
            if not isinstance(a, int):
                raise Top("size of a tensor with symbolic axes")
            n *= a
        return n

    @property
    def T(self):
        return jnp_transpose(self)

    def cidx(self, k):
        k = k % len(self.axes)
        if not isinstance(self.axes[k], int):
            return None
        return sum(1 for a in self.axes[:k] if isinstance(a, int))

    def __repr__(self):
        return f"AT{list(self.axes)}{self.data.tolist()}"

    def __len__(self):
        if not self.axes:
            raise Top("len() of a 0-d tensor")
        if isinstance(self.axes[0], int):
            return self.axes[0]
        raise Top("len() of a symbolic axis")

    def __iter__(self):
        if not self.axes or not isinstance(self.axes[0], int):
            raise Top("iteration over a symbolic axis")
        for i in range(self.axes[0]):
            yield self[i]

    def __bool__(self):
        if self.axes == ():
            return bool(self.data[()])
        raise Top("truth value of a tensor")

    def __int__(self):
        if self.axes == ():
            return int(self.data[()])
        raise Top("int of tensor")

    def __index__(self):
        return self.__int__()

    def map(self, f):
        out = np.empty(self.data.shape, dtype=object)
        for i in np.ndindex(self.data.shape):
            out[i] = f(self.data[i])
        return AT(self.axes, out)

    def entries(self):
        return [self.data[i] for i in np.ndindex(self.data.shape)]

    # ---- arithmetic
    def _bin(self, o, f):
        try:
            o = to_at(o)
        except Top:
            return NotImplemented
        axes, a, b = broadcast(self, o)
        A, B = np.broadcast_arrays(a, b)
        out = np.empty(A.shape, dtype=object)
        for i in np.ndindex(out.shape):
            out[i] = f(A[i], B[i])
        return AT(axes, out)

    def __add__(self, o): return self._bin(o, lambda x, y: x + y)
    def __radd__(self, o): return to_at(o)._bin(self, lambda x, y: x + y)
    def __sub__(self, o): return self._bin(o, lambda x, y: x - y)
    def __rsub__(self, o): return to_at(o)._bin(self, lambda x, y: x - y)
    def __mul__(self, o): return self._bin(o, lambda x, y: x * y)
    def __rmul__(self, o): return to_at(o)._bin(self, lambda x, y: x * y)
    def __truediv__(self, o): return self._bin(o, lambda x, y: x / y)
    def __rtruediv__(self, o): return to_at(o)._bin(self, lambda x, y: x / y)
    def __neg__(self): return self.map(lambda p: -p)
    def __pow__(self, n): return self.map(lambda p: p ** n)

    def _cmp(self, o, op):
        if self.axes == ():
            return self.data[()]._cmp(lift(o), op)
        raise Top("elementwise comparison of tensors")

    def __lt__(self, o): return self._cmp(o, '<')
    def __le__(self, o): return self._cmp(o, '<=')
    def __gt__(self, o): return self._cmp(o, '>')
    def __ge__(self, o): return self._cmp(o, '>=')

    # ---- indexing
    def __getitem__(self, idx):
        if isinstance(idx, Sym):
            return Sym('gather', at_key(self), idx)
        if not isinstance(idx, tuple):
            idx = (idx,)
        idx = tuple(_norm_index(i) for i in idx)
        n_real = sum(1 for i in idx if i is not None and i is not Ellipsis)
        if n_real > len(self.axes):
            raise Finding(f"too many indices ({n_real}) for a tensor with axes {self.axes}")
        if Ellipsis in idx:
            k = idx.index(Ellipsis)
            idx = idx[:k] + (slice(None),) * (len(self.axes) - n_real) + idx[k + 1:]
        else:
            idx = idx + (slice(None),) * (len(self.axes) - n_real)
        new_axes, np_idx, ax = [], [], 0
        for it in idx:
            if it is None:
                new_axes.append(1)
                np_idx.append(None)
                continue
            a = self.axes[ax]
            ax += 1
            if isinstance(a, int):
                if isinstance(it, int):
                    if not -a <= it < a:
                        raise Finding(f"index {it} out of range for axis of size {a}")
                    np_idx.append(it)
                elif isinstance(it, slice):
                    ln = len(range(*it.indices(a)))
                    new_axes.append(ln)
                    np_idx.append(it)
                else:
                    raise Top(f"index {it!r} on a concrete axis")
            else:
                if isinstance(it, slice) and it.start in (None, 0) and it.step in (None, 1) and \
                        (it.stop is None or (isinstance(it.stop, SymDim) and it.stop.name == a)):
                    new_axes.append(a)            # the whole axis ([:], [0:], [0:n] with n its own extent)
                elif isinstance(it, slice) and a in self.deps() and all(isinstance(z, (int, type(None))) for z in (it.start, it.stop, it.step)):
                    # fixed positions of an axis that enumerates the rows of a batch / the points of a grid axis: the result
                    # is about particular rows, whatever the batch holds
                    raise Finding(f"constant slice [{'' if it.start is None else it.start}:{'' if it.stop is None else it.stop}] "
                                  f"applied to the row/grid axis {a} of a tensor with axes {self.axes} (an axis of a different "
                                  f"role was probably meant, e.g. the trailing component axis)")
                elif isinstance(it, int):
                    if a in UNIT_AXES:
                        if it not in (0, -1):
                            raise Finding(f"index {it} out of range for the single-row axis {a}")
                        continue          # the only row of a single-row axis: the axis goes, the row stays
                    if a in self.deps():
                        raise Top(f"integer index on the varying symbolic axis {a}")
                    # uniform along a: drop the axis
                else:
                    raise Top(f"partial slice {it!r} on symbolic axis {a}")
        data = self.data[tuple(np_idx)] if np_idx else self.data
        if not isinstance(data, np.ndarray):
            data = _box(data)
        return AT(new_axes, data)

    def deps(self):
        d = set()
        for i in np.ndindex(self.data.shape):
            d |= self.data[i].deps()
        return d

    dtype = 'float'          # element types are immaterial to the abstraction

    def squeeze(self, axis=None): return jnp_squeeze(self, axis)
    def flatten(self): return jnp_reshape(self, (-1,))
    def ravel(self): return jnp_reshape(self, (-1,))
    def reshape(self, *shape):
        if len(shape) == 1 and isinstance(shape[0], (tuple, list)):
            shape = tuple(shape[0])
        return jnp_reshape(self, shape)
    def astype(self, *a, **k): return self
    def sum(self, axis=None, **kw): return jnp_sum(self, axis, **kw)
    def mean(self, axis=None, **kw): return jnp_mean(self, axis, **kw)

    def scalar(self):
        if self.axes != ():
            raise Top(f"expected a scalar, got axes {self.axes}")
        return self.data[()]


def _sym_arg(p):
    """form in which a polynomial appears as an argument of an opaque term (see extern.fz)"""
    if p.is_const() and p.cval().denominator == 1:
        return int(p.cval())
    at = p.single_atom()
    if at is not None and at[0] == 'S':
        return at[1]
    return p


def at_key(a):
    """hashable structural form of a tensor (used when a tensor becomes an argument of an opaque term)"""
    def e(p):
        if p.is_const() and p.cval().denominator == 1:
            return int(p.cval())
        at = p.single_atom()
        if at is not None and at[0] == 'S':
            return at[1]
        return p
    if a.axes == ():
        return e(a.data[()])
    return ('AT', a.axes, tuple(e(x) for x in a.entries()))


def _norm_index(i):
    if isinstance(i, Poly):
        if not i.is_const():
            raise Top(f"symbolic index {i}")
        return int(i.cval())
    if isinstance(i, AT):
        if i.axes == ():
            return _norm_index(i.data[()])
        raise Top("tensor index")
    if isinstance(i, (np.integer,)):
        return int(i)
    if isinstance(i, slice):
        f = lambda x: None if x is None else _norm_index(x)
        return slice(f(i.start), f(i.stop), f(i.step))
    if isinstance(i, bool):
        raise Top("boolean index")
    return i


def to_at(x):
    if isinstance(x, AT):
        return x
    if isinstance(x, (int, float, Fraction, Poly, Sym, SymDim, np.integer, np.floating)):
        return AT((), _box(lift(x)))
    if isinstance(x, (list, tuple)):
        items = [to_at(i) for i in x]
        if not items:
            return AT((0,), np.empty((0,), dtype=object))
        return jnp_stack(items, 0)
    if isinstance(x, range):
        return to_at(list(x))
    raise Top(f"cannot convert {type(x).__name__} to a tensor")


def broadcast(a, b):
    n = max(len(a.axes), len(b.axes))
    ax_a = (None,) * (n - len(a.axes)) + a.axes
    ax_b = (None,) * (n - len(b.axes)) + b.axes
    axes = []
    sa, sb = [], []
    for x, y in zip(ax_a, ax_b):
        if isinstance(x, str) or isinstance(y, str):
            if isinstance(x, str) and isinstance(y, str) and x != y:
                raise Finding(f"named axes do not line up in a broadcast: {x} vs {y}")
            if (isinstance(x, int) and x != 1) or (isinstance(y, int) and y != 1):
                raise Finding(f"concrete axis of size {x if isinstance(x, int) else y} broadcast against row axis "
                              f"{x if isinstance(x, str) else y}")
            axes.append(x if isinstance(x, str) else y)
            sa.append('drop' if isinstance(x, int) else None)
            sb.append('drop' if isinstance(y, int) else None)
        else:
            if x is None:
                axes.append(y); sa.append('new'); sb.append('keep')
            elif y is None:
                axes.append(x); sa.append('keep'); sb.append('new')
            else:
                if x != y and 1 not in (x, y):
                    raise Finding(f"shape mismatch in a broadcast: {x} vs {y}")
                axes.append(x if y == 1 else y); sa.append('keep'); sb.append('keep')      # 0 against 1 gives 0, like numpy

    def reshape(t, ax_t, spec):
        data = t.data
        shape = []
        for x, sp in zip(ax_t, spec):
            if x is None:
                if sp == 'new':
                    shape.append(1)
                continue
            if isinstance(x, str):
                continue
            if sp == 'drop':
                data = np.take(data, 0, axis=len(shape))
                if not isinstance(data, np.ndarray):
                    data = _box(data)
            else:
                shape.append(x)
        return data.reshape(tuple(shape)) if data.shape != tuple(shape) else data

    return tuple(axes), reshape(a, ax_a, sa), reshape(b, ax_b, sb)


# ======================================================================================
# jnp primitives
# ======================================================================================
def _dim(v):
    if isinstance(v, Poly):
        return int(v)
    if isinstance(v, AT) and v.axes == ():
        return int(v.data[()])
    if isinstance(v, (np.integer,)):
        return int(v)
    return v


def jnp_array(x, dtype=None):
    return to_at(x)


def jnp_stack(items, axis=0):
    items = [to_at(i) for i in items]
    if not items:
        raise Top("stack of nothing")
    ax0 = items[0].axes
    for it in items:
        if it.axes != ax0:
            # allow stacking scalars broadcast? no: jnp.stack requires equal shapes
            raise Finding(f"stack of tensors with different axes {it.axes} vs {ax0}")
    k = _dim(axis) % (len(ax0) + 1)
    ck = sum(1 for a in ax0[:k] if isinstance(a, int))
    data = np.stack([it.data for it in items], axis=ck)
    return AT(ax0[:k] + (len(items),) + ax0[k:], data)


def jnp_concatenate(items, axis=0):
    items = [to_at(i) for i in items]
    if not items:
        raise Top("concatenate of nothing")
    nd = len(items[0].axes)
    if nd == 0:
        raise Finding("concatenate of 0-d tensors")
    k = _dim(axis) % nd
    for it in items:
        if len(it.axes) != nd:
            raise Finding(f"concatenate of tensors with different ranks {[i.axes for i in items]}")
    items = _unify_product_axes(items, k)
    for it in items:
        if it.axes[:k] + it.axes[k + 1:] != items[0].axes[:k] + items[0].axes[k + 1:]:
            raise Finding(f"concatenate: other axes differ {[i.axes for i in items]}")
    ck = items[0].cidx(k)
    if ck is None:
        # concatenation along a symbolic axis: only structured product axes are understood
        return _concat_symbolic(items, k)
    for it in items:
        if it.cidx(k) is None:
            raise Finding(f"concatenate of concrete and symbolic axes {[i.axes for i in items]}")
    data = np.concatenate([it.data for it in items], axis=ck)
    ax = list(items[0].axes)
    ax[k] = data.shape[ck]
    return AT(ax, data)


import re as _re
_REP = _re.compile(r"^(Rep|Tile)\((.+),(.+)\)$")


def _split2(inner):
    """split 'A,B' at the top-level comma"""
    depth = 0
    for i, ch in enumerate(inner):
        if ch == '(':
            depth += 1
        elif ch == ')':
            depth -= 1
        elif ch == ',' and depth == 0:
            return inner[:i], inner[i + 1:]
    return None


def _parse_rep(name):
    if not isinstance(name, str):
        return None
    for kind in ("Rep", "Tile"):
        if name.startswith(kind + "(") and name.endswith(")"):
            sp = _split2(name[len(kind) + 1:-1])
            if sp:
                return kind, sp[0], sp[1]
    return None


def _unify_product_axes(items, k):
    """rows built as repeat(A, |B|) and tile(B, |A|) enumerate the cartesian product A x B, A-major: when such row
    axes face each other in a concatenation they are renamed to the common axis Prod(A,B)"""
    nd = len(items[0].axes)
    out = list(items)
    for pos in range(nd):
        if pos == k:
            continue
        names = [it.axes[pos] for it in out]
        parsed = [_parse_rep(n) for n in names]
        if len(set(names)) <= 1 or any(p is None for p in parsed):
            continue
        reps = [p for p in parsed if p[0] == 'Rep']
        tiles = [p for p in parsed if p[0] == 'Tile']
        if not reps or not tiles:
            continue
        A, nB = reps[0][1], reps[0][2]
        ok = all(p == ('Rep', A, nB) for p in reps) and all(p == ('Tile', nB, A) for p in tiles)
        if not ok:
            continue
        prod = f"Prod({A},{nB})"
        new = []
        for it in out:
            ax = list(it.axes)
            ax[pos] = prod
            new.append(AT(ax, it.data))
        out = new
    return out


def _concat_symbolic(items, k):
    raise Top(f"concatenate along symbolic axis {[i.axes for i in items]}")


def jnp_column_stack(items):
    items = [to_at(i) for i in items]
    items = [jnp_expand_dims(i, 1) if len(i.axes) == 1 else (jnp_expand_dims(jnp_expand_dims(i, 0), 1) if len(i.axes) == 0 else i) for i in items]
    return jnp_concatenate(items, 1)


def jnp_vstack(items):
    items = [jnp_atleast_2d(to_at(i)) for i in items]
    return jnp_concatenate(items, 0)


def jnp_hstack(items):
    items = [jnp_atleast_1d(to_at(i)) for i in items]     # numpy semantics: atleast_1d first
    if len(items[0].axes) == 1:
        return jnp_concatenate(items, 0)
    return jnp_concatenate(items, 1)


def _only_immaterial(name, kw, allowed=()):
    """keywords that change the result must not be silently ignored by a model: anything but dtype-like keywords is outside the
    vocabulary (inconclusive), never dropped"""
    extra = [k_ for k_, v_ in kw.items() if k_ not in allowed and k_ not in ('dtype', 'out', 'precision', 'promote_integers') and v_ is not None]
    if extra:
        raise Top(f"{name} with keyword(s) {sorted(extra)}")


def _reduce_kd(a, axis, kind, keepdims=False, **kw):
    _only_immaterial(kind.lower(), kw)               # where= / initial= change the value
    r = _reduce(a, axis, kind)
    if keepdims:
        a = to_at(a)
        nd = len(a.axes)
        for k in sorted({x % nd for x in _axes_list(axis, nd)}):
            r = jnp_expand_dims(r, k)
    return r


def jnp_sum(a, axis=None, **kw): return _reduce_kd(a, axis, 'Sum', **kw)
def jnp_mean(a, axis=None, **kw): return _reduce_kd(a, axis, 'Mean', **kw)


def _axes_list(axis, nd):
    if axis is None:
        return list(range(nd))
    if isinstance(axis, (int, Poly, np.integer)):
        return [_dim(axis)]
    return [_dim(x) for x in axis]


def _reduce(a, axis, kind):
    a = to_at(a)
    nd = len(a.axes)
    axes = _axes_list(axis, nd)
    for x in axes:
        if not -nd <= x < nd:
            raise Finding(f"reduction axis {x} out of range for axes {a.axes}")
    axes = sorted({x % nd for x in axes}, reverse=True) if nd else []
    for k in axes:
        ax = a.axes[k]
        if isinstance(ax, int):
            ck = a.cidx(k)
            if ax == 0:
                if kind != 'Sum':
                    raise Top("mean over an empty axis")
                rest = tuple(n for i, n in enumerate(a.data.shape) if i != ck)
                data = np.empty(rest, dtype=object)
                for i in np.ndindex(rest):
                    data[i] = Poly()                       # the empty sum
                a = AT(a.axes[:k] + a.axes[k + 1:], data)
                continue
            data = np.sum(a.data, axis=ck)
            if not isinstance(data, np.ndarray):
                data = _box(data)
            if kind == 'Mean':
                out = np.empty(data.shape, dtype=object)
                for i in np.ndindex(data.shape):
                    out[i] = data[i] * Poly.const(Fraction(1, ax))
                data = out
            a = AT(a.axes[:k] + a.axes[k + 1:], data)
        else:
            a = AT(a.axes[:k] + a.axes[k + 1:], a.data).map(lambda p, ax=ax: bind(kind, ax, p))
    return a


def bind(kind, ax, p):
    """linear binder over the symbolic axis `ax`, factoring out what does not depend on it.
    One normal form: a mean over a named axis is the sum over it divided by its extent (so that `mean(x)` and `sum(x) / n`,
    n = x.shape[0], are the same polynomial)"""
    if ax in UNIT_AXES:
        return p                    # a single row: its sum and its mean are the row itself
    if kind == 'Mean':
        return bind('Sum', ax, p) * (SymDim(ax).poly() ** -1)
    res = Poly()
    for k, v in p.t.items():
        ind = tuple((a, e) for a, e in k if ax not in atom_deps(a))
        dep = tuple((a, e) for a, e in k if ax in atom_deps(a))
        if not dep:
            if kind == 'Sum':
                res = res + Poly({ind: v}) * SymDim(ax).poly()
            else:
                res = res + Poly({ind: v})
        else:
            axes = (ax,)
            if len(dep) == 1 and dep[0][1] == 1 and dep[0][0][0] == kind:
                # nested binder of the same kind: Mean[a](Mean[b](p)) = Mean[a,b](p)
                axes = tuple(sorted(set(dep[0][0][1]) | {ax}))
                inner = dep[0][0][2]
            else:
                inner = Poly({dep: Fraction(1)})
            res = res + Poly({ind: v}) * Poly.atom((kind, axes, inner))
    return res


def fold_means(p):
    """presentation / comparison form: |A|^-1 ... * Sum[A, ...](q) is written Mean[A, ...](q) (recursively); the inverse of the
    normal form of `bind`"""
    res = Poly()
    for k, v in p.t.items():
        exps = {a: e for a, e in k}
        sums = sorted((a for a in exps if a[0] == 'Sum' and exps[a] >= 1), key=_key)
        mon = Poly.const(v)
        for a in sums:
            e = exps[a]
            ks = [('K', ax) for ax in a[1]]
            inner_src = a[2]
            # extents that `bind` factored out of an inner sum (Mean[t]((Mean[x] u)^2) is stored as |x|^-2 |t|^-1 Sum[t](Sum[x](u)^2))
            # are moved back inside when every monomial of the inner polynomial wants the same ones
            if e == 1:
                wants = []
                for k2 in inner_src.t:
                    ex2 = {b: f_ for b, f_ in k2}
                    w_ = {}
                    for b, f_ in ex2.items():
                        if b[0] == 'Sum' and f_ >= 1:
                            for ax in b[1]:
                                w_[('K', ax)] = w_.get(('K', ax), 0) + f_
                    for kb in list(w_):
                        w_[kb] += min(0, ex2.get(kb, 0))
                        if w_[kb] <= 0:
                            del w_[kb]
                    wants.append(w_)
                if wants and wants[0] and all(w_ == wants[0] for w_ in wants) and \
                        all(exps.get(kb, 0) <= -n_ - (1 if kb in ks else 0) for kb, n_ in wants[0].items()):
                    fac = Poly.const(1)
                    for kb, n_ in wants[0].items():
                        exps[kb] += n_
                        fac = fac * Poly.atom(kb) ** (-n_)
                    inner_src = inner_src * fac
            inner = fold_means(inner_src)
            if all(exps.get(ka, 0) <= -e for ka in ks):
                for ka in ks:
                    exps[ka] += e
                mon = mon * Poly.atom(('Mean', a[1], inner)) ** e
            else:
                mon = mon * Poly.atom(('Sum', a[1], inner)) ** e
            del exps[a]
        for a, e in exps.items():
            if e == 0:
                continue
            if a[0] in ('Abs', 'Inv', 'Sqrt'):
                a = (a[0], fold_means(a[1]))
            b = Poly.atom(a)
            mon = mon * (b ** e if e > 0 else Poly.const(1) / (b ** (-e)))
        res = res + mon
    return res


def jnp_trace(a, offset=0, axis1=0, axis2=1):
    a = to_at(a)
    if len(a.axes) != 2 or not all(isinstance(x, int) for x in a.axes):
        raise Top("trace of a non-matrix")
    if not isinstance(offset, int) or (axis1, axis2) not in ((0, 1), (1, 0), (-2, -1), (-1, -2)):
        raise Top("trace with a symbolic offset / unusual axes")
    if (axis1, axis2) in ((1, 0), (-1, -2)):
        offset = -offset
    r, c = a.axes
    tot = Poly()
    for i in range(r):
        j = i + offset
        if 0 <= j < c:
            tot = tot + a.data[i, j]
    return AT((), _box(tot))


def jnp_abs(a):
    return to_at(a).map(lambda p: p if p.is_const() and p.cval() >= 0 else Poly.atom(('Abs', p)))


def jnp_log(a):
    def f(p):
        at = p.single_atom()
        if at is not None:
            return Poly.atom(('Log', at))
        raise Top("log of a non-atom")
    return to_at(a).map(f)


def jnp_exp(a):
    raise Top("exp")


def jnp_squeeze(a, axis=None):
    a = to_at(a)
    nd = len(a.axes)
    if axis is not None:
        axs = {x % nd for x in _axes_list(axis, nd)}
        for x in axs:
            if a.axes[x] != 1 and a.axes[x] not in UNIT_AXES:
                raise Finding(f"squeeze of axis {x} whose size is {a.axes[x]}")
    else:
        axs = None
    keep = [i for i, x in enumerate(a.axes) if not ((x == 1 or x in UNIT_AXES) and (axs is None or i in axs))]
    ax = tuple(a.axes[i] for i in keep)
    return AT(ax, a.data.reshape(tuple(x for x in ax if isinstance(x, int))))


def jnp_expand_dims(a, axis):
    a = to_at(a)
    if isinstance(axis, (tuple, list)):
        nd = len(a.axes) + len(axis)
        for k in sorted(_dim(x) % nd for x in axis):
            a = jnp_expand_dims(a, k)
        return a
    k = _dim(axis) % (len(a.axes) + 1)
    ax = a.axes[:k] + (1,) + a.axes[k:]
    return AT(ax, a.data.reshape(tuple(x for x in ax if isinstance(x, int))))


def jnp_diagonal(a, offset=0, axis1=0, axis2=1):
    a = to_at(a)
    if len(a.axes) != 2 or not all(isinstance(x, int) for x in a.axes) or offset != 0 or (axis1, axis2) not in ((0, 1), (-2, -1)):
        raise Top("diagonal of a non-matrix / with offset")
    n = min(a.axes)
    return AT((n,), np.array([a.data[i, i] for i in range(n)], dtype=object))


def jnp_broadcast_to(a, shape):
    """numpy broadcasting of `a` to `shape` (entries: ints, extents of named axes, symbolic counts)"""
    a = to_at(a)
    tgt = list(shape_axes(shape))
    while len(a.axes) < len(tgt):
        a = jnp_expand_dims(a, 0)
    if len(a.axes) != len(tgt):
        raise Finding(f"cannot broadcast a tensor with axes {a.axes} to shape {tuple(tgt)}")
    axes, data = list(a.axes), a.data
    for k, (src, t) in enumerate(zip(a.axes, tgt)):
        if src == t:
            continue
        if src != 1:
            raise Finding(f"cannot broadcast axis {k} of extent {src} to {t}")
        ck = AT(axes, data).cidx(k)
        if isinstance(t, int):
            data = np.repeat(data, t, axis=ck)
            axes[k] = t
        else:
            data = np.take(data, 0, axis=ck)      # constant along the new named axis
            axes[k] = t
    return AT(tuple(axes), data)


def jnp_broadcast_arrays(*arrays):
    """every array broadcast to the common shape (numpy semantics, named axes must line up)"""
    ats = [to_at(a) for a in arrays]
    if not ats:
        return []
    axes = ats[0].axes
    for b in ats[1:]:
        axes, _, _ = broadcast(AT(axes, np.broadcast_to(np.array(Poly(), dtype=object), tuple(x for x in axes if isinstance(x, int))).copy()), b)
    shape = tuple(SymDim(x) if isinstance(x, str) else x for x in axes)
    return [jnp_broadcast_to(a, shape) for a in ats]


def jnp_atleast_2d(a):
    a = to_at(a)
    if len(a.axes) == 0:
        return jnp_expand_dims(jnp_expand_dims(a, 0), 0)
    if len(a.axes) == 1:
        return jnp_expand_dims(a, 0)
    return a


def jnp_atleast_1d(a):
    a = to_at(a)
    return jnp_expand_dims(a, 0) if a.axes == () else a


def jnp_reshape(a, shape):
    """reshape restricted to what leaves the row structure recognisable: concrete tensors, and
    insertion / removal of unit axes next to symbolic ones"""
    a = to_at(a)
    if isinstance(shape, (int, Poly, SymDim)):
        shape = (shape,)
    shape = tuple(shape)
    if all(isinstance(x, int) for x in a.axes):
        tgt = [(_dim(s) if not isinstance(s, SymDim) else s) for s in shape]
        if any(isinstance(s, SymDim) for s in tgt):
            raise Top("reshape of a concrete tensor to a symbolic extent")
        try:
            data = a.data.reshape(tuple(tgt))
        except ValueError:
            raise Finding(f"cannot reshape a tensor with axes {a.axes} to {tuple(tgt)} (different number of elements)")
        return AT(data.shape, data)
    # symbolic source: match axes ignoring unit axes
    src = [x for x in a.axes if x != 1]
    tgt = []
    for s in shape:
        s = _as_count(s)
        if isinstance(s, SymDim):
            tgt.append(s.name)
        else:
            tgt.append(s)
    def merge_adjacent(tgt):
        """two adjacent named axes (A, C) merged into one axis of extent |A| * |C| (A major): a repetition of the rows of A when
        the tensor is constant along C (broadcast_to + reshape == repeat), a tiling when it is constant along A, a product
        otherwise"""
        core_t = [x for x in tgt if x != 1]
        if len(core_t) != len(src) - 1:
            return None
        for k in range(len(src) - 1):
            A, C = src[k], src[k + 1]
            if isinstance(A, str) and isinstance(C, str) and k < len(core_t) and isinstance(core_t[k], str) \
                    and core_t[:k] == src[:k] and core_t[k + 1:] == src[k + 2:] \
                    and axis_extent(core_t[k]) == axis_extent(A) * axis_extent(C):
                deps = a.deps()
                if C not in deps:
                    merged = f"Rep({A},{C})"
                elif A not in deps:
                    merged = f"Tile({C},{A})"
                else:
                    merged = f"Prod({A},{C})"
                new_axes = [merged if x == core_t[k] and i_ == tgt.index(core_t[k]) else x for i_, x in enumerate(tgt)]
                return AT(tuple(new_axes), a.data.reshape(tuple(x for x in new_axes if isinstance(x, int))))
        return None
    r_ = merge_adjacent(tgt)
    if r_ is not None:
        return r_
    if -1 in tgt:
        if tgt == [-1]:
            if len(src) == 1:
                tgt = list(src)
            elif len(src) == 2 and all(isinstance(x, str) for x in src):
                return AT((f"Prod({src[0]},{src[1]})",), a.data.reshape(()))
            elif len(src) == 2 and isinstance(src[0], str) and isinstance(src[1], int):
                raise Top(f"flatten of rows x columns {a.axes}")
            else:
                raise Top(f"flatten of symbolic tensor {a.axes}")
        elif tgt.count(-1) == 1 and len([x for x in src if not isinstance(x, int)]) == 2:
            # -1 standing for the product of two adjacent named axes: name it through the general merging rule below
            k = tgt.index(-1)
            named_pos = [i for i, x in enumerate(src) if not isinstance(x, int)]
            if named_pos[1] == named_pos[0] + 1:
                A, C = src[named_pos[0]], src[named_pos[1]]
                ext = axis_extent(A) * axis_extent(C)
                nm = str(ext)
                AXIS_EXTENT.setdefault(nm, ext)
                tgt = [nm if x == -1 else x for x in tgt]
                r_ = merge_adjacent(tgt)
                if r_ is not None:
                    return r_
                raise Top("reshape with -1 on a symbolic tensor")
            else:
                raise Top("reshape with -1 on a symbolic tensor")
        else:
            named = [x for x in src if not isinstance(x, int)]
            conc_src = [x for x in src if isinstance(x, int)]
            rest = [x for x in tgt if x != -1]
            import math
            if tgt.count(-1) == 1 and len(named) == 1 and all(isinstance(x, int) for x in rest) \
                    and math.prod(rest) == math.prod(conc_src) and (src.index(named[0]) == 0) == (tgt.index(-1) == 0 or all(x == 1 for x in tgt[:tgt.index(-1)])):
                tgt = [named[0] if x == -1 else x for x in tgt]
            else:
                raise Top("reshape with -1 on a symbolic tensor")
    core = [x for x in tgt if x != 1]
    # a product row axis Prod(A,B) (A major) reshapes to the two axes (A, B) and back
    if len(src) >= 1 and isinstance(src[0], str) and src[0].startswith("Prod(") and len(core) == len(src) + 1:
        sp = _split2(src[0][5:-1])
        if sp and list(core[:2]) == [sp[0], sp[1]] and core[2:] == src[1:]:
            return AT(tuple(tgt), a.data.reshape(tuple(x for x in tgt if isinstance(x, int))))
        if sp and list(core[:2]) == [sp[1], sp[0]]:
            raise Finding(f"reshape of a product row axis {src[0]} to ({core[0]}, {core[1]}): the major axis comes first")
    # a repeated / tiled row axis with a concrete count splits back into (rows, copies) resp. (copies, rows): the other order
    # interleaves the rows (element [i, f] of Tile(A, n) reshaped to (A, n) is row (i * n + f) mod |A|)
    if len(src) >= 1 and isinstance(src[0], str) and src[0].startswith(("Tile(", "Rep(")) and len(core) == len(src) + 1 \
            and core[2:] == src[1:]:
        kind = src[0][:src[0].index('(')]
        sp = _split2(src[0][len(kind) + 1:-1])
        if sp and sp[1].isdigit() and int(sp[1]) > 1:
            A, n = sp[0], int(sp[1])
            good = [A, n] if kind == 'Rep' else [n, A]
            if list(core[:2]) == good:
                base = AT((A,) + tuple(src[1:]), a.data)
                pos = tgt.index(n)
                out = jnp_expand_dims(base, 0 if kind == 'Tile' else 1)
                out = jnp_repeat(out, n, axis=0 if kind == 'Tile' else 1)
                return jnp_reshape(out, tuple(SymDim(x) if isinstance(x, str) else x for x in tgt)) if list(out.axes) != tgt else out
            if list(core[:2]) == good[::-1]:
                where = f"element [i, f] is row (i * {n} + f) mod |{A}|, not row i" if kind == 'Tile' else \
                    f"element [c, i] is row (c * |{A}| + i) // {n}, not row i"
                raise Finding(f"reshape of {src[0]} to ({core[0]}, {core[1]}) interleaves the rows ({where})")
    if core != src and -1 not in tgt:
        # the named axes keep their order and the concrete axes between them are regrouped run by run with the same number of
        # elements per run ((12, G0, G1) -> (4, 3, G0, G1)): a row-major reshape of the concrete part alone
        def runs(ax):
            out, cur = [], []
            for x in ax:
                if isinstance(x, int):
                    cur.append(x)
                else:
                    out.append(('c', cur)); out.append(('n', x)); cur = []
            out.append(('c', cur))
            return out
        import math
        ra, rt = runs(a.axes), runs(tgt)
        if len(ra) == len(rt) and all((x[0] == y[0]) and (x[1] == y[1] if x[0] == 'n' else math.prod(x[1]) == math.prod(y[1]))
                                      for x, y in zip(ra, rt)):
            return AT(tuple(tgt), a.data.reshape(tuple(x for x in tgt if isinstance(x, int))))
    if core != src:
        if [x for x in core if not isinstance(x, int)] == [x for x in src if not isinstance(x, int)]:
            import math
            if math.prod([x for x in core if isinstance(x, int)]) != math.prod([x for x in src if isinstance(x, int)]):
                raise Finding(f"cannot reshape a tensor with axes {a.axes} to {tuple(tgt)} (different number of elements)")
        raise Top(f"reshape of symbolic tensor {a.axes} to {tgt}")
    return AT(tuple(tgt), a.data.reshape(tuple(x for x in tgt if isinstance(x, int))))


AXIS_EXTENT = {}      # name of a count axis -> the polynomial it was named after
class _UnitAxes(set):
    """the declared single-row axes; counts how often one of them was met (a configuration that never meets one is the
    general configuration)"""
    hits = 0

    def __contains__(self, x):
        try:
            r = set.__contains__(self, x)
        except TypeError:
            return False
        if r:
            self.hits += 1
        return r


UNIT_AXES = _UnitAxes()     # named row axes that the current configuration declares to have exactly one row (see unit_axes)


class unit_axes:
    """configuration 'a batch of a single row': within the block the named axes have extent 1 - their sum / mean is the row,
    `squeeze()` without axis removes them, their extent compares equal to 1.  Everything else (row atoms, vmap) is unchanged: a
    formula that is right for every batch size is right for this one"""

    def __init__(self, *names):
        self.names = set(names)

    def __enter__(self):
        self.added = self.names - UNIT_AXES
        UNIT_AXES.update(self.added)
        # extents derived from the declared axes (|S| // |B|, |B| * |x|, ...) were computed for the general configuration
        import re as _re
        self.saved = dict(AXIS_EXTENT)
        for k in list(AXIS_EXTENT):
            if set(_re.findall(r"[A-Za-z_][A-Za-z_0-9]*", k)) & self.names:
                del AXIS_EXTENT[k]
        return self

    def __exit__(self, *exc):
        UNIT_AXES.difference_update(self.added)
        AXIS_EXTENT.clear()
        AXIS_EXTENT.update(self.saved)
        return False


def axis_extent(name):
    """extent of a named axis as a polynomial"""
    if name in UNIT_AXES:
        return Poly.const(1)
    return AXIS_EXTENT.get(name, Poly.atom(('K', name)))


def _as_count(r):
    """a repetition count: int, extent of a named axis, or a symbolic count n (-> extent of the axis named n)"""
    if isinstance(r, SymDim):
        return r
    if isinstance(r, AT) and r.axes == ():
        r = r.data[()]
    if isinstance(r, Sym):
        r = Poly.atom(('S', r))
    if isinstance(r, Poly) and not r.is_const():
        AXIS_EXTENT.setdefault(str(r), r)
        return SymDim(str(r))
    return _dim(r)


def jnp_repeat(a, repeats, axis=None, **kw):
    _only_immaterial('repeat', kw)                  # total_repeat_length pads / truncates
    a = to_at(a)
    if axis is None:
        raise Top("repeat without axis")
    k = _dim(axis) % len(a.axes)
    repeats = _as_count(repeats)
    if isinstance(repeats, SymDim):
        if isinstance(a.axes[k], str):
            return AT(a.axes[:k] + (f"Rep({a.axes[k]},{repeats.name})",) + a.axes[k + 1:], a.data)
        if a.axes[k] != 1:
            raise Top("symbolic repeat of a non-unit axis")
        ck = a.cidx(k)
        data = np.take(a.data, 0, axis=ck)
        return AT(a.axes[:k] + (repeats.name,) + a.axes[k + 1:], data)
    repeats = _dim(repeats)
    if not isinstance(repeats, int):
        raise Top(f"repeat count {repeats!r}")
    if repeats == 1:
        return a
    if isinstance(a.axes[k], str):
        return AT(a.axes[:k] + (f"Rep({a.axes[k]},{repeats})",) + a.axes[k + 1:], a.data)
    ck = a.cidx(k)
    return AT(a.axes[:k] + (a.axes[k] * repeats,) + a.axes[k + 1:], np.repeat(a.data, repeats, axis=ck))


def jnp_resize(a, shape):
    """numpy.resize: the flattened array repeated cyclically to the number of elements of `shape`, then reshaped"""
    a = to_at(a)
    if isinstance(shape, (int, Poly, SymDim)):
        shape = (shape,)
    shape = tuple(shape)
    if all(isinstance(x, int) for x in a.axes):
        tgt = tuple(_dim(s) for s in shape)
        if not all(isinstance(x, int) for x in tgt):
            raise Top("resize of a concrete tensor to a symbolic extent")
        data = np.resize(a.data, tgt)
        return AT(data.shape, data)
    named = [x for x in a.axes if isinstance(x, str)]
    if len(named) != 1 or any(x != 1 for x in a.axes if isinstance(x, int)):
        raise Top(f"resize of a tensor with axes {a.axes}")
    A = named[0]
    flat = AT((A,), a.data.reshape(()))
    tn, n = [], 1
    for s in shape:
        s = _as_count(s)
        if isinstance(s, SymDim):
            tn.append(s.name)
        elif isinstance(s, int):
            n *= s
        else:
            raise Top(f"resize to {shape}")
    if tn != [A]:
        raise Top(f"resize of rows {A} to {shape}")
    return jnp_reshape(flat if n == 1 else jnp_tile(flat, n), shape)


def jnp_tile(a, reps):
    a = to_at(a)
    if isinstance(reps, (int, Poly, SymDim)):
        reps = (reps,)
    reps = tuple(reps)
    # numpy semantics: the shorter of (reps, shape) is padded with leading ones
    while len(reps) > len(a.axes):
        a = jnp_expand_dims(a, 0)
    if len(reps) < len(a.axes):
        reps = (1,) * (len(a.axes) - len(reps)) + reps
    axes = list(a.axes)
    data = a.data
    for k, r in enumerate(reps):
        r = _as_count(r)
        if isinstance(r, SymDim):
            if isinstance(axes[k], str):
                axes[k] = f"Tile({axes[k]},{r.name})"
            elif axes[k] == 1:
                # a single row tiled |A| times: A rows, all equal
                ck = AT(axes, data).cidx(k)
                data = np.take(data, 0, axis=ck)
                axes[k] = r.name
            else:
                raise Top("symbolic tile of a concrete axis")
            continue
        r = _dim(r)
        if r == 1:
            continue
        if isinstance(axes[k], str):
            axes[k] = f"Tile({axes[k]},{r})"
        else:
            ck = AT(axes, data).cidx(k)
            reps_c = [1] * data.ndim
            reps_c[ck] = r
            data = np.tile(data, reps_c)
            axes[k] = axes[k] * r
    return AT(axes, data)


def jnp_ones_like(a): return to_at(a).map(lambda p: Poly.const(1))
def jnp_zeros_like(a): return to_at(a).map(lambda p: Poly.const(0))


def _shape_tuple(shape):
    if isinstance(shape, (tuple, list)):
        return tuple(shape)
    return (shape,)


def _filled(shape, c):
    shape = _shape_tuple(shape)
    axes = shape_axes(shape)
    cs = tuple(x for x in axes if isinstance(x, int))
    d = np.empty(cs, dtype=object)
    for i in np.ndindex(cs):
        d[i] = Poly.const(c)
    return AT(tuple(axes), d)


def shape_axes(shape):
    """axes of a new tensor from a shape whose entries may be ints, extents of named axes or symbolic counts
    (a symbolic count n gives a fresh named axis called after it)"""
    axes = []
    for s in _shape_tuple(shape):
        if isinstance(s, SymDim):
            axes.append(s.name)
            continue
        if isinstance(s, AT) and s.axes == ():
            s = s.data[()]
        if isinstance(s, Sym):
            s = Poly.atom(('S', s))
        if isinstance(s, Poly) and not s.is_const():
            AXIS_EXTENT.setdefault(str(s), s)
            axes.append(str(s))
            continue
        axes.append(_dim(s))
    return tuple(axes)


def jnp_zeros(shape, dtype=None): return _filled(shape, 0)
def jnp_ones(shape, dtype=None): return _filled(shape, 1)


def jnp_arange(*args, **kw):
    def _d(a):
        try:
            return _dim(a)
        except Top:
            return a
    args = [_d(a) for a in args]
    if any(isinstance(a, SymDim) for a in args):
        raise Finding(f"arange over the extent of a row axis ({args}) used where a small literal extent is required")
    if not all(isinstance(a, int) for a in args):
        return Sym('arange', *[(a if not isinstance(a, Poly) else a) for a in args])
    vals = [int(i) for i in range(*args)]
    return AT((len(vals),), np.array([Poly.const(v) for v in vals] or [], dtype=object).reshape((len(vals),)))


def jnp_moveaxis(a, source, destination):
    a = to_at(a)
    n = len(a.axes)
    s, d = _dim(source) % n, _dim(destination) % n
    order = [i for i in range(n) if i != s]
    order.insert(d, s)
    conc = [i for i in range(n) if isinstance(a.axes[i], int)]
    corder = [conc.index(i) for i in order if isinstance(a.axes[i], int)]
    return AT(tuple(a.axes[i] for i in order), np.transpose(a.data, corder))


def jnp_transpose(a, axes=None):
    a = to_at(a)
    n = len(a.axes)
    perm = list(range(n))[::-1] if axes is None else [_dim(x) % n for x in axes]
    if sorted(perm) != list(range(n)):
        raise Finding(f"transpose axes {axes} are not a permutation of {n} axes")
    conc = [i for i in range(n) if isinstance(a.axes[i], int)]
    cperm = [conc.index(i) for i in perm if isinstance(a.axes[i], int)]
    return AT(tuple(a.axes[i] for i in perm), np.transpose(a.data, cperm) if cperm else a.data)


def jnp_diag(a):
    a = to_at(a)
    if len(a.axes) == 2 and all(isinstance(x, int) for x in a.axes):
        n = min(a.axes)
        return AT((n,), np.array([a.data[i, i] for i in range(n)], dtype=object))
    if len(a.axes) != 1 or not isinstance(a.axes[0], int):
        raise Top("diag")
    n = a.axes[0]
    d = np.empty((n, n), dtype=object)
    for i in range(n):
        for j in range(n):
            d[i, j] = a.data[i] if i == j else Poly.const(0)
    return AT((n, n), d)


def jnp_matmul(a, b):
    a, b = to_at(a), to_at(b)
    if not a.axes or not b.axes:
        raise Finding("matmul with a 0-d operand")
    if not all(isinstance(x, int) for x in a.axes + b.axes):
        # named (row / grid) axes of the left operand are carried through when the contraction itself is over concrete axes
        cb = 0 if len(b.axes) == 1 else len(b.axes) - 2
        if isinstance(a.axes[-1], int) and all(isinstance(x, int) for x in b.axes) and len(b.axes) <= 2:
            if a.axes[-1] != b.axes[cb]:
                raise Finding(f"matmul of incompatible shapes {a.axes} {b.axes}")
            r = np.dot(a.data, b.data)
            if not isinstance(r, np.ndarray):
                r = _box(r)
            return AT(a.axes[:-1] + tuple(x for i, x in enumerate(b.axes) if i != cb), r)
        raise Top("matmul of symbolic tensors")
    if a.axes[-1] != b.axes[0 if len(b.axes) == 1 else -2]:
        raise Finding(f"matmul of incompatible shapes {a.axes} {b.axes}")
    r = np.dot(a.data, b.data)
    if not isinstance(r, np.ndarray):
        r = _box(r)
    return AT(r.shape, r)


def jnp_dot(a, b):
    a, b = to_at(a), to_at(b)
    if len(a.axes) == 1 and len(b.axes) == 1:
        if a.axes != b.axes:
            raise Finding(f"dot of vectors of different lengths {a.axes} {b.axes}")
        if not isinstance(a.axes[0], int):
            raise Top("dot along a symbolic axis")
        return AT((), _box(sum((x * y for x, y in zip(a.data, b.data)), Poly())))
    if a.axes == () or b.axes == ():
        return a * b
    return jnp_matmul(a, b)


def one_hot(i, n, **kw):
    i, n = _dim(i), _dim(n)
    if isinstance(n, SymDim):
        raise Finding("one_hot over the extent of a row axis")
    return AT((n,), np.array([Poly.const(1 if k == i else 0) for k in range(n)], dtype=object))


GRID_NAMES = None   # set by meshgrid callers through context when time-first naming is wanted


def jnp_meshgrid(*vecs, indexing="xy"):
    """grid axes are named after the coordinate that varies along them (Gt, G0, G1, ...), so that the
    axis order can be compared with the network's grid convention (time first, then x0, x1, ...);
    vectors with a concrete axis keep a concrete grid axis"""
    vecs = [to_at(v) for v in vecs]
    names = []
    for k, v in enumerate(vecs):
        if len(v.axes) != 1:
            raise Top(f"meshgrid input with axes {v.axes}")
        if isinstance(v.axes[0], int):
            names.append(v.axes[0])
            continue
        a = v.data[()].single_atom()
        vk = var_key(a) if a is not None else None
        if vk == 'T':
            names.append("Gt")
        elif vk is not None:
            names.append(f"G{vk[1]}")
        else:
            names.append(f"M{k}")
    sym = [n for n in names if not isinstance(n, int)]
    if len(set(sym)) != len(sym):
        raise Finding(f"meshgrid over repeated coordinates {names}")
    order = list(range(len(vecs)))
    if indexing == "xy" and len(vecs) >= 2:
        order[0], order[1] = 1, 0
    elif indexing not in ("xy", "ij"):
        raise Top(f"meshgrid indexing {indexing!r}")
    out_axes = tuple(names[o] for o in order)
    cshape = tuple(a for a in out_axes if isinstance(a, int))
    cpos = {}      # input index -> position among concrete output axes
    ci = 0
    for o in order:
        if isinstance(names[o], int):
            cpos[o] = ci
            ci += 1
    outs = []
    for k, v in enumerate(vecs):
        dat = np.empty(cshape, dtype=object)
        if isinstance(names[k], int):
            for idx in np.ndindex(cshape):
                dat[idx] = v.data[idx[cpos[k]]]
        else:
            p = rename_dep(v.data[()], v.axes[0], names[k])
            for idx in np.ndindex(cshape):
                dat[idx] = p
        outs.append(AT(out_axes, dat))
    return outs


def rename_dep(p, src, dst):
    return p.map_atoms(lambda a: map_deps(a, lambda s: {dst if x == src else x for x in s}))


def jnp_where(c, a, b):
    raise Top("where")


def jnp_linalg_norm(a, axis=None, **kw):
    a = to_at(a)
    if axis is None:
        raise Top("norm without axis")
    s = jnp_sum(a * a, axis)
    return s.map(lambda p: Poly.atom(('Sqrt', p)))


# ---------------- AD ----------------
def vars_of(arg):
    arg = to_at(arg)
    vs = np.empty(arg.data.shape, dtype=object)
    for i in np.ndindex(arg.data.shape):
        a = arg.data[i].single_atom()
        vk = var_key(a) if a is not None else None
        if vk is None:
            raise Top(f"differentiation w.r.t. a non-canonical argument {arg.data[i]}")
        vs[i] = vk
    return arg.axes, vs


_AD_TAGS = [0]


def is_ad_tag(x):
    return isinstance(x, str) and x.startswith('#ad')


def _new_ad_tag():
    _AD_TAGS[0] += 1
    return f"#ad{_AD_TAGS[0]}"


def ad_tag_primal(x, tag):
    """the primal of one differentiation: its variable atoms carry the tag, so that what the differentiated function computes FROM
    ITS ARGUMENT can be told from what it merely captures from an enclosing scope (same coordinates, but constants for jax)"""
    return x.map(lambda p: p.map_atoms(lambda a: map_deps(a, lambda s_: s_ | {tag}) if a[0] in ('X', 'T') else a))


def ad_untag(v, tag):
    """remove the tag everywhere (atoms, binders, parameter fingerprints of network atoms, opaque terms)"""
    def ua(a):
        a = map_deps(a, lambda s_: s_ - {tag})
        if a[0] == 'U':
            a = a[:5] + (ad_untag(a[5], tag),) + a[6:]
        elif a[0] == 'S':
            a = ('S', ad_untag(a[1], tag))
        elif a[0] in ('FloorDiv', 'Mod'):
            a = (a[0], ad_untag(a[1], tag), ad_untag(a[2], tag))
        return a
    if isinstance(v, Poly):
        return v.map_atoms(ua) if tag in _deep_deps(v) else v
    if isinstance(v, AT):
        return v.map(lambda p: ad_untag(p, tag))
    if isinstance(v, Sym):
        return Sym(v.op, *[ad_untag(x, tag) for x in v.args])
    if isinstance(v, tuple) and not hasattr(v, '_fields'):
        return tuple(ad_untag(x, tag) for x in v)
    if isinstance(v, list):
        return [ad_untag(x, tag) for x in v]
    if isinstance(v, dict):
        return {k: ad_untag(x, tag) for k, x in v.items()}
    if isinstance(v, frozenset):
        return frozenset(x for x in v if x != tag)
    return v


def _deep_deps(p):
    """all dependency marks occurring anywhere in the polynomial (including fingerprints and opaque terms)"""
    out = set()

    def rec(x):
        if isinstance(x, Poly):
            for a in x.atoms():
                ra(a)
        elif isinstance(x, AT):
            for q in x.entries():
                rec(q)
        elif isinstance(x, Sym):
            for y in x.args:
                rec(y)
        elif isinstance(x, (tuple, list)):
            for y in x:
                rec(y)
        elif isinstance(x, dict):
            for y in x.values():
                rec(y)
        elif isinstance(x, (set, frozenset)):
            out.update(y for y in x if isinstance(y, str))

    def ra(a):
        out.update(d_ for d_ in atom_deps(a) if isinstance(d_, str))
        if a[0] == 'U':
            rec(a[5])
        elif a[0] == 'S':
            rec(a[1])
        elif a[0] in ('Mean', 'Sum'):
            rec(a[2])
        elif a[0] in ('Abs', 'Inv', 'Sqrt'):
            rec(a[1])
        elif a[0] == 'Log':
            ra(a[1])
        elif a[0] in ('FloorDiv', 'Mod'):
            rec(a[1]); rec(a[2])
    rec(p)
    return out


def _tagged_call(f, args, k):
    """evaluate f with its k-th argument tagged; returns (value, variables, axes, tag)"""
    if not isinstance(args[k], AT):
        raise Top(f"differentiation w.r.t. a non-tensor argument {type(args[k]).__name__}")
    axes, vs = vars_of(args[k])
    tag = _new_ad_tag()
    a2 = list(args)
    a2[k] = ad_tag_primal(args[k], tag)
    return f(*a2), vs, axes, tag


def _argnum(argnums):
    n = _dim(argnums)
    if not isinstance(n, int):
        raise Top(f"argnums {argnums!r}")
    return n


def _multi_argnums(maker, f, argnums, kw):
    """argnums given as a tuple / list: a tuple of results, one per argument"""
    subs = [maker(f, a, **kw) for a in argnums]
    return lambda *args: tuple(h(*args) for h in subs)


def jax_grad(f, argnums=0, **kw):
    _only_immaterial('grad', kw, allowed=('holomorphic', 'allow_int'))          # has_aux changes what is returned
    if isinstance(argnums, (tuple, list)):
        return _multi_argnums(jax_grad, f, argnums, kw)

    def g(*args):
        k = _argnum(argnums)
        if k >= len(args):
            raise Finding(f"grad argnums={k} but the function is applied to {len(args)} arguments")
        if not isinstance(args[k], AT):
            raise Top(f"grad w.r.t. a non-tensor argument {type(args[k]).__name__}")
        val, vs, axes, tag = _tagged_call(f, args, k)
        val = to_at(val)
        if val.axes != ():
            raise Finding(f"grad of a function whose value has axes {val.axes} (a scalar is required)")
        p = val.scalar()
        if not all(isinstance(a, int) for a in axes):
            raise Top("grad w.r.t. a batched argument")
        out = np.empty(vs.shape, dtype=object)
        for i in np.ndindex(vs.shape):
            out[i] = ad_untag(p.diff(vs[i], tag), tag)
        return AT(tuple(axes), out)
    return g


def jax_jac(f, argnums=0, **kw):
    _only_immaterial('jacobian', kw, allowed=('holomorphic', 'allow_int'))
    if isinstance(argnums, (tuple, list)):
        return _multi_argnums(jax_jac, f, argnums, kw)

    def g(*args):
        k = _argnum(argnums)
        val, vs, axes, tag = _tagged_call(f, args, k)
        val = to_at(val)
        if len(vs.shape) != 1:
            raise Top("jacobian w.r.t. a non-vector")
        cols = [val.map(lambda p, v=v: ad_untag(p.diff(v, tag), tag)) for v in vs]
        return jnp_stack(cols, axis=-1)
    return g


def jax_hessian(f, argnums=0, **kw):
    _only_immaterial('hessian', kw, allowed=('holomorphic',))
    def h(*args):
        k = _argnum(argnums)
        val, vs, axes, tag = _tagged_call(f, args, k)
        val = to_at(val)
        if val.axes != ():
            raise Finding(f"hessian of a function whose value has axes {val.axes}")
        p = val.scalar()
        if len(vs.shape) != 1:
            raise Top("hessian w.r.t. a non-vector")
        n = len(vs)
        d = np.empty((n, n), dtype=object)
        for i in range(n):
            for j in range(n):
                d[i, j] = ad_untag(p.diff(vs[i], tag).diff(vs[j], tag), tag)
        return AT((n, n), d)
    return h


def jax_jvp(f, primals, tangents, **kw):
    _only_immaterial('jvp', kw)
    if len(primals) != 1 or len(tangents) != 1:
        raise Top("jvp with several primals")
    x, v = to_at(primals[0]), to_at(tangents[0])
    axes, vs = vars_of(x)
    tag = _new_ad_tag()
    y = f(ad_tag_primal(x, tag))
    if v.axes != x.axes:
        if v.axes == () and any(a_[0] == 'S' for a_ in v.data[()].atoms()):
            raise Top(f"jvp with an opaque tangent {v.data[()]}")          # shape unknown: not a contradiction
        raise Finding(f"jvp tangent axes {v.axes} differ from primal axes {x.axes}")

    def d(p):
        r = Poly()
        for i in np.ndindex(vs.shape):
            if v.data[i].is_zero():
                continue
            r = r + v.data[i] * p.diff(vs[i], tag)
        return ad_untag(r, tag)

    def rec(o):
        if isinstance(o, tuple):
            return tuple(rec(z) for z in o)
        return to_at(o).map(d)

    def prim(o):
        if isinstance(o, tuple):
            return tuple(prim(z) for z in o)
        return ad_untag(to_at(o), tag)
    return prim(y), rec(y)


def lax_scan(f, init, xs, **kw):
    _only_immaterial('scan', kw, allowed=('unroll', '_split_transpose'))      # length / reverse change the iteration
    outs = []
    c = init
    if isinstance(xs, AT):
        xs = list(xs)
    for x in xs:
        c, o = f(c, x)
        outs.append(to_at(o))
    if not outs:
        raise Top("scan over an empty range")
    return c, jnp_stack(outs, 0)


def stop_gradient_value(v):
    """identity with a label: parameter atoms become sg-atoms, network labels get ('sg', label)"""
    if isinstance(v, AT):
        return v.map(lambda p: p.map_atoms(_sg_atom))
    if isinstance(v, Poly):
        return v.map_atoms(_sg_atom)
    if isinstance(v, (int, float, Fraction)):
        return v
    if isinstance(v, NNLabel):
        return NNLabel(v.name, True)
    if isinstance(v, dict):
        return {k: stop_gradient_value(x) for k, x in v.items()}
    if isinstance(v, (tuple, list)):
        return type(v)(stop_gradient_value(x) for x in v)
    if v is None:
        return None
    if hasattr(v, 'fields') and hasattr(v, 'cls'):
        return v.replace_fields({k: stop_gradient_value(x) for k, x in v.fields.items()})
    raise Top(f"stop_gradient of {type(v).__name__}")


def _sg_atom(a):
    if a[0] == 'P':
        return a[:4] + (True,)
    if a[0] in ('X', 'T') and any(is_ad_tag(d_) for d_ in atom_deps(a)):
        raise Finding("stop_gradient is applied to the variable of an enclosing differentiation: the derivative with respect to the "
                      "point is cut where the value depends on it")
    if a[0] == 'U':
        raise Top("stop_gradient applied to a network value")
    return a


class NNLabel:
    """the (opaque) network-parameter pytree of one network; sg = behind stop_gradient"""
    __slots__ = ("name", "sg")

    def __init__(self, name, sg=False):
        self.name, self.sg = name, sg

    def __eq__(self, o): return isinstance(o, NNLabel) and (self.name, self.sg) == (o.name, o.sg)
    def __hash__(self): return hash((self.name, self.sg))
    def __repr__(self): return ("sg:" if self.sg else "") + f"theta[{self.name}]"


# ======================================================================================
# helpers to build abstract inputs
# ======================================================================================
def pt(d, deps=()):
    return AT((d,), np.array([Poly.atom(('X', j, frozenset(deps))) for j in range(d)], dtype=object))


def tm(deps=()):
    return AT((1,), np.array([Poly.atom(('T', frozenset(deps)))], dtype=object))


def batch_x(d, name="B"):
    return AT((name, d), np.array([Poly.atom(('X', j, frozenset({name}))) for j in range(d)], dtype=object))


def batch_t(name="B"):
    return AT((name, 1), np.array([Poly.atom(('T', frozenset({name})))], dtype=object))


def K(name):
    return Poly.atom(('K', name))


def Pm(name, shape=(), deps=(), sg=False):
    d = np.empty(shape, dtype=object)
    for i in np.ndindex(shape):
        d[i] = Poly.atom(('P', name, tuple(i), frozenset(deps), sg))
    return AT(shape, d)


def Fv(name, shape=(), deps=()):
    d = np.empty(shape, dtype=object)
    for i in np.ndindex(shape):
        d[i] = Poly.atom(('F', name, (tuple(i) if i else None), frozenset(deps)))
    return AT(shape, d)


def strip_deps(p):
    return p.map_atoms(strip_deps_atom)
