"""Opaque tokens (loss, optimizer, generators, validation module) and helpers for the symbolic analysis of
jinns.solver._solve.solve, one iteration at a time."""
from __future__ import annotations

from .alg import Poly, AT, Sym, K, Pred, Top, Finding
from .extern import make_world, fz, term, OpaqueObj, WHILE_HOOK
from .pytree import OpaqueNode
from .interp import Inst

SOLVE = "jinns.solver._solve"
TERM_KEYS = ("dyn_loss", "initial_condition", "observations")


class LossToken(OpaqueNode):
    """opaque loss: loss(params, batch) -> (total, {term: value})"""
    _abstract_attrs = True

    def __init__(self, name="loss"):
        self._name = name

    def _sym(self):
        return Sym(self._name)

    def __call__(self, params, batch):
        a = (fz(params), fz(batch))
        return Sym('loss.total', self._name, *a), {k: Sym('loss.term', self._name, k, *a) for k in TERM_KEYS}

    def evaluate(self, params, batch):
        return self(params, batch)

    def __repr__(self):
        return f"<{self._name}>"

    def __eq__(self, o):
        return isinstance(o, LossToken) and o._name == self._name

    def __hash__(self):
        return hash(self._name)


class OptToken:
    _abstract_attrs = True

    def init(self, params):
        return Sym('opt.init', fz(params))

    def update(self, grads, state, params=None):
        a = (fz(grads), fz(state), fz(params))
        return Sym('opt.updates', *a), Sym('opt.state', *a)

    def __repr__(self):
        return "<optimizer>"

    def __hash__(self):
        return 1

    def __eq__(self, o):
        return isinstance(o, OptToken)


class GenToken(OpaqueNode):
    """opaque generator: get_batch() -> (advanced generator, batch)"""
    _abstract_attrs = True

    def __init__(self, name, make_batch, step=0, attrs=None):
        self._name, self._make_batch, self._step = name, make_batch, step
        self._attrs = dict(attrs or {})

    def __getattr__(self, k):
        if k.startswith('_'):
            raise AttributeError(k)
        if k in self._attrs:
            return self._attrs[k]
        raise AttributeError(k)

    def get_batch(self):
        return GenToken(self._name, self._make_batch, self._step + 1, self._attrs), self._make_batch(self._name, self._step)

    def __repr__(self):
        return f"<{self._name}+{self._step}>"

    def __eq__(self, o):
        return isinstance(o, GenToken) and (o._name, o._step) == (self._name, self._step)

    def __hash__(self):
        return hash((self._name, self._step))


class ValToken(OpaqueNode):
    """opaque validation module: validation(params) -> (module', stop, criterion, update_best)"""
    _abstract_attrs = True

    def __init__(self, name="val", step=0, call_every=None):
        self._name, self._step = name, step
        self.call_every = call_every if call_every is not None else K('call_every')

    def __call__(self, params):
        a = (self._name, self._step, fz(params))
        return ValToken(self._name, self._step + 1, self.call_every), Sym('val.stop', *a), Sym('val.crit', *a), Sym('val.best', *a)

    def __repr__(self):
        return f"<{self._name}+{self._step}>"

    def __eq__(self, o):
        return isinstance(o, ValToken) and (o._name, o._step) == (self._name, self._step)

    def __hash__(self):
        return hash((self._name, self._step))


def _fz_token(v):
    return v


class SolveEnv:
    def __init__(self, repo, overrides=None):
        self.w = make_world(repo, overrides=overrides)
        self.m = self.w.module(SOLVE)
        g = self.w.get
        self.Params = g("jinns.parameters._params", "Params")
        C = "jinns.utils._containers"
        self.OptimizationContainer = g(C, "OptimizationContainer")
        self.OptimizationExtraContainer = g(C, "OptimizationExtraContainer")
        self.DataGeneratorContainer = g(C, "DataGeneratorContainer")
        self.LossContainer = g(C, "LossContainer")
        self.StoredObjectContainer = g(C, "StoredObjectContainer")
        self.ODEBatch = g("jinns.data._Batchs", "ODEBatch")

    def params(self, tag):
        return self.Params.make(nn_params=Sym(f'theta{tag}'), eq_params={'a': Sym(f'a{tag}'), 'b': Sym(f'b{tag}')})

    def main_batch(self, name, step):
        return self.ODEBatch.make(temporal_batch=Sym('batch', name, step), param_batch_dict=None, obs_batch_dict=None)

    def data(self, name="data", rar=None):
        return GenToken(name, self.main_batch, attrs={'rar_parameters': rar})

    def param_data(self, name="param_data"):
        return GenToken(name, lambda n, s: {'nu': Sym('param_batch', n, s)}, attrs={'param_batch_size': K('bt')})

    def obs_data(self, name="obs_data"):
        return GenToken(name, lambda n, s: {'pinn_in': Sym('obs_in', n, s), 'val': Sym('obs_val', n, s), 'eq_params': {}},
                        attrs={'obs_batch_size': K('bt')})

    def with_while_hook(self, hook, fn):
        WHILE_HOOK[0] = hook
        try:
            return fn()
        finally:
            WHILE_HOOK[0] = None
