"""C04 - the boundary term enforces Dirichlet / outward-normal Neumann conditions per facet.

Formula inference on LossPDEStatio / LossPDENonStatio.evaluate -> boundary_condition_apply ->
_compute_boundary_loss -> boundary_{dirichlet,neumann}_{statio,nonstatio}, PINN and SPINN branches:
the boundary term must equal  sum_facets Mean[facet rows](w * sum_{c in dim} (D[u]_c - f)^2)  with D = identity
(Dirichlet) or the derivative along the OUTWARD unit normal of that facet (Neumann), facets ordered
xmin, xmax, ymin, ymax, for f returning a vector, a 0-d array or a python scalar, for a global condition and
for a per-facet dictionary (None entries skipped).
"""
from __future__ import annotations
import numpy as np

from ..alg import Poly, AT, to_at, Top, Finding, K, jnp_sum, jnp_stack, bind, jnp_meshgrid
from ..lossenv import LossEnv, SingleLoss, mean_over, user_fn
from ..report import Violation, Inconclusive
from ..specs import canon
from .C03 import scalar_of

SITE = {"statio_PDE": "jinns.loss._LossPDE:LossPDEStatio.evaluate->boundary_condition_apply",
        "nonstatio_PDE": "jinns.loss._LossPDE:LossPDENonStatio.evaluate->boundary_condition_apply"}
FACETS = {1: ["xmin", "xmax"], 2: ["xmin", "xmax", "ymin", "ymax"]}
# outward unit normals written from the geometry (facet k pins coordinate k//2 to its min (k even) / max (k odd))
def outward_normal(d, f):
    n = [0] * d
    n[f // 2] = -1 if f % 2 == 0 else 1
    return n


def keep_facet(x):
    return isinstance(x, str) and x.startswith("facet")


def facet_point(d, f, time, rows):
    tags = frozenset({f"facet{f}"} | ({rows} if rows else set()))
    x = AT((d,), np.array([Poly.atom(('X', j, tags)) for j in range(d)], dtype=object))
    t = AT((1,), np.array([Poly.atom(('T', tags))], dtype=object)) if time else None
    return t, x


def expected_facet(S, kind, cond, d, f, fun, comps, time, rows, w):
    """w * Mean[rows](sum_c (D[u]_c - f)^2) for one facet, from the definition"""
    u = S.u
    t, x = facet_point(d, f, time, rows if kind == 'PINN' else None)
    if kind == 'PINN':
        pts = (t, x) if time else (x,)
        uv = u(*pts, S.params)
        fv = fun(*pts)
        if cond == 'dirichlet':
            res = jnp_stack([uv[c] for c in comps], 0) - fv
        else:
            (c,) = comps
            n = outward_normal(d, f)
            dn = sum((uv.data[c].diff(('X', j)) * n[j] for j in range(d)), Poly())
            res = to_at(dn) - fv
            if res.axes == ():
                res = res[None]
        sq = jnp_sum(res * res, axis=-1).data[()]
        if rows:
            return w * bind('Mean', rows, sq) if not isinstance(w, AT) else None
        return w * sq
    # SPINN: evaluated on the grid spanned by the facet's rows
    tags = {f"facet{f}"}
    if rows is None:
        xb = AT((1, d), np.array([[Poly.atom(('X', j, frozenset(tags))) for j in range(d)]], dtype=object))
        tb = None
    else:
        xb = AT(("Bb", d), np.array([Poly.atom(('X', j, frozenset(tags | {"Bb"}))) for j in range(d)], dtype=object))
        tb = AT(("Bb", 1), np.array([Poly.atom(('T', frozenset(tags | {"Bb"})))], dtype=object)) if time else None
    cols = ([tb[..., 0]] if time else []) + [xb[..., j] for j in range(d)]
    grid = jnp_stack(jnp_meshgrid(*cols, indexing="ij"), axis=-1)
    pts = (tb, xb) if time else (xb,)
    uv = u(*pts, S.params)
    gpts = (grid[..., 0:1], grid[..., 1:]) if time else (grid,)
    fv = to_at(fun(*gpts))
    if fv.axes and all(not isinstance(a, int) for a in fv.axes) and len(fv.axes) == len(uv.axes) - 1:
        fv = fv[..., None]        # a grid-shaped value without component axis is one value per grid point
    if cond == 'dirichlet':
        res = jnp_stack([uv[..., c] for c in comps], -1) - fv
    else:
        n = outward_normal(d, f)
        res = jnp_stack([uv[..., c].map(lambda p: sum((p.diff(('X', j)) * n[j] for j in range(d)), Poly())) for c in comps], -1) - fv
    sq = jnp_sum(res * res, axis=-1)
    from ..alg import jnp_mean
    return w * jnp_mean(sq).data[()]


def run(chk):
    E = LossEnv(chk.repo)
    chk.files = E.w.files
    thorough = chk.full
    chk.rule("C04.R4", "boundary term == sum over facets of w * Mean[facet rows](sum_c (D[u]_c - f)^2), D = identity or the "
                       "outward normal derivative; facet order xmin, xmax, ymin, ymax; same value for every return kind of f",
             floor=16)
    chk.rule("C04.R5", "per-facet dictionaries apply each condition to its own facet only and skip None facets", floor=4)

    def evaluate(eq_type, kind, d, cond, m_u, dim, ret, per_facet=None):
        S = SingleLoss(E, eq_type, kind, d=d, m_u=m_u, terms=('bc',), bc=cond, bc_ret=ret, bc_dim=dim, per_facet=per_facet)
        total, terms = S.evaluate()
        return S, canon(scalar_of(terms['boundary_loss'], 'boundary_loss'), keep_deps=keep_facet)

    for eq_type in ('statio_PDE', 'nonstatio_PDE'):
        time = eq_type == 'nonstatio_PDE'
        for kind in ('PINN', 'SPINN'):
            for d in (1, 2):
                for cond in ('dirichlet', 'von neumann'):
                    variants = []
                    # for a SPINN 'scalar0d' is a grid-shaped value without the trailing component axis
                    rets = ('vector', 'scalar0d', 'pyscalar')
                    if cond == 'dirichlet':
                        variants += [(1, None, r) for r in rets]
                        variants += [(2, None, 'vector'), (2, 1, 'vector'), (2, -1, 'vector'), (3, -2, 'vector')]     # negative: counted from the last component
                        # a length-one array must behave like the scalar it holds, also when several components are selected
                        variants += [(2, None, 'len1'), (3, slice(0, 2), 'len1')]
                        if thorough:
                            variants += [(2, slice(1, 2), r) for r in rets] + [(3, slice(0, 2), 'vector')]
                    else:
                        variants += [(1, None, r) for r in rets]
                        variants += [(2, slice(1, 2), 'vector'), (2, -1, 'vector')]
                        if thorough:
                            variants += [(2, 0, 'vector'), (3, slice(2, 3), 'scalar0d')]
                    for m_u, dim, ret in variants:
                        cfg = {"loss": eq_type, "net": kind, "d": d, "condition": cond, "outputs": m_u, "dim": str(dim), "f_returns": ret}

                        def go(eq_type=eq_type, kind=kind, d=d, cond=cond, m_u=m_u, dim=dim, ret=ret, time=time):
                            S, found = evaluate(eq_type, kind, d, 'dirichlet' if cond == 'dirichlet' else cond, m_u, dim, ret)
                            fun = S.loss.fields['omega_boundary_fun']
                            comps = list(range(m_u))
                            if dim is not None:
                                comps = comps[dim] if isinstance(dim, slice) else [comps[dim]]
                            rows = None if (d == 1 and not time) else "Bb"
                            exp = Poly()
                            for f in range(2 * d):
                                exp = exp + expected_facet(S, kind, 'dirichlet' if cond == 'dirichlet' else 'neumann',
                                                           d, f, fun, comps, time, rows, S.w['boundary_loss'])
                            exp = canon(exp, keep_deps=keep_facet)
                            if found != exp:
                                raise Violation("boundary_loss", str(found), str(exp))
                            return f"boundary_loss = {found}"
                        chk.run("C04.R4", SITE[eq_type], cfg, go,
                                construct=f"boundary_loss[{cond},{kind},{'1D' if d == 1 else '2D'},{eq_type}]")

    # the weight is the one of the public `loss_weights` field at evaluation time
    from ..lossenv import replaced_weights_twin
    for eq_type in ('statio_PDE', 'nonstatio_PDE'):
        for kind in ('PINN', 'SPINN'):
            cfg = {"loss": eq_type, "net": kind, "d": 2, "condition": "dirichlet", "outputs": 2,
                   "loss_weights": "replaced after construction"}

            def go(eq_type=eq_type, kind=kind):
                return replaced_weights_twin(lambda: SingleLoss(E, eq_type, kind, d=2, m_u=2, terms=('bc',), bc='dirichlet'),
                                             'boundary_loss')
            chk.run("C04.R4", SITE[eq_type], cfg, go, construct="boundary_loss (weights replaced after construction)")

    from ..lossenv import replaced_field_twin
    for eq_type in ('statio_PDE', 'nonstatio_PDE'):
        for d, cond in ((2, 'von neumann'), (1, 'dirichlet')):
            cfg = {"loss": eq_type, "net": "PINN", "d": d, "condition": cond, "outputs": 1,
                   "loss_weights": "0 at construction, replaced afterwards"}

            def go(eq_type=eq_type, d=d, cond=cond):
                return replaced_field_twin(lambda: SingleLoss(E, eq_type, 'PINN', d=d, m_u=1, terms=('bc',), bc=cond, weight_value=0),
                                           lambda: SingleLoss(E, eq_type, 'PINN', d=d, m_u=1, terms=('bc',), bc=cond), 'loss_weights',
                                           term_keys=['boundary_loss'])
            chk.run("C04.R4", SITE[eq_type], cfg, go, construct="boundary_loss (weight 0 at construction, replaced afterwards)")

    # per-facet dictionaries
    for eq_type in ('statio_PDE', 'nonstatio_PDE'):
        time = eq_type == 'nonstatio_PDE'
        for d in (1, 2):
            names = FACETS[d]
            specs = []
            specs.append({k: 'dirichlet' for k in names})
            specs.append({k: ('dirichlet' if i % 2 == 0 else 'von neumann') for i, k in enumerate(names)})
            specs.append({k: (None if i == 0 else 'von neumann') for i, k in enumerate(names)})
            specs.append({k: None for k in names})     # no condition on any facet: the boundary term is zero
            if thorough:
                specs.append({k: (None if i != len(names) - 1 else 'dirichlet') for i, k in enumerate(names)})
                specs.append({k: ('von neumann' if i % 2 == 0 else 'dirichlet') for i, k in enumerate(names)})
            for kind in (('PINN', 'SPINN') if thorough else ('PINN',)):
                for spec, m_u, dim in [(sp, 1, None) for sp in specs] + [(specs[0], 2, 1), (specs[1], 3, 2), (specs[0], 2, -1)]:
                    cfg = {"loss": eq_type, "net": kind, "d": d, "per_facet": spec, "outputs": m_u, "dim": dim}

                    def go(eq_type=eq_type, kind=kind, d=d, spec=spec, time=time, names=names, m_u=m_u, dim=dim):
                        S, found = evaluate(eq_type, kind, d, None, m_u, dim, 'vector', per_facet=spec)
                        funs = S.loss.fields['omega_boundary_fun']
                        rows = None if (d == 1 and not time) else "Bb"
                        exp = Poly()
                        for f, k in enumerate(names):
                            if spec[k] is None:
                                continue
                            exp = exp + expected_facet(S, kind, 'dirichlet' if spec[k] == 'dirichlet' else 'neumann',
                                                       d, f, funs[k], [0 if dim is None else dim % m_u], time, rows, S.w['boundary_loss'])
                        exp = canon(exp, keep_deps=keep_facet)
                        if found != exp:
                            raise Violation("boundary_loss", str(found), str(exp))
                        return f"boundary_loss = {found}"
                    chk.run("C04.R5", SITE[eq_type], cfg, go, construct=f"per-facet boundary_loss[{kind},{'1D' if d == 1 else '2D'},{eq_type}]")
