"""C11 - forward-mode (separable, grid) and reverse-mode (pointwise) computations agree.

Twin comparison by formula inference: for the same opaque network the SPINN (forward-mode, grid) version of
 R1 the four differential operators, R2 the five built-in equations that have both branches,
 R4 the boundary / initial-condition / normalisation / dynamic loss terms
must yield, at every grid index, the polynomial the PINN (reverse-mode, pointwise) version yields at the
corresponding point, and (R3) the grid axes must be ordered time first, then x0, x1, ... (named grid axes:
a product of tensors whose named axes are permuted is a finding).
"""
from __future__ import annotations

from ..alg import Poly, AT, to_at, pt, tm, batch_x, batch_t, NNLabel, Top, Finding, K, Pm
from ..extern import make_world, Net
from ..lossenv import LossEnv, SingleLoss
from ..report import Violation, Inconclusive
from ..specs import canon, canon_at, fmt_list
from .C03 import scalar_of

OPS = "jinns.loss._operators"
DYN = "jinns.loss._DynamicLoss"


def grid_axes(d, has_t):
    return (("Gt",) if has_t else ()) + tuple(f"G{j}" for j in range(d))


def anon_axes(p):
    """rename every binder axis to '*' (the PINN means over rows, the SPINN over grid axes)"""
    from ..alg import fold_means

    def f(a):
        if a[0] in ('Mean', 'Sum'):
            return (a[0], ('*',) * 1, g(a[2]))
        if a[0] in ('Abs', 'Inv'):
            return (a[0], g(a[1]))
        return a

    def g(q):
        # atoms are replaced without re-normalising (a Mean atom must stay a Mean atom here)
        out = Poly()
        for k, v in q.t.items():
            mon = Poly.const(v)
            for a, e in k:
                b = Poly.atom(f(a))
                mon = mon * (b ** e if e > 0 else Poly.const(1) / (b ** (-e)))
            out = out + mon
        return out
    return g(fold_means(p))


def twin(rev, fwd, lead, trail, what):
    ar, er = canon_at(rev)
    af, ef = canon_at(fwd)
    exp_axes = tuple(lead) + tuple(ar) + tuple(trail) if False else None
    if er != ef:
        raise Violation(what, f"forward: {fmt_list(ef)}", f"reverse: {fmt_list(er)}")
    return af, ar


def run(chk):
    w = make_world(chk.repo)
    chk.files = w.files
    thorough = chk.full
    chk.rule("C11.R1", "forward (grid) and reverse (pointwise) operators compute the same polynomial; grid axes time-first", floor=6)
    chk.rule("C11.R2", "SPINN and PINN branches of the built-in equations compute the same residual polynomial", floor=5)
    chk.rule("C11.R4", "SPINN and PINN versions of the loss terms compute the same formula (means over grid axes vs rows)", floor=6)
    m = w.module(OPS)
    P = NNLabel('u')
    dims = (1, 2, 3) if chk.tier == 'quick' else (1, 2, 3, 4)
    for d in dims:
        for has_t in (False, True):
            et = 'nonstatio_PDE' if has_t else 'statio_PDE'
            cfg = {"d": d, "time": has_t}
            tp, xp = (tm() if has_t else None), pt(d)
            ts, xs = (batch_t() if has_t else None), batch_x(d)
            gax = grid_axes(d, has_t)
            pairs = [("_div_rev", "_div_fwd", d, (), ()), ("_laplacian_rev", "_laplacian_fwd", 1, (), ())]
            if d == 2:
                pairs.append(("_u_dot_nabla_times_u_rev", "_u_dot_nabla_times_u_fwd", 2, (), (2,)))
            for fr, ff, mu, lead, trail in pairs:
                def go(fr=fr, ff=ff, mu=mu, trail=trail):
                    up, us = Net('u', 'PINN', mu, et, d), Net('u', 'SPINN', mu, et, d)
                    r = m.env.get(fr)(tp, xp, up, P)
                    f = m.env.get(ff)(ts, xs, us, P)
                    af, ar = twin(r, f, (), trail, fr + " / " + ff)
                    if tuple(af) != gax + tuple(trail):
                        raise Violation("grid axes", str(af), str(gax + tuple(trail)))
                    return f"equal; forward axes {af}"
                chk.run("C11.R1", f"{OPS}:{fr}/{ff}", cfg, go, construct=f"{fr}/{ff}")

            def go_vl():
                up, us = Net('u', 'PINN', d, et, d), Net('u', 'SPINN', d, et, d)
                f_ = m.env.get("_vectorial_laplacian")
                r, f = f_(tp, xp, up, P), f_(ts, xs, us, P)
                af, ar = twin(r, f, (), (), "_vectorial_laplacian")
                if tuple(af) != (d,) + gax:
                    raise Violation("grid axes", str(af), str((d,) + gax))
                return f"equal; forward axes {af}"
            chk.run("C11.R1", f"{OPS}:_vectorial_laplacian (PINN/SPINN branches)", cfg, go_vl, construct="_vectorial_laplacian twins")
            # an explicit number of components different from the number of coordinates (fewer / more)
            for mm in ((d - 1, d + 1) if d >= 2 else (d + 1,)):
                def go_vl2(mm=mm):
                    up, us = Net('u', 'PINN', mm, et, d), Net('u', 'SPINN', mm, et, d)
                    f_ = m.env.get("_vectorial_laplacian")
                    r, f = f_(tp, xp, up, P, mm), f_(ts, xs, us, P, mm)
                    af, ar = twin(r, f, (), (), "_vectorial_laplacian")
                    if tuple(af) != (mm,) + gax:
                        raise Violation("grid axes", str(af), str((mm,) + gax))
                    return f"equal; forward axes {af}"
                chk.run("C11.R1", f"{OPS}:_vectorial_laplacian (PINN/SPINN branches)", dict(cfg, components=mm), go_vl2,
                        construct="_vectorial_laplacian twins, explicit component count")

    # R2 equations
    md = w.module(DYN)
    Params = w.get("jinns.parameters._params", "Params")
    ParamsDict = w.get("jinns.parameters._params", "ParamsDict")

    def params(eq):
        return Params.make(nn_params=NNLabel('u'), eq_params=eq)

    def eq_twin(name, mk, d, has_t, ncomp):
        def go():
            out = {}
            for kind in ('PINN', 'SPINN'):
                inst, args = mk(kind)
                out[kind] = inst.evaluate(*args)
            af, ar = twin(out['PINN'], out['SPINN'], (), (), name)
            if tuple(af) != grid_axes(d, has_t) + (ncomp,):
                raise Violation("grid axes", str(af), str(grid_axes(d, has_t) + (ncomp,)))
            return f"equal; SPINN axes {af}"
        chk.run("C11.R2", f"{DYN}:{name}.equation (PINN/SPINN branches)", {"equation": name, "d": d}, go, construct=f"{name} twins")

    def pts(kind, d, has_t):
        if kind == 'PINN':
            return ((tm(),) if has_t else ()) + (pt(d),)
        return ((batch_t(),) if has_t else ()) + (batch_x(d),)

    def mk_burgers(kind):
        return md.env.get("BurgerEquation").make(Tmax=K("Tmax"), eq_params_heterogeneity=None), \
            pts(kind, 1, True) + (Net('u', kind, 1, 'nonstatio_PDE', 1), params({"nu": Pm("nu")}))
    eq_twin("BurgerEquation", mk_burgers, 1, True, 1)
    for d in ((1, 2, 3) if thorough else (2,)):
        def mk_fisher(kind, d=d):
            return md.env.get("FisherKPP").make(Tmax=K("Tmax"), eq_params_heterogeneity=None), \
                pts(kind, d, True) + (Net('u', kind, 1, 'nonstatio_PDE', d), params({"D": Pm("D"), "r": Pm("r"), "g": Pm("g")}))
        eq_twin("FisherKPP", mk_fisher, d, True, 1)

    def mk_ou(kind):
        eq = {"alpha": Pm("alpha", (2,)), "mu": Pm("mu", (2,)), "sigma": Pm("sigma", (2,))}
        return md.env.get("OU_FPENonStatioLoss2D").make(Tmax=K("Tmax"), eq_params_heterogeneity=None), \
            pts(kind, 2, True) + (Net('u', kind, 1, 'nonstatio_PDE', 2), params(eq))
    eq_twin("OU_FPENonStatioLoss2D", mk_ou, 2, True, 1)

    def mk_mass(kind):
        ud = {"u": Net('u', kind, 2, 'statio_PDE', 2)}
        pd = ParamsDict.make(nn_params={"u": NNLabel('u')}, eq_params={})
        return md.env.get("MassConservation2DStatio").make(Tmax=K("Tmax"), eq_params_heterogeneity=None, nn_key="u"), \
            pts(kind, 2, False) + (ud, pd)
    eq_twin("MassConservation2DStatio", mk_mass, 2, False, 1)

    def mk_ns(kind):
        ud = {"u": Net('u', kind, 2, 'statio_PDE', 2), "p": Net('p', kind, 1, 'statio_PDE', 2)}
        pd = ParamsDict.make(nn_params={"u": NNLabel('u'), "p": NNLabel('p')}, eq_params={"rho": Pm("rho"), "nu": Pm("nu")})
        return md.env.get("NavierStokes2DStatio").make(Tmax=K("Tmax"), eq_params_heterogeneity=None, u_key="u", p_key="p"), \
            pts(kind, 2, False) + (ud, pd)
    eq_twin("NavierStokes2DStatio", mk_ns, 2, False, 2)

    # R4 loss terms
    E = LossEnv(chk.repo)
    chk.files.update(E.w.files)
    key_of = {'dyn': 'dyn_loss', 'ic': 'initial_condition', 'norm': 'norm_loss', 'bc': 'boundary_loss'}
    for eq_type, names in (('statio_PDE', ('dyn', 'norm', 'bc')), ('nonstatio_PDE', ('dyn', 'norm', 'bc', 'ic'))):
        for term in names:
            variants = [dict()]
            if term == 'bc':
                variants = [dict(bc='dirichlet'), dict(bc='von neumann'), dict(bc='dirichlet', m_u=2, bc_dim=slice(1, 2)),
                            dict(bc='dirichlet', m_u=3, bc_dim=slice(0, 2))]
                if thorough:
                    variants += [dict(bc='dirichlet', d=1), dict(bc='von neumann', d=1), dict(bc='von neumann', m_u=2, bc_dim=slice(1, 2))]
            if term in ('norm', 'dyn', 'ic'):
                variants += [dict(d=1), dict(d=3)]          # the grid of a separable network has one axis per coordinate
            for var in variants:
                cfg = {"loss": eq_type, "term": term, **{k: str(v) for k, v in var.items()}}

                def go(eq_type=eq_type, term=term, var=var):
                    vals = {}
                    for kind in ('PINN', 'SPINN'):
                        kw = dict(d=2, m_u=1, m_res=2 if term == 'dyn' else 1, terms=(term,))
                        kw.update(var)
                        S = SingleLoss(E, eq_type, kind, **kw)
                        total, terms = S.evaluate()
                        vals[kind] = anon_axes(canon(scalar_of(terms[key_of[term]], term)))
                    if vals['PINN'] != vals['SPINN']:
                        raise Violation(term, f"SPINN: {vals['SPINN']}", f"PINN: {vals['PINN']}")
                    return f"{term}: equal up to rows <-> grid axes"
                chk.run("C11.R4", f"jinns.loss._loss_utils ({term} term, PINN/SPINN branches)", cfg, go, construct=f"{term} term twins[{eq_type}]")
