"""Shared symbolic analysis of jinns.solver._rar (used by C16 and C17).

A refinement step is evaluated on generators with symbolic state (see genenv) and real loss objects with an opaque
user residual (see lossenv).  Candidate samplers are replaced by tensors of canonical points with one named row axis
per requested count, so that the residual of every candidate is an inferred formula; stores, probability masks,
keys and counters are uninterpreted terms.
"""
from __future__ import annotations
import numpy as np

from ..alg import Poly, AT, Sym, SymDim, K, Pred, lift, to_at, Top, Finding, jnp_sum, at_key
from ..extern import make_world, same, fz, merge_cond
from ..genenv import GenEnv
from ..interp import freeze, Inst
from ..lossenv import LossEnv, SingleLoss, SystemLoss
from ..report import Violation, Inconclusive

RAR = "jinns.solver._rar"
S_T, S_X, SEL_T, SEL_X = K('S_t'), K('S_x'), K('sel_t'), K('sel_x')


def stub_time(key, sample_size=None):
    n = sample_size
    ax = str(lift(n)) if n is not None else 'nt'
    return AT((ax,), np.array(Poly.atom(('T', frozenset({ax}))), dtype=object))


def make_stub_omega(d):
    def stub_omega(keys, sample_size=None):
        n = sample_size
        ax = str(lift(n)) if n is not None else 'n'
        return AT((ax, d), np.array([Poly.atom(('X', j, frozenset({ax}))) for j in range(d)], dtype=object))
    return stub_omega


class RarSetup:
    def __init__(self, repo, kind, d=2, m_res=2, system=False, real_samplers=False):
        self.w = make_world(repo)
        self.G = GenEnv(repo, self.w)
        self.E = LossEnv(repo, self.w)
        self.rar = self.w.module(RAR)
        self.kind, self.d = kind, d
        eq_type = {'ode': 'ODE', 'statio': 'statio_PDE', 'nonstatio': 'nonstatio_PDE'}[kind]
        self.eq_type = eq_type
        if system:
            self.S = SystemLoss(self.E, eq_type, 'PINN', d=d, terms=('dyn',), unknowns=('a',), equations=('e1', 'e2'))
            self.params = self.S.params
        else:
            # the non-stationary branch reshapes the residuals to (candidate times, candidate points): scalar residuals only
            self.S = SingleLoss(self.E, eq_type, 'PINN', d=d, m_u=1, m_res=(1 if kind == 'nonstatio' else m_res), terms=('dyn',))
            self.params = self.S.params
        self.loss = self.S.loss
        if kind == 'ode':
            data = self.G.ode(rar=True)
            stubs = {'sample_in_time_domain': stub_time}
            self.sizes = (S_T, SEL_T)
        elif kind == 'statio':
            data = self.G.statio(d, rar=True, border=False)
            stubs = {'sample_in_omega_domain': make_stub_omega(d)}
            self.sizes = (S_X, SEL_X)
        else:
            data = self.G.nonstatio(d, rar=True, border=False)
            stubs = {'sample_in_time_domain': stub_time, 'sample_in_omega_domain': make_stub_omega(d)}
            self.sizes = ((S_T, S_X), (SEL_T, SEL_X))
        self.data0 = data
        if real_samplers == 'checked':
            # the generator's own samplers are really called; their draws must lie in the generator's own domain (time interval /
            # box of this axis); the network then receives canonical points of the same counts
            from .C08 import expect_draw

            def wrap(name, stub):
                real = getattr(data, name)

                def w(*a, **k):
                    v = to_at(real(*a, **k))
                    if name == 'sample_in_time_domain':
                        for p_ in v.entries():
                            expect_draw(p_, K('tmin'), K('tmax'), "refinement candidate time")
                    else:
                        dd = v.axes[-1]
                        for j in range(dd):
                            for p_ in v[..., j].entries():
                                expect_draw(p_, K(f'min{j}'), K(f'max{j}'), f"refinement candidate coordinate {j}")
                    return stub(*a, **k)
                return w
            self.data = data.replace_fields({n: wrap(n, st) for n, st in stubs.items()})
            self.stub_names = set()
        else:
            self.data = data if real_samplers else data.replace_fields(stubs)
            self.stub_names = set() if real_samplers else set(stubs)

    def fn(self, name):
        return self.rar.env.get(name)

    def steps(self):
        return self.fn('_rar_step_init')(*self.sizes)

    def step_true(self, i=None):
        tr, fa = self.steps()
        return tr((self.loss, self.params, freeze(self.data), K('i') if i is None else i))

    def step_false(self, i=None):
        tr, fa = self.steps()
        return fa((self.loss, self.params, freeze(self.data), K('i') if i is None else i))

    # ---- reference residual scores
    def score_rows(self, pts, axes):
        """sum_c R_c^2 of the user's equation at the abstract candidate rows `pts`"""
        dyn = self.loss.fields['dynamic_loss']
        R = dyn.evaluate(*pts, self.loss.fields['u'], self.params)
        s = jnp_sum(to_at(R) * to_at(R), axis=-1)
        return AT(tuple(axes), np.array(s.data[()], dtype=object))


def unchanged_except(new, old, changed, what):
    for f, v in old.fields.items():
        if f in changed or callable(v):
            continue
        if not same(new.fields.get(f), v):
            raise Violation(f"{what}: field {f}", f"new.{f} = {str(new.fields.get(f))[:150]}", f"unchanged ({str(v)[:80]})")


def is_sym(v, op, n=None):
    return isinstance(v, Sym) and v.op == op and (n is None or len(v.args) == n)


def as_sym(v):
    """unwrap a polynomial that is a single opaque atom"""
    if isinstance(v, Poly):
        a = v.single_atom()
        if a is not None and a[0] == 'S':
            return a[1]
    if isinstance(v, AT) and v.axes == ():
        return as_sym(v.data[()])
    return v


def nonzero_value(v):
    """True if v is (a tensor of) provably non-zero polynomials"""
    if isinstance(v, tuple) and v and v[0] == 'AT':
        return all(nonzero_value(e) for e in v[2])
    if isinstance(v, (int, float)):
        return v != 0
    if isinstance(v, Sym):
        return True
    p = lift(v)
    return not p.is_zero()


def check_mask_activation(p_new, p_old, start, sel, J, what):
    """the probability mask after a step: fori_loop(0, J + 1, i -> write `sel` non-zero entries at start + i * sel,
    init = p_old with its first `start` entries set to a non-zero value); i.e. exactly the first start + (J + 1) * sel
    entries are active, which includes the slice written by this step"""
    p_new = as_sym(p_new)
    if not is_sym(p_new, 'fori_loop', 4):
        raise Inconclusive(f"{what}: activation idiom outside the rule's vocabulary: {str(p_new)[:200]}")
    lo, hi, body, init = p_new.args
    if lift(lo) != 0:
        raise Violation(f"{what}: activation range", f"slices {lo} .. {hi} - 1 are activated", f"slices 0 .. {lift(J)} (all steps so far)")
    if lift(hi) != lift(J) + 1:
        raise Violation(f"{what}: activation range", f"slices 0 .. ({hi}) - 1 are activated after step number {lift(J)} "
                        f"(the slice written by this step is number {lift(J)})", f"slices 0 .. {lift(J)}: upper bound {lift(J) + 1}")
    body = as_sym(body)
    if not is_sym(body, 'dynamic_update_slice', 3) or as_sym(body.args[0]) != Sym('$carry'):
        raise Inconclusive(f"{what}: activation body outside the rule's vocabulary: {str(body)[:200]}")
    val, off = body.args[1], body.args[2]
    exp_off = lift(start) + lift(sel) * Poly.atom(('S', Sym('$i')))
    if not (isinstance(off, tuple) and len(off) == 1 and lift(off[0]) == exp_off):
        raise Violation(f"{what}: activation offset", f"slice i is written at {off}", f"({exp_off},)")
    if not (isinstance(val, tuple) and val[0] == 'AT' and val[1] == (str(lift(sel)),)):
        raise Violation(f"{what}: activation length", f"{str(val)[:120]}", f"{lift(sel)} entries per slice")
    if not nonzero_value(val):
        raise Violation(f"{what}: activation value", str(val)[:120], "a non-zero probability")
    init = as_sym(init)
    if not is_sym(init, 'at_set', 3):
        raise Inconclusive(f"{what}: initial mask idiom outside the rule's vocabulary: {str(init)[:200]}")
    base, idx, v0 = init.args
    if not same(as_sym(base), as_sym(p_old)):
        raise Violation(f"{what}: mask base", str(base)[:120], str(p_old)[:120])
    if idx != ('slice', None, fz(lift(start)), None):
        raise Violation(f"{what}: initial points", f"entries {idx} are (re)set", f"the first {lift(start)} entries")
    if not nonzero_value(v0):
        raise Violation(f"{what}: initial probability", str(v0), "non-zero")
    return f"{what}: first {lift(start)} + ({lift(J)} + 1) * {lift(sel)} entries active"
