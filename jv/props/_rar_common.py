"""Shared symbolic analysis of jinns.solver._rar (used by C16 and C17).

A refinement step is evaluated on generators with symbolic state (see genenv) and real loss objects with an opaque
user residual (see lossenv).  Candidate samplers are replaced by tensors of canonical points with one named row axis
per requested count, so that the residual of every candidate is an inferred formula; stores, probability masks,
keys and counters are uninterpreted terms.
"""
from __future__ import annotations
import numpy as np
from fractions import Fraction

from ..alg import Poly, AT, Sym, SymDim, K, Pred, lift, to_at, Top, Finding, jnp_sum, at_key
from ..extern import make_world, same, fz, merge_cond
from ..genenv import GenEnv
from ..interp import freeze, Inst
from ..lossenv import LossEnv, SingleLoss, SystemLoss
from ..report import Violation, Inconclusive

RAR = "jinns.solver._rar"
S_T, S_X, SEL_T, SEL_X = K('S_t'), K('S_x'), K('sel_t'), K('sel_x')


def stub_time(key, sample_size=None):
    n = sample_size
    ax = str(lift(n)) if n is not None else 'nt'
    return AT((ax,), np.array(Poly.atom(('T', frozenset({ax}))), dtype=object))


def make_stub_omega(d):
    def stub_omega(keys, sample_size=None):
        n = sample_size
        ax = str(lift(n)) if n is not None else 'n'
        return AT((ax, d), np.array([Poly.atom(('X', j, frozenset({ax}))) for j in range(d)], dtype=object))
    return stub_omega


class RarSetup:
    def __init__(self, repo, kind, d=2, m_res=2, system=False, real_samplers=False, het=False):
        self.w = make_world(repo)
        self.G = GenEnv(repo, self.w)
        self.E = LossEnv(repo, self.w)
        self.rar = self.w.module(RAR)
        self.kind, self.d = kind, d
        eq_type = {'ode': 'ODE', 'statio': 'statio_PDE', 'nonstatio': 'nonstatio_PDE'}[kind]
        self.eq_type = eq_type
        if system:
            # (the non-stationary branch reshapes the residuals to (candidate times, candidate points): scalar residuals only)
            self.S = SystemLoss(self.E, eq_type, 'PINN', d=d, terms=('dyn',), unknowns=('a',), equations=('e1', 'e2'),
                                m_res=({'e1': 1, 'e2': 1} if kind == 'nonstatio' else None))
            self.params = self.S.params
        else:
            # the non-stationary branch reshapes the residuals to (candidate times, candidate points): scalar residuals only
            dyn = None
            if het:
                # the equation parameter nu is declared heterogeneous: the residual that ranks the candidates is the one of the
                # wrapped dynamic loss (nu replaced by the user function's value at the candidate)
                def het_nu(*a):
                    pts_ = [to_at(v) for v in a[:-2]]
                    deps = frozenset().union(*[p_.deps() for v in pts_ for p_ in v.entries()])
                    return to_at(Poly.atom(('F', 'het_nu', None, deps)))
                dyn = self.E.user_dynamic_loss(eq_type, (1 if kind == 'nonstatio' else m_res), heterogeneity={'nu': het_nu})
            self.S = SingleLoss(self.E, eq_type, 'PINN', d=d, m_u=1, m_res=(1 if kind == 'nonstatio' else m_res), terms=('dyn',), dyn=dyn)
            self.params = self.S.params
        self.loss = self.S.loss
        if kind == 'ode':
            data = self.G.ode(rar=True)
            stubs = {'sample_in_time_domain': stub_time}
            self.sizes = (S_T, SEL_T)
        elif kind == 'statio':
            data = self.G.statio(d, rar=True, border=False)
            stubs = {'sample_in_omega_domain': make_stub_omega(d)}
            self.sizes = (S_X, SEL_X)
        else:
            data = self.G.nonstatio(d, rar=True, border=False)
            stubs = {'sample_in_time_domain': stub_time, 'sample_in_omega_domain': make_stub_omega(d)}
            self.sizes = ((S_T, S_X), (SEL_T, SEL_X))
        self.data0 = data
        if real_samplers == 'checked':
            # the generator's own samplers are really called; their draws must lie in the generator's own domain (time interval /
            # box of this axis); the network then receives canonical points of the same counts
            from .C08 import expect_draw

            def wrap(name, stub):
                real = getattr(data, name)

                def w(*a, **k):
                    v = to_at(real(*a, **k))
                    if name == 'sample_in_time_domain':
                        for p_ in v.entries():
                            expect_draw(p_, K('tmin'), K('tmax'), "refinement candidate time")
                    else:
                        dd = v.axes[-1]
                        for j in range(dd):
                            for p_ in v[..., j].entries():
                                expect_draw(p_, K(f'min{j}'), K(f'max{j}'), f"refinement candidate coordinate {j}")
                    return stub(*a, **k)
                return w
            self.data = data.replace_fields({n: wrap(n, st) for n, st in stubs.items()})
            self.stub_names = set()
        else:
            self.data = data if real_samplers else data.replace_fields(stubs)
            self.stub_names = set() if real_samplers else set(stubs)

    def fn(self, name):
        return self.rar.env.get(name)

    def steps(self):
        return self.fn('_rar_step_init')(*self.sizes)

    def step_true(self, i=None):
        tr, fa = self.steps()
        return tr((self.loss, self.params, freeze(self.data), K('i') if i is None else i))

    def step_false(self, i=None):
        tr, fa = self.steps()
        return fa((self.loss, self.params, freeze(self.data), K('i') if i is None else i))

    # ---- reference residual scores
    def score_rows(self, pts, axes):
        """sum_c R_c^2 of the user's equation at the abstract candidate rows `pts`"""
        dyn = self.loss.fields['dynamic_loss']
        R = dyn.evaluate(*pts, self.loss.fields['u'], self.params)
        s = jnp_sum(to_at(R) * to_at(R), axis=-1)
        return AT(tuple(axes), np.array(s.data[()], dtype=object))


def unchanged_except(new, old, changed, what):
    for f, v in old.fields.items():
        if f in changed or callable(v):
            continue
        if not same(new.fields.get(f), v):
            raise Violation(f"{what}: field {f}", f"new.{f} = {str(new.fields.get(f))[:150]}", f"unchanged ({str(v)[:80]})")


def is_sym(v, op, n=None):
    return isinstance(v, Sym) and v.op == op and (n is None or len(v.args) == n)


def as_sym(v):
    """unwrap a polynomial that is a single opaque atom"""
    if isinstance(v, Poly):
        a = v.single_atom()
        if a is not None and a[0] == 'S':
            return a[1]
    if isinstance(v, AT) and v.axes == ():
        return as_sym(v.data[()])
    return v


def _elementwise_value(v):
    """the written value is itself a function of the entry index (a selection, a repetition, ...): not one value for the block"""
    v = as_sym(v)
    if isinstance(v, Sym):
        if v.op in ('cond', 'where', 'select', 'repeat', 'tile', 'concatenate', 'arange'):
            return True
        return any(_elementwise_value(a) for a in v.args if isinstance(a, (Sym, Poly, tuple)))
    if isinstance(v, Poly):
        return any(a[0] == 'S' and _elementwise_value(a[1]) for a in v.atoms())
    if isinstance(v, tuple):
        return any(_elementwise_value(a) for a in v if isinstance(a, (Sym, Poly, tuple)))
    return False


def nonzero_value(v):
    """True if v is (a tensor of) provably non-zero polynomials"""
    if isinstance(v, tuple) and v and v[0] == 'AT':
        return all(nonzero_value(e) for e in v[2])
    if isinstance(v, (int, float)):
        return v != 0
    if isinstance(v, Sym):
        return True
    p = lift(v)
    return not p.is_zero()


def _nonneg(q):
    """q >= 0 for all non-negative integer values of the count symbols (sufficient: no negative coefficient)"""
    q = lift(q)
    return all(v >= 0 for v in q.t.values()) and all(a[0] in ('K', 'S') for k in q.t for a, _ in k)


def _arange_atom(q):
    for a in lift(q).atoms():
        if a[0] == 'S' and isinstance(a[1], Sym) and a[1].op == 'arange':
            return a
    return None


def active_prefix(term, p_old, c_old, what):
    """the set of entries of the probability mask `term` that are non-zero, when it is a prefix [0, c): returns c.
    Interprets the ways a mask is written (slice assignment, dynamic_update_slice, a loop of contiguous block writes, an
    elementwise selection on the entry index) instead of recognising one spelling; p_old is active on [0, c_old)."""
    t = as_sym(term)
    if isinstance(t, Sym) and same(t, as_sym(p_old)):
        return lift(c_old)
    if is_sym(t, 'at_set', 3):
        base, idx, v = t.args
        c = active_prefix(base, p_old, c_old, what)
        if not (isinstance(idx, tuple) and idx and idx[0] == 'slice' and idx[3] is None):
            raise Inconclusive(f"{what}: mask assignment at {idx}")
        lo = Poly.const(0) if idx[1] is None else lift(idx[1])
        if idx[2] is None:
            raise Inconclusive(f"{what}: mask assignment up to the end of the store")
        hi = lift(idx[2])
        if _elementwise_value(v):
            raise Inconclusive(f"{what}: entries [{lo}, {hi}) receive values that depend on the entry: {str(v)[:120]}")
        if not nonzero_value(v):
            raise Inconclusive(f"{what}: entries [{lo}, {hi}) are reset to {v}")
        if _nonneg(c - lo):                       # touches or overlaps the active prefix
            if _nonneg(c - hi):
                return c
            if _nonneg(hi - c):
                return hi
        raise Inconclusive(f"{what}: cannot order {c} and [{lo}, {hi})")
    if is_sym(t, 'dynamic_update_slice', 3):
        base, val, off = t.args
        c = active_prefix(base, p_old, c_old, what)
        if not (isinstance(off, tuple) and len(off) == 1 and isinstance(val, tuple) and val[0] == 'AT' and len(val[1]) == 1):
            raise Inconclusive(f"{what}: block write {str(t)[:120]}")
        lo, L = lift(off[0]), _axis_len(val[1][0])
        if not nonzero_value(val):
            raise Inconclusive(f"{what}: a block of zeros is written")
        if _nonneg(c - lo) and _nonneg(lo + L - c):
            return lo + L
        if _nonneg(c - lo - L):
            return c
        raise Inconclusive(f"{what}: block [{lo}, {lo + L}) is not adjacent to the active prefix [0, {c})")
    if is_sym(t, 'fori_loop', 4):
        lo, hi, body, init = t.args
        c = active_prefix(init, p_old, c_old, what)
        body = as_sym(body)
        if not is_sym(body, 'dynamic_update_slice', 3) or as_sym(body.args[0]) != Sym('$carry'):
            raise Inconclusive(f"{what}: activation body outside the rule's vocabulary: {str(body)[:200]}")
        val, off = body.args[1], body.args[2]
        if not (isinstance(off, tuple) and len(off) == 1 and isinstance(val, tuple) and val[0] == 'AT' and len(val[1]) == 1):
            raise Inconclusive(f"{what}: block write {str(body)[:120]}")
        if not nonzero_value(val):
            raise Violation(f"{what}: activation value", str(val)[:120], "a non-zero probability")
        L = _axis_len(val[1][0])
        i_ = Poly.atom(('S', Sym('$i')))
        o = lift(off[0])
        c0 = Poly({k: v for k, v in o.t.items() if not any(a == ('S', Sym('$i')) for a, _ in k)})
        c1 = (o - c0)
        if c1 != L * i_:
            raise Violation(f"{what}: activation offset", f"block i of {L} entries is written at {o}", f"consecutive blocks (stride {L})")
        first, last = c0 + L * lift(lo), c0 + L * lift(hi)
        if not _nonneg(lift(hi) - lift(lo)):
            raise Inconclusive(f"{what}: loop range {lo} .. {hi}")
        if _nonneg(c - first) and _nonneg(last - c):
            return last
        if _nonneg(c - last):
            return c
        if _nonneg(first - c) and first != c:
            raise Violation(f"{what}: activation range", f"blocks {lift(lo)} .. {lift(hi)} - 1 are written at [{first}, {last}) while the active "
                            f"entries end at {c}", "the blocks follow the active entries without a gap")
        raise Inconclusive(f"{what}: cannot order {c} and [{first}, {last})")
    if is_sym(t, 'cond', 3) and isinstance(t.args[0], Pred) and t.args[0].kind == 'ge0':
        # elementwise selection on the entry index: where(q(arange) >= 0, a, b)
        q = lift(t.args[0].arg)
        ar = _arange_atom(q)
        a, b = t.args[1], t.args[2]
        if ar is not None:
            coef = q.diff_atom(ar) if hasattr(q, 'diff_atom') else None
            rest = Poly({k: v for k, v in q.t.items() if not any(x == ar for x, _ in k)})
            lin = q - rest
            if lin == Poly.atom(ar):            # i + rest >= 0  <=>  i >= -rest
                thr, ge_val, lt_val = -rest, a, b
            elif lin == -Poly.atom(ar):         # -i + rest >= 0  <=>  i <= rest  <=>  i < rest + 1
                thr, ge_val, lt_val = rest + 1, b, a
            else:
                raise Inconclusive(f"{what}: selection on {q}")
            za, zb = (not nonzero_value(ge_val)), (not nonzero_value(lt_val))
            if za and not zb:
                return thr
            raise Inconclusive(f"{what}: selection values {lt_val} / {ge_val}")
    raise Inconclusive(f"{what}: activation idiom outside the rule's vocabulary: {str(t)[:200]}")


def _eval_int(q, env):
    """integer value of a polynomial in count symbols under the assignment env (name -> int)"""
    q = lift(q)
    tot = Fraction(0)
    for k, v in q.t.items():
        m = Fraction(v)
        for a, e in k:
            if a[0] == 'K':
                m *= Fraction(env[a[1]]) ** e
            elif a[0] == 'S' and isinstance(a[1], Sym) and a[1].op.startswith('$'):
                m *= Fraction(env[a[1].op]) ** e
            else:
                raise KeyError(a)
        tot += m
    if tot.denominator != 1:
        raise KeyError(f"non-integer value {tot}")
    return int(tot)


def active_set_at(term, p_old, c_old, env, size=400):
    """the active entries of the mask term for ONE assignment of the count symbols (a witness evaluation of the inferred term)"""
    t = as_sym(term)
    if isinstance(t, Sym) and same(t, as_sym(p_old)):
        return set(range(_eval_int(c_old, env)))
    if is_sym(t, 'at_set', 3):
        base, idx, v = t.args
        act = active_set_at(base, p_old, c_old, env, size)
        if not (isinstance(idx, tuple) and idx and idx[0] == 'slice' and idx[3] is None):
            raise KeyError(idx)
        if _elementwise_value(v):
            raise KeyError('elementwise value')
        lo = 0 if idx[1] is None else _eval_int(idx[1], env)
        hi = size if idx[2] is None else _eval_int(idx[2], env)
        rng = set(range(max(lo, 0), min(hi, size)))
        return (act | rng) if nonzero_value(v) else (act - rng)
    if is_sym(t, 'dynamic_update_slice', 3):
        base, val, off = t.args
        act = active_set_at(base, p_old, c_old, env, size)
        if _elementwise_value(val):
            raise KeyError('elementwise value')
        lo, L = _eval_int(off[0], env), _eval_int(_axis_len(val[1][0]), env)
        lo = max(0, min(lo, size - L))           # dynamic_update_slice clamps the start index
        rng = set(range(lo, lo + L))
        return (act | rng) if nonzero_value(val) else (act - rng)
    if is_sym(t, 'fori_loop', 4):
        lo, hi, body, init = t.args
        act = active_set_at(init, p_old, c_old, env, size)
        body = as_sym(body)
        if not is_sym(body, 'dynamic_update_slice', 3) or as_sym(body.args[0]) != Sym('$carry'):
            raise KeyError('body')
        val, off = body.args[1], body.args[2]
        L = _eval_int(_axis_len(val[1][0]), env)
        for i in range(_eval_int(lo, env), _eval_int(hi, env)):
            o = _eval_int(off[0], dict(env, **{'$i': i}))
            o = max(0, min(o, size - L))
            rng = set(range(o, o + L))
            act = (act | rng) if nonzero_value(val) else (act - rng)
        return act
    raise KeyError(str(t)[:80])


def _count_symbols(*vals):
    names = set()

    def rec(x):
        if isinstance(x, Poly):
            for a in x.atoms():
                if a[0] == 'K':
                    names.add(a[1])
                elif a[0] == 'S':
                    rec(a[1])
        elif isinstance(x, Sym):
            for y in x.args:
                rec(y)
        elif isinstance(x, (tuple, list)):
            for y in x:
                rec(y)
    for v in vals:
        rec(v)
    return sorted(names)


def _axis_len(name):
    from ..alg import axis_extent
    try:
        return Poly.const(int(name))
    except (TypeError, ValueError):
        return axis_extent(name)


def check_mask_activation(p_new, p_old, start, sel, J, what):
    """the probability mask after refinement step number J (steps 0 .. J - 1 done before: the first start + J * sel entries of
    p_old are active): exactly the first start + (J + 1) * sel entries are active afterwards, which includes the block written
    by this step"""
    c_old = lift(start) + lift(J) * lift(sel)
    want = lift(start) + (lift(J) + 1) * lift(sel)
    try:
        c = active_prefix(p_new, p_old, c_old, what)
    except Inconclusive as inc:
        # no symbolic order between the quantities involved: the inferred term is evaluated for a few assignments of the count
        # symbols; an assignment for which the active entries are not the expected prefix is a counterexample
        names = _count_symbols(as_sym(p_new), c_old, want)
        import itertools
        starts = [n_ for n_ in names if 'start' in n_]
        others = [n_ for n_ in names if 'start' not in n_ and n_ != 'J']
        envs = []
        for jv in (0, 2, 1):
            for perm in itertools.permutations([10, 40, 90][:max(len(starts), 1)]):
                for pool in ([3, 2, 5, 7, 4], [2, 3, 4, 5, 7]):
                    env = {'J': jv}
                    env.update({n_: v_ for n_, v_ in zip(starts, perm)})
                    env.update({n_: pool[i_ % len(pool)] for i_, n_ in enumerate(others)})
                    envs.append(env)
        for env in envs:
            try:
                act = active_set_at(p_new, p_old, c_old, env)
                exp_n = _eval_int(want, env)
            except (KeyError, TypeError, ValueError, ZeroDivisionError):
                continue
            if act != set(range(exp_n)):
                extra, missing = sorted(act - set(range(exp_n)))[:4], sorted(set(range(exp_n)) - act)[:4]
                raise Violation(f"{what}: active entries", f"for {env}: entries {extra} are active beyond the expected ones / entries "
                                f"{missing} are not active", f"exactly the first {want} = {exp_n} entries active after step number {lift(J)}")
        raise inc
    if c != want:
        raise Violation(f"{what}: active entries", f"the first {c} entries are active after step number {lift(J)}",
                        f"the first {want} (the block written by this step included)")
    return f"{what}: first {lift(start)} + ({lift(J)} + 1) * {lift(sel)} entries active"