"""C15 - observation and parameter loaders keep rows aligned with the user's tables.

 R1 DataGeneratorObservations: the constructor stores the user's three tables unchanged (1-D inputs get a trailing
    axis; with and without a sharding device); a mini-batch gathers the input, the value and every observed parameter
    with ONE index vector (a dynamic slice of the shuffled index store) along axis 0.
 R2 DataGeneratorParameter.generate_data: a user table of shape (n, 1) or (n,) is accepted (stored as (n, 1)), any
    other shape raises; the table has priority over a range given for the same key; every key uses its own range.
 R4 DataGeneratorObservationsMultiPINNs: per-network loaders are built from the tables of the SAME key whatever the
    insertion order of the dictionaries; a batch holds one entry per network, empty for networks without observations.
"""
from __future__ import annotations
import numpy as np

from ..alg import Poly, AT, Sym, K, to_at, Top, Finding, Fv
from ..extern import same, fz, OpaqueObj
from ..genenv import GenEnv, MOD
from ..interp import freeze, Inst, AbstractRaise
from ..report import Violation, Inconclusive
from .C09 import expect_same, spec_step
from .C08 import draw_of, same_num


def table(name, shape):
    ax = tuple(shape)
    named = frozenset(a for a in ax if not isinstance(a, int))
    cs = tuple(a for a in ax if isinstance(a, int))
    d = np.empty(cs, dtype=object)
    for i in np.ndindex(cs):
        d[i] = Poly.atom(('F', name, (tuple(i) if i else None), named))
    return AT(ax, d)


def check_obs_gather(G, eq_keys=('nu', 'th'), suffix=''):
    """input, value and every observed parameter of a batch are gathered with the SAME mini-batch of row indices
    (suffix: other tables under the same sizes and names - a second loader in the same process)"""
    if suffix:
        gen = G.obs(eq_keys=eq_keys, observed_pinn_in=Sym('obs_in' + suffix), observed_values=Sym('obs_val' + suffix),
                    observed_eq_params={k: Sym(f'obs_{k}{suffix}') for k in eq_keys})
    else:
        gen = G.obs(eq_keys=eq_keys)
    new, batch = freeze(gen).obs_batch()
    pred, k2, s2, i2 = spec_step(gen.fields['key'], gen.fields['indices'], gen.fields['curr_idx'], K('bo'), K('n_obs'), None)
    mb = Sym('dynamic_slice', fz(s2), (fz(i2),), (fz(K('bo')),))
    if set(batch.keys()) != {"pinn_in", "val", "eq_params"}:
        raise Violation("batch keys", str(sorted(batch.keys())), "['eq_params', 'pinn_in', 'val']")
    from .C09 import wild_keys
    mb = wild_keys(mb)
    g_ = lambda v: wild_keys(fz(v))
    expect_same(g_(batch["pinn_in"]), Sym('gather', Sym('obs_in' + suffix), mb), "batch['pinn_in']")
    expect_same(g_(batch["val"]), Sym('gather', Sym('obs_val' + suffix), mb), "batch['val']")
    if set(batch["eq_params"].keys()) != {'nu', 'th'}:
        raise Violation("eq_params keys", str(sorted(batch['eq_params'].keys())), "['nu', 'th']")
    for k in ('nu', 'th'):
        expect_same(g_(batch["eq_params"][k]), Sym('gather', Sym(f'obs_{k}{suffix}'), mb), f"batch['eq_params'][{k!r}]")
    return "pinn_in, val and every observed parameter gathered with the same mini-batch of indices on axis 0"


def run(chk):
    G = GenEnv(chk.repo)
    chk.files = G.w.files
    thorough = chk.full
    chk.rule("C15.R1", "observation loader: tables stored unchanged; one index vector gathers input, value and observed "
                       "parameters along axis 0", floor=4)
    chk.rule("C15.R2", "parameter loader: (n,1) and (n,) tables accepted, other shapes rejected, table has priority, per-key ranges", floor=5)
    chk.rule("C15.R4", "multi-network loader pairs tables by key; one aligned batch per network, empty entry without observations", floor=3)

    # ---------------- R1 gather
    go_gather = lambda: check_obs_gather(G)
    chk.run("C15.R1", f"{MOD}:DataGeneratorObservations.obs_batch", {}, go_gather, construct="aligned gather")
    # observed parameters given in a non-alphabetical order: each keeps its own table (pytree flattening sorts the keys)
    chk.run("C15.R1", f"{MOD}:DataGeneratorObservations.obs_batch", {"observed_eq_params_order": ["th", "nu"]},
            (lambda: check_obs_gather(G, ('th', 'nu'))), construct="aligned gather")

    # a second loader with the same sizes and the same parameter names but other tables, later in the same process: its batches
    # come from ITS tables (nothing remembered per size / per name from an earlier loader)
    chk.run("C15.R1", f"{MOD}:DataGeneratorObservations.obs_batch", {"second_loader": "same sizes and names, other tables"},
            (lambda: check_obs_gather(G, suffix='_second')), construct="aligned gather (second loader)")

    # ---------------- R1 constructor
    for sharding in (None, 'device'):
        for one_d in (False, True):
            cfg = {"sharding_device": sharding, "one_dimensional_tables": one_d}

            def go(sharding=sharding, one_d=one_d):
                n = 20
                pin = table('IN', (n,) if one_d else (n, 2))
                val = table('VAL', (n,) if one_d else (n, 3))
                eqp = {'nu': table('NU', (n,) if one_d else (n, 1))}
                sd = OpaqueObj('sharding') if sharding else None
                exp_in = pin[:, None] if one_d else pin
                exp_val = val[:, None] if one_d else val
                exp_nu = eqp['nu'][:, None] if one_d else to_at(eqp['nu'])
                gen = G.cls("DataGeneratorObservations")(Sym('key'), 4, pin, val, dict(eqp), sd)
                for f, e in (('observed_pinn_in', exp_in), ('observed_values', exp_val)):
                    if not same(gen.fields[f], e):
                        raise Violation(f, f"{f} = {str(gen.fields[f])[:120]}", f"the user's table {str(e)[:80]}")
                if not same(gen.fields['observed_eq_params']['nu'], exp_nu):
                    raise Violation("observed_eq_params", str(gen.fields['observed_eq_params']['nu'])[:120], "the user's table")
                if int(gen.fields['n']) != n:
                    raise Violation("n", str(gen.fields['n']), str(n))
                idx = gen.fields['indices']
                if [int(x) for x in (idx if isinstance(idx, list) else to_at(idx).entries())] != list(range(n)):
                    raise Violation("indices", str(idx)[:80], f"0..{n - 1}")
                return "tables stored unchanged, indices 0..n-1"
            chk.run("C15.R1", f"{MOD}:DataGeneratorObservations.__post_init__", cfg, go, construct="observation tables stored")

    # two observed parameters given in different shapes: each stored table is its OWN user table
    for shapes in (("2d", "1d"), ("1d", "2d"), ("1d", "1d")):
        cfg = {"observed_eq_params": {"nu": shapes[0], "th": shapes[1]}}

        def go2(shapes=shapes):
            n = 12
            tabs = {k_: table(k_.upper(), (n,) if sh == "1d" else (n, 1)) for k_, sh in zip(('nu', 'th'), shapes)}
            gen = G.cls("DataGeneratorObservations")(Sym('key'), 4, table('IN', (n, 2)), table('VAL', (n, 1)), dict(tabs))
            for k_, sh in zip(('nu', 'th'), shapes):
                exp = tabs[k_][:, None] if sh == "1d" else to_at(tabs[k_])
                got = gen.fields['observed_eq_params'][k_]
                if not same(got, exp):
                    raise Violation(f"observed_eq_params[{k_}]", str(got)[:140], f"the user's table for {k_} as (n, 1): {str(exp)[:100]}")
            return "each observed parameter stores its own table as (n, 1)"
        chk.run("C15.R1", f"{MOD}:DataGeneratorObservations.__post_init__", cfg, go2, construct="observed parameter tables stored")

    # ---------------- R2 parameter tables
    def param_gen(user_data, ranges):
        return G.param(keys=tuple(sorted(set(user_data) | set(ranges))), user_data=user_data,
                       param_ranges={k: (K(f'{k}_lo'), K(f'{k}_hi')) for k in ranges})

    def keys_for(gen):
        return {k: Sym(f'key_{k}') for k in gen.fields['keys']}

    for shape, label in ((('n_p', 1), "(n, 1)"), (('n_p',), "(n,)")):
        def go(shape=shape):
            t = table('TAB', shape)
            gen = param_gen({'nu': t}, ['th'])
            keys, samples = gen.generate_data(keys_for(gen))
            got = to_at(samples['nu'])
            exp = t if len(shape) == 2 else t[:, None]
            if not same(got, exp):
                raise Violation("table", f"samples['nu'] = {got}", f"the user's table with shape (n, 1): {exp}")
            v = to_at(samples['th'])
            if tuple(v.axes) != ('n_p', 1):
                raise Violation("range sample", f"axes {v.axes}", "('n_p', 1)")
            from .C08 import expect_draw
            expect_draw(v.data[0], K('th_lo'), K('th_hi'), "samples['th']")
            return "table accepted and stored as (n, 1); other key sampled in its own range"
        chk.run("C15.R2", f"{MOD}:DataGeneratorParameter.generate_data", {"table_shape": label}, go, construct=f"user table {label}")

    # concrete counts with a batch size different from the number of samples: the table has n rows (not batch-size rows)
    for shape, label in (((6, 1), "(n, 1)"), ((6,), "(n,)")):
        def go_conc(shape=shape):
            from ..alg import Fv
            t = Fv('TAB', shape)
            gen = G.cls("DataGeneratorParameter")(Sym('key'), 6, 4, {"th": (K('th_lo'), K('th_hi'))}, user_data={'nu': t})
            got = to_at(gen.fields['param_n_samples']['nu'])
            exp = t if len(shape) == 2 else t[:, None]
            if not same(got, exp):
                raise Violation("table", f"samples['nu'] = {got}", f"the user's table with shape (n, 1): {exp}")
            return "a table of n = 6 rows is accepted with a batch size of 4"
        chk.run("C15.R2", f"{MOD}:DataGeneratorParameter.__post_init__", {"table_shape": label, "n": 6, "param_batch_size": 4}, go_conc,
                construct=f"user table {label}, n != batch size")

    for shape, label in ((('n_p', 2), "(n, 2)"), (('n_p', 1, 1), "(n, 1, 1)"), ((1, 'n_p'), "(1, n)")):
        def go(shape=shape):
            gen = param_gen({'nu': table('TAB', shape)}, [])
            try:
                gen.generate_data(keys_for(gen))
            except AbstractRaise as ar:
                if isinstance(ar.exc, ValueError):
                    return "rejected with ValueError"
                raise
            raise Violation("bad table", "a table of an undocumented shape is accepted", "ValueError")
        chk.run("C15.R2", f"{MOD}:DataGeneratorParameter.generate_data", {"table_shape": label}, go, construct="bad table rejected")

    def go_prio():
        t = table('TAB', ('n_p', 1))
        gen = param_gen({'nu': t}, ['nu', 'th'])
        keys, samples = gen.generate_data(keys_for(gen))
        if not same(to_at(samples['nu']), t):
            raise Violation("priority", f"samples['nu'] = {samples['nu']}", "the user's table (priority over the range)")
        return "table wins over the range for the same key"
    chk.run("C15.R2", f"{MOD}:DataGeneratorParameter.generate_data", {"key_in_both": True}, go_prio, construct="table priority")

    # grid method: every key gets the regular grid of ITS OWN range (concrete small count: the grid vector is the list of its points)
    for m, order in ((3, ('nu', 'th')), (4, ('nu', 'th')), (3, ('th', 'nu'))):
        def go_grid(m=m, order=order):
            from fractions import Fraction
            from ..alg import lift
            gen = G.cls("DataGeneratorParameter")(Sym('key'), m, 2, {k_: (K(f'{k_}_lo'), K(f'{k_}_hi')) for k_ in order}, 'grid')
            for k_ in ('nu', 'th'):
                v = gen.fields['param_n_samples'][k_]
                if isinstance(v, Sym):
                    # a float-step `arange(lo, hi, (hi - lo) / n)` does not guarantee its number of points (arange(0, 1, 1/49) has 50)
                    from ..genenv import walk_sym
                    ar = []
                    walk_sym(v, lambda s_: ar.append(s_) if (s_.op == 'arange' and len(s_.args) == 3) else None)
                    for nd in ar:
                        a_, b_, st_ = (lift(x) for x in nd.args)
                        if a_ == lift(K(f'{k_}_lo')) and b_ == lift(K(f'{k_}_hi')) and not st_.is_const():
                            raise Violation(f"grid samples[{k_}]", f"{nd}: the number of points of arange with a float step is not "
                                            f"guaranteed (e.g. arange(0, 1, 1/49) has 50 points)", f"exactly {m} samples of the key's range")
                    raise Inconclusive(f"grid samples of {k_} are not concrete-count vectors: {str(v)[:120]}")
                v = to_at(v)
                lo, hi = lift(K(f'{k_}_lo')), lift(K(f'{k_}_hi'))
                if tuple(v.axes) != (m, 1):
                    raise Violation(f"grid samples[{k_}]", f"axes {v.axes}", f"({m}, 1)")
                ka, kb = ((lo.single_atom(), 1),), ((hi.single_atom(), 1),)
                cs = set()
                for p_ in v.entries():
                    t = dict(lift(p_).t)
                    a, b = t.pop(ka, 0), t.pop(kb, 0)
                    if t or a + b != 1 or not (0 <= b <= 1):
                        raise Violation(f"grid samples[{k_}]", f"sample {p_}", f"a point of the key's own range [{lo}, {hi}]")
                    cs.add(b)
                if len(cs) != m:
                    raise Violation(f"grid samples[{k_}]", f"{len(cs)} distinct samples", f"{m} distinct grid points")
            return "each key: the regular grid of its own range"
        chk.run("C15.R2", f"{MOD}:DataGeneratorParameter.generate_data", {"method": "grid", "n": m, "param_ranges_order": list(order)}, go_grid,
                construct="grid per key")

    # uniform method, two keys with their own ranges, both insertion orders of param_ranges
    for order in (('nu', 'th'), ('th', 'nu')):
        def go_unif(order=order):
            from .C08 import expect_draw
            gen = G.cls("DataGeneratorParameter")(Sym('key'), 6, 2, {k_: (K(f'{k_}_lo'), K(f'{k_}_hi')) for k_ in order}, 'uniform')
            for k_ in order:
                v = to_at(gen.fields['param_n_samples'][k_])
                if tuple(v.axes) != (6, 1):
                    raise Violation(f"uniform samples[{k_}]", f"axes {v.axes}", "(6, 1)")
                for p_ in v.entries():
                    expect_draw(p_, K(f'{k_}_lo'), K(f'{k_}_hi'), f"samples[{k_!r}]")
            return "each key drawn uniformly in its own range"
        chk.run("C15.R2", f"{MOD}:DataGeneratorParameter.generate_data", {"method": "uniform", "param_ranges_order": list(order)}, go_unif,
                construct="uniform per key")

    # a parameter mini-batch is a slice of the key's own sample table (so every entry is a value of that table / range)
    from .C09 import check_param_draw
    chk.run("C15.R2", f"{MOD}:DataGeneratorParameter.param_batch", {}, (lambda: check_param_draw(G)), construct="parameter batch = slice of the samples")

    # ---------------- R4 multi-network loader
    orders = [(('a', 'b'), ('a', 'b'), ('a', 'b')), (('a', 'b'), ('b', 'a'), ('a', 'b')), (('a', 'b'), ('a', 'b'), ('b', 'a')),
              (('b', 'a'), ('a', 'b'), ('b', 'a'))]
    for o_in, o_val, o_eq in (orders if thorough else orders[:3]):
        cfg = {"order_pinn_in": list(o_in), "order_values": list(o_val), "order_eq_params": list(o_eq)}

        def go(o_in=o_in, o_val=o_val, o_eq=o_eq):
            n = 12
            tin = {k: table(f'IN_{k}', (n, 2)) for k in o_in}
            tval = {k: table(f'VAL_{k}', (n, 1)) for k in o_val}
            teq = {k: {'nu': table(f'NU_{k}', (n, 1))} for k in o_eq}
            gen = G.cls("DataGeneratorObservationsMultiPINNs")(3, tin, tval, observed_eq_params_dict=teq, key=Sym('key'))
            dg = gen.fields['data_gen_obs']
            for k in ('a', 'b'):
                sub = dg[k]
                for f, e in (('observed_pinn_in', tin[k]), ('observed_values', tval[k])):
                    if not same(sub.fields[f], e):
                        raise Violation(f"{k}.{f}", f"network {k!r} gets {str(sub.fields[f])[:90]}", f"its own table {str(e)[:60]}")
                if not same(sub.fields['observed_eq_params']['nu'], teq[k]['nu']):
                    raise Violation(f"{k}.observed_eq_params", f"network {k!r} gets {str(sub.fields['observed_eq_params'])[:90]}", "its own table")
            return "every network's loader holds the tables of its own key"
        chk.run("C15.R4", f"{MOD}:DataGeneratorObservationsMultiPINNs.__post_init__", cfg, go, construct="tables paired by key")

    def go_multi_batch():
        sub = {'a': G.obs(eq_keys=('nu',)), 'b': None, 'c': G.obs(eq_keys=())}
        sub['c'] = sub['c'].replace_fields({'key': Sym('key_c'), 'indices': Sym('indices_c'), 'observed_pinn_in': Sym('in_c'),
                                            'observed_values': Sym('val_c')})
        gen = G.cls("DataGeneratorObservationsMultiPINNs").make(obs_batch_size=K('bo'), observed_pinn_in_dict=None,
                                                                observed_values_dict=None, observed_eq_params_dict=None,
                                                                data_gen_obs=sub)
        new, batches = freeze(gen).obs_batch()
        if set(batches.keys()) != {'a', 'b', 'c'}:
            raise Violation("batch keys", str(sorted(batches.keys())), "['a', 'b', 'c']")
        if batches['b'] not in (None, {}) and batches['b'] != {}:
            raise Violation("empty entry", repr(batches['b']), "an empty entry for the network without observations")
        for k in ('a', 'c'):
            n2, b2 = freeze(sub[k]).obs_batch()
            if not same(batches[k], b2):
                raise Violation(f"batch[{k}]", str(batches[k])[:150], f"the batch of network {k}'s own loader")
            if not same(new.fields['data_gen_obs'][k], n2):
                raise Violation(f"loader[{k}]", "not advanced as its own obs_batch does", "advanced loader")
        if set(new.fields['data_gen_obs'].keys()) != {'a', 'b', 'c'}:
            raise Violation("loaders", f"the advanced generator holds the loaders of {sorted(new.fields['data_gen_obs'].keys())}",
                            "an entry for every network ['a', 'b', 'c'] (None for the one without observations), as before the draw")
        if new.fields['data_gen_obs']['b'] is not None:
            raise Violation("loader[b]", repr(new.fields['data_gen_obs']['b']), "None")
        return "one aligned batch per network, empty entry for the network without observations"
    chk.run("C15.R4", f"{MOD}:DataGeneratorObservationsMultiPINNs.obs_batch", {}, go_multi_batch, construct="per-network batches")
