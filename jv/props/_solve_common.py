"""Shared symbolic analysis of jinns.solver._solve.solve (used by C07, C18, C19).

`solve` is interpreted with opaque tokens for the loss, the optimizer, the generators and the validation module.
`jax.lax.while_loop(cond, body, init)` is intercepted: `init` is recorded, a *generic* carry (fresh tokens in every
slot) is returned as the loop's result, and `body` / `cond` are afterwards applied once to a generic carry.  This
yields, as uninterpreted terms: the initial carry, one full iteration carry -> carry', the continuation predicate,
and the provenance of the nine returned values.
"""
from __future__ import annotations

from ..alg import Poly, AT, Sym, K, Pred, lift, to_at, Top, Finding
from ..extern import same, fz, merge_cond
from ..interp import Inst, freeze
from ..report import Violation, Inconclusive
from ..solveenv import SolveEnv, LossToken, OptToken, GenToken, ValToken, TERM_KEYS, SOLVE
from .C09 import expect_same, first_diff


class SolveAnalysis:
    def __init__(self, repo, validation=True, aux=True, tracked=True, opt_state_given=False, verbose=True, overrides=None):
        self.E = E = SolveEnv(repo, overrides=overrides)
        self.validation, self.aux = validation, aux
        self.loss = LossToken()
        self.opt = OptToken()
        self.init_params = E.params(0)
        self.data0 = E.data()
        self.pdata0 = E.param_data() if aux else None
        self.odata0 = E.obs_data() if aux else None
        self.val0 = ValToken() if validation else None
        self.tracked = E.Params.make(nn_params=None, eq_params={'a': True, 'b': None}) if tracked else None   # 'b' exists and is NOT tracked
        self.is_tracked = tracked
        self.n_iter = K('n_iter')
        self.opt_state0 = Sym('opt_state_in') if opt_state_given else None
        self.rec = {}
        self.generic = self.generic_carry('f')

        def hook(cond, body, init):
            self.rec.update(cond=cond, body=body, init=init)
            return self.generic
        solve = E.m.env.get("solve")
        self.result = E.with_while_hook(hook, lambda: solve(
            self.n_iter, self.init_params, self.data0, self.loss, self.opt, print_loss_every=K('print_every'),
            opt_state=self.opt_state0, tracked_params=self.tracked, param_data=self.pdata0, obs_data=self.odata0,
            validation=self.val0, verbose=verbose))
        if 'body' not in self.rec:
            raise Inconclusive("solve() did not reach jax.lax.while_loop")

    # ---- a carry with a fresh token in every slot
    def generic_carry(self, tag, i=None):
        E = self.E
        i = K('i') if i is None else i
        self.g_params = E.params(f'_{tag}')
        opt = E.OptimizationContainer.make(params=self.g_params, last_non_nan_params=E.params(f'_last_{tag}'),
                                           opt_state=Sym(f'opt_state_{tag}'))
        extra = E.OptimizationExtraContainer.make(curr_seq=0, best_val_params=E.params(f'_best_{tag}'), early_stopping=Sym(f'es_{tag}'))
        td = E.DataGeneratorContainer.make(data=GenToken(f'data_{tag}', E.main_batch, attrs={'rar_parameters': None}),
                                           param_data=(GenToken(f'pdata_{tag}', lambda n, s: {'nu': Sym('param_batch', n, s)})
                                                       if self.aux else None),
                                           obs_data=(GenToken(f'odata_{tag}', lambda n, s: {'pinn_in': Sym('obs_in', n, s),
                                                                                           'val': Sym('obs_val', n, s),
                                                                                           'eq_params': {}})
                                                     if self.aux else None))
        lc = E.LossContainer.make(stored_loss_terms={k: Sym(f'hist_{k}_{tag}') for k in TERM_KEYS},
                                  train_loss_values=Sym(f'hist_total_{tag}'))
        so = E.StoredObjectContainer.make(stored_params=E.Params.make(
            nn_params=None, eq_params={'a': (Sym(f'hist_a_{tag}') if self.tracked is not None else None), 'b': None}))
        val = ValToken(f'val_{tag}') if self.validation else None
        crit = Sym(f'crit_{tag}') if self.validation else None
        return (i, self.loss, opt, extra, td, val, lc, so, crit)

    # ---- one iteration on a generic carry
    def step(self):
        c = self.generic_carry('k')
        out = self.rec['body'](c)
        return c, out

    def cont(self):
        c = self.generic_carry('k')
        return c, self.rec['cond'](c)

    # ---- specification of one iteration (the textbook loop of the property)
    def spec_step(self, c):
        E = self.E
        i, loss, opt, extra, td, val, lc, so, crit = c
        data, pdata, odata = td.fields['data'], td.fields['param_data'], td.fields['obs_data']
        data2, batch = data.get_batch()
        if pdata is not None:
            pdata2, pb = pdata.get_batch()
            batch = batch.replace_fields({'param_batch_dict': pb})
        else:
            pdata2 = None
        if odata is not None:
            odata2, ob = odata.get_batch()
            batch = batch.replace_fields({'obs_batch_dict': ob})
        else:
            odata2 = None
        params, state, last = opt.fields['params'], opt.fields['opt_state'], opt.fields['last_non_nan_params']
        total, terms = self.loss(params, batch)
        grads = Sym('grad', fz(total), fz(params))
        updates, state2 = self.opt.update(grads, state, params)
        from ..extern import apply_updates_model
        params2 = apply_updates_model(params, updates)
        nan2 = self.anynan(params2)
        last2 = merge_cond(nan2, last, params2)
        spec = dict(i=lift(i) + 1, loss=loss, params=params2, last=last2, opt_state=state2, data=data2, pdata=pdata2, odata=odata2,
                    batch=batch, total=total, terms=terms, nan=nan2)
        if val is not None:
            call = Pred.compare(lift(i) % lift(val.call_every), 0, '==')
            v2, stop, critv, best = val(params2)
            spec['call'] = call
            spec['val'] = merge_cond(call, v2, val)
            spec['early_stopping'] = merge_cond(call, stop, False)
            criterion = merge_cond(call, critv, Sym('getitem', crit, fz(lift(i) - 1)))
            spec['crit'] = Sym('at_set', crit, fz(i), fz(criterion))
            upd = merge_cond(call, best, False)
            spec['best'] = self._cond_value(upd, params2, extra.fields['best_val_params'])
        else:
            spec['val'] = None
            spec['early_stopping'] = False
            spec['crit'] = None
            spec['best'] = params2
        spec['hist_total'] = Sym('at_set', lc.fields['train_loss_values'], fz(i), fz(total))
        spec['hist_terms'] = {k: Sym('at_set', lc.fields['stored_loss_terms'][k], fz(i), fz(terms[k])) for k in TERM_KEYS}
        sp = so.fields['stored_params']
        spec['hist_a'] = (Sym('at_set', sp.fields['eq_params']['a'], fz(i), fz(params2.fields['eq_params']['a']))
                          if self.tracked is not None else None)
        return spec

    @staticmethod
    def _cond_value(p, a, b):
        if isinstance(p, (bool,)):
            return a if p else b
        from ..alg import as_pred
        return merge_cond(as_pred(p), a, b)

    @staticmethod
    def anynan(params):
        """any leaf of the parameter pytree has a NaN entry"""
        if isinstance(params, Inst):
            leaves = [params.fields['eq_params'][k] for k in sorted(params.fields['eq_params'])] + [params.fields['nn_params']]
            # jax flattens dataclass fields in declaration order: nn_params, eq_params
            leaves = [params.fields['nn_params']] + [params.fields['eq_params'][k] for k in sorted(params.fields['eq_params'])]
            return Pred.disj([Pred('sym', Sym('any_isnan', fz(l))) for l in leaves])
        return Pred('sym', Sym('any_isnan', fz(params)))


def compare_step(A, slots=None):
    """compare one iteration of the analysed loop with the specification; returns the list of checked slot names;
    raises Violation naming the first differing slot"""
    c, out = A.step()
    spec = A.spec_step(c)
    if not (isinstance(out, tuple) and len(out) == 9):
        raise Violation("carry", f"iteration returns {type(out).__name__} of length {len(out) if isinstance(out, tuple) else '?'}",
                        "the 9-slot carry")
    i2, loss2, opt2, extra2, td2, val2, lc2, so2, crit2 = out
    checks = {
        'iteration counter': (i2, spec['i']),
        'loss object': (loss2, spec['loss']),
        'params (after the update)': (opt2.fields['params'], spec['params']),
        'last_non_nan_params': (opt2.fields['last_non_nan_params'], spec['last']),
        'opt_state': (opt2.fields['opt_state'], spec['opt_state']),
        'data generator': (td2.fields['data'], spec['data']),
        'param_data generator': (td2.fields['param_data'], spec['pdata']),
        'obs_data generator': (td2.fields['obs_data'], spec['odata']),
        'validation module': (val2, spec['val']),
        'early_stopping flag': (extra2.fields['early_stopping'], spec['early_stopping']),
        'best_val_params': (extra2.fields['best_val_params'], spec['best']),
        'validation criterion history': (crit2, spec['crit']),
        'total loss history': (lc2.fields['train_loss_values'], spec['hist_total']),
        'tracked parameter history': (so2.fields['stored_params'].fields['eq_params']['a'], spec['hist_a']),
    }
    for k in TERM_KEYS:
        checks[f'loss term history [{k}]'] = (lc2.fields['stored_loss_terms'][k], spec['hist_terms'][k])
    done = []
    for name, (found, exp) in checks.items():
        if slots is not None and name not in slots:
            continue
        f, e = _norm(found), _norm(exp)
        if not same(f, e):
            d = first_diff(f, e) or ""
            raise Violation(name, f"{name}: {str(found)[:300]} [{d[:500]}]", str(exp)[:300])
        done.append(name)
    if so2.fields['stored_params'].fields['nn_params'] is not None:
        raise Violation('tracked parameter history', "untracked nn_params stored", "None")
    if so2.fields['stored_params'].fields['eq_params'].get('b') is not None:
        raise Violation('tracked parameter history', "a history is stored for the untracked equation parameter b", "None")
    return done


def _norm(v):
    if isinstance(v, (Inst, dict, tuple, list)):
        return fz(v)
    if isinstance(v, Pred):
        return v
    try:
        return fz(v)
    except Exception:
        return v
