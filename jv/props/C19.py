"""C19 - validation is called on schedule; early stopping and best parameters follow it.

From the symbolic one-iteration analysis of solve() (see _solve_common), with an opaque validation module:
 R1 the module is invoked iff i mod call_every == 0, with the parameters AFTER this iteration's update; the returned
    module replaces the carried one only when invoked;
 R2 the criterion written at index i is the module's criterion when invoked and the previous entry (i-1) otherwise;
 R3 early_stopping carried = the module's stop flag when invoked, False otherwise; the loop stops on it;
    best parameters = the post-update parameters when the module flags an improvement, else the carried best.
And by symbolic evaluation of ValidationLoss.__call__:
 R4 improvement iff loss < best (strict); on improvement counter := 0 and best := loss, otherwise counter + 1;
    stop = (counter == patience, on the counter BEFORE this call) and early_stopping; the loss is evaluated on the
    module's own next batches (main / parameter / observation generators), which are all written back.
"""
from __future__ import annotations

from ..alg import Poly, AT, Sym, K, Pred, lift, to_at, Top, Finding, as_pred
from ..extern import same, fz, make_world, merge_cond
from ..interp import freeze, Inst
from ..report import Violation, Inconclusive
from ..solveenv import SOLVE, SolveEnv, LossToken, GenToken
from ._solve_common import SolveAnalysis, compare_step, _norm

VAL = "jinns.validation._validation"


def run(chk):
    chk.rule("C19.R1", "validation invoked iff i % call_every == 0 with post-update params; criterion history, early stopping "
                       "flag and best parameters follow the module (one-iteration step)", floor=2)
    chk.rule("C19.R3", "the loop stops on early_stopping", floor=1)
    chk.rule("C19.R4", "ValidationLoss.__call__: strict improvement test, counter / best update, stop on the pre-update counter "
                       "and the early_stopping switch, own generators advanced and written back", floor=4)
    for cfg in (dict(validation=True, aux=True), dict(validation=True, aux=False), dict(validation=True, aux=False, verbose=False)):
        holder = {}

        def A(cfg=cfg, holder=holder):
            if 'a' not in holder:
                holder['a'] = SolveAnalysis(chk.repo, **cfg)
                chk.files.update(holder['a'].E.w.files)
            return holder['a']
        chk.run("C19.R1", f"{SOLVE}:solve._one_iteration (validation block)", cfg,
                lambda A=A: "ok: " + ", ".join(compare_step(A(), slots={'validation module', 'early_stopping flag', 'best_val_params',
                                                                        'validation criterion history', 'params (after the update)'})),
                construct="validation schedule")

        def go_cont(A=A):
            a = A()
            c, p = a.cont()
            want = Pred('sym', c[3].fields['early_stopping']).negate()
            parts = p.arg if isinstance(p, Pred) and p.kind == 'and' else (p,)
            if want not in parts:
                raise Violation("early-stopping conjunct", f"continuation predicate {p}", f"a conjunct {want}")
            return f"continuation predicate contains {want}"
        if cfg['aux']:
            chk.run("C19.R3", f"{SOLVE}:_get_break_fun.break_fun", cfg, go_cont, construct="early stopping stop condition")

    # ---------------- R4
    E = SolveEnv(chk.repo)
    chk.files.update(E.w.files)
    VL = E.w.get(VAL, "ValidationLoss")
    for aux in ('none', 'both', 'param', 'obs'):
        for es in (('symbolic', True, False) if aux in ('none', 'both') else ('symbolic',)):
            cfg = {"own_generators": aux, "early_stopping": str(es)}

            def go(aux=aux, es=es):
                loss = LossToken('vloss')
                data = GenToken('vdata', E.main_batch)
                pd = GenToken('vpdata', lambda n, s: {'nu': Sym('param_batch', n, s)}) if aux in ('both', 'param') else None
                od = GenToken('vodata', lambda n, s: {'pinn_in': Sym('obs_in', n, s), 'val': Sym('obs_val', n, s), 'eq_params': {}}) \
                    if aux in ('both', 'obs') else None
                es_v = Sym('es_switch') if es == 'symbolic' else es
                v = VL.make(loss=loss, validation_data=data, validation_param_data=pd, validation_obs_data=od,
                            call_every=K('call_every'), early_stopping=es_v, patience=K('patience'),
                            best_val_loss=Sym('best'), counter=K('counter'))
                params = E.params('_p')
                new, stop, value, update = freeze(v)(freeze(params))
                # specification
                d2, batch = data.get_batch()
                pd2 = od2 = None
                if pd is not None:
                    pd2, pb = pd.get_batch()
                    batch = batch.replace_fields({'param_batch_dict': pb})
                if od is not None:
                    od2, ob = od.get_batch()
                    batch = batch.replace_fields({'obs_batch_dict': ob})
                total, _ = loss(params, batch)
                if not same(fz(value), fz(total)):
                    raise Violation("validation loss", str(value)[:250], f"the loss on the module's own next batch: {str(total)[:200]}")
                improved = Pred.compare(total, Sym('best'), '<')
                exp_counter = merge_cond(improved, 0, lift(K('counter')) + 1)
                exp_best = merge_cond(improved, total, Sym('best'))
                if not same(_norm(new.fields['counter']), _norm(exp_counter)):
                    raise Violation("counter", str(new.fields['counter']), str(exp_counter))
                if not same(_norm(new.fields['best_val_loss']), _norm(exp_best)):
                    raise Violation("best_val_loss", str(new.fields['best_val_loss']), str(exp_best))
                upd = update if isinstance(update, (Pred, bool)) else as_pred(update)
                if upd != improved:
                    raise Violation("improvement flag", str(update), str(improved))
                eq = Pred.compare(K('counter'), K('patience'), '==')
                exp_stop = Pred.conj([eq, es_v if isinstance(es_v, bool) else Pred('sym', es_v)])
                got_stop = stop if isinstance(stop, (Pred, bool)) else as_pred(stop)
                if got_stop != exp_stop:
                    raise Violation("stop request", str(stop), str(exp_stop))
                if new.fields['validation_data'] != d2:
                    raise Violation("validation_data", str(new.fields['validation_data']), str(d2))
                if new.fields['validation_param_data'] != pd2 or new.fields['validation_obs_data'] != od2:
                    raise Violation("auxiliary validation generators", f"after the call: parameter generator {new.fields['validation_param_data']}, "
                                    f"observation generator {new.fields['validation_obs_data']}",
                                    f"each of the module's own generators advanced by its draw: {pd2}, {od2}")
                for f_ in ('loss', 'call_every', 'early_stopping', 'patience'):
                    if not same(_norm(new.fields[f_]), _norm(v.fields[f_])):
                        raise Violation(f_, str(new.fields[f_]), "unchanged")
                return f"improved iff {improved}; stop iff {exp_stop}"
            chk.run("C19.R4", f"{VAL}:ValidationLoss.__call__", cfg, go, construct="ValidationLoss step")
