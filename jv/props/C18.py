"""C18 - on non-finite parameters training stops and returns the last finite ones.

From the symbolic one-iteration analysis of solve() (see _solve_common):
 R1 last_non_nan_params' = last_non_nan_params if ANYNAN(params') else params', where params' are the parameters
    AFTER this iteration's update and ANYNAN ranges over every leaf of the parameter pytree;
 R2 the loop continues only if not ANYNAN(params) for the carried (post-update) parameters: it stops right after the
    failing iteration;
 R3 solve returns last_non_nan_params (initially init_params);
 R4 _check_nan_in_pytree == any over all leaves of any(isnan(leaf)), for flat and nested parameter containers;
 R5 the histories written by the failing iteration are those of the reference step (index i, post-update tracked
    parameters, this step's loss and terms), later entries are not touched by it.
"""
from __future__ import annotations

from ..alg import Poly, AT, Sym, K, Pred, lift, to_at, Top, Finding
from ..extern import same, fz, make_world
from ..report import Violation, Inconclusive
from ..solveenv import SOLVE, TERM_KEYS
from ._solve_common import SolveAnalysis, compare_step, _norm


def run(chk):
    chk.rule("C18.R1", "last_non_nan_params' = cond(ANYNAN(params after the update), previous last, params after the update)", floor=2)
    chk.rule("C18.R2", "continuation requires not ANYNAN(carried params), over every leaf", floor=2)
    chk.rule("C18.R3", "solve returns last_non_nan_params; initially init_params", floor=2)
    chk.rule("C18.R4", "_check_nan_in_pytree: any leaf has any NaN entry", floor=3)
    chk.rule("C18.R5", "histories written by an iteration: index i, post-update tracked parameters, this step's losses", floor=2)
    for cfg in (dict(validation=False, aux=False), dict(validation=True, aux=True), dict(validation=False, aux=False, verbose=False)):
        holder = {}

        def A(cfg=cfg, holder=holder):
            if 'a' not in holder:
                holder['a'] = SolveAnalysis(chk.repo, **cfg)
                chk.files.update(holder['a'].E.w.files)
            return holder['a']

        chk.run("C18.R1", f"{SOLVE}:_gradient_step", cfg,
                lambda A=A: "ok: " + ", ".join(compare_step(A(), slots={'params (after the update)', 'last_non_nan_params'})),
                construct="last_non_nan_params update")

        def go_cont(A=A):
            a = A()
            c, p = a.cont()
            want = a.anynan(c[2].fields['params']).negate()
            parts = p.arg if isinstance(p, Pred) and p.kind == 'and' else (p,)
            wanted = want.arg if isinstance(want, Pred) and want.kind == 'and' else (want,)     # not(a or b) is stored as (not a) and (not b)
            if not all(w_ in parts for w_ in wanted):
                raise Violation("NaN conjunct", f"continuation predicate {p}", f"a conjunct {want}")
            return f"continuation predicate contains {want}"
        chk.run("C18.R2", f"{SOLVE}:_get_break_fun.break_fun", cfg, go_cont, construct="NaN stop condition")

        def go_ret(A=A):
            a = A()
            g = a.generic
            if not same(_norm(a.result[0]), _norm(g[2].fields['last_non_nan_params'])):
                raise Violation("returned params", str(a.result[0])[:200], "final optimization.last_non_nan_params")
            init = a.rec['init'][2].fields['last_non_nan_params']
            if not same(_norm(init), _norm(a.init_params)):
                raise Violation("initial last_non_nan_params", str(init)[:200], "init_params")
            return "returns the final last_non_nan_params; initially init_params"
        chk.run("C18.R3", f"{SOLVE}:solve", cfg, go_ret, construct="returned params")

        chk.run("C18.R5", f"{SOLVE}:solve._one_iteration/_store_loss_and_params", cfg,
                lambda A=A: "ok: " + ", ".join(compare_step(A(), slots={'total loss history', 'tracked parameter history',
                                                                        'iteration counter'} | {f'loss term history [{k}]' for k in TERM_KEYS})),
                construct="histories of an iteration")

    # R6 "later entries are left untouched": untouched means still holding the initial content of the histories, which is zeros
    chk.rule("C18.R6", "histories start as zeros of length n_iter (what the entries after a NaN stop still hold)", floor=1)

    def go_hist0():
        from ..alg import to_at
        a = SolveAnalysis(chk.repo, validation=True, aux=True)
        chk.files.update(a.E.w.files)
        c = a.rec['init']
        lc, so, crit = c[6], c[7], c[8]

        def zeros(v, what):
            v = to_at(v)
            if not v.axes or v.axes[0] != 'n_iter' or any(not e.is_zero() for e in v.entries()):
                raise Violation(what, str(v)[:140], "zeros with n_iter rows")
        zeros(lc.fields['train_loss_values'], "initial total loss history")
        for k in TERM_KEYS:
            zeros(lc.fields['stored_loss_terms'][k], f"initial history of {k}")
        zeros(so.fields['stored_params'].fields['eq_params']['a'], "initial tracked parameter history")
        zeros(crit, "initial validation criterion history")
        return "all histories start as zeros(n_iter, ...)"
    chk.run("C18.R6", f"{SOLVE}:solve (history allocation)", {}, go_hist0, construct="initial histories")

    # R4 direct evaluation of the NaN test
    w = make_world(chk.repo)
    f = w.get("jinns.utils._utils", "_check_nan_in_pytree")
    Params = w.get("jinns.parameters._params", "Params")
    ParamsDict = w.get("jinns.parameters._params", "ParamsDict")
    cases = {
        "Params(nn, {a, b})": (Params.make(nn_params=Sym('theta'), eq_params={'a': Sym('a'), 'b': Sym('b')}), ['theta', 'a', 'b']),
        "nn_params as a dict of leaves": (Params.make(nn_params={'w': Sym('w'), 'b0': Sym('b0')}, eq_params={'a': Sym('a')}), ['b0', 'w', 'a']),
        "ParamsDict with nested eq_params": (ParamsDict.make(nn_params={'u': Sym('tu'), 'v': Sym('tv')},
                                                             eq_params={'u': {'a': Sym('ua')}, 'v': {'a': Sym('va')}}), ['tu', 'tv', 'ua', 'va']),
    }
    for label, (tree, leaves) in cases.items():
        def go(tree=tree, leaves=leaves):
            r = f(tree)
            # "some entry of some leaf is NaN": the disjunction over the leaves (however it is accumulated)
            exp = Pred.disj([Pred('sym', Sym('any_isnan', Sym(l))) for l in leaves])
            from ..alg import as_pred
            try:
                got = as_pred(r)
            except Top:
                got = r
            if got != exp:
                raise Violation("NaN test", str(r), str(exp))
            return str(r)
        chk.run("C18.R4", "jinns.utils._utils:_check_nan_in_pytree", {"tree": label}, go, construct="_check_nan_in_pytree")
