"""C03 - total loss is the sum of its terms; the dynamic term is the batch-mean weighted residual MSE.

Decided statically by formula inference on LossODE / LossPDEStatio / LossPDENonStatio.evaluate (objects are
built through the repository's own constructors): (R1) the dynamic term equals
Mean[rows](sum_c w_c R_c^2) for an opaque user residual with 1..3 components, scalar and per-component
weights, with and without a per-sample parameter batch, PINN and SPINN; (R2) the returned total equals the
sum of the returned per-term values for every subset of configured terms; (R3) every term that is not
configured is exactly zero.
"""
from __future__ import annotations
import itertools

from ..alg import Poly, AT, to_at, Top, Finding
from ..lossenv import LossEnv, SingleLoss
from ..report import Violation, Inconclusive
from ..specs import canon, canon_at, fmt_list


def scalar_of(v, what):
    v = to_at(v)
    if v.axes != ():
        raise Violation(what, f"value with axes {v.axes}", "a scalar")
    return v.data[()]


def run(chk):
    E = LossEnv(chk.repo)
    chk.files = E.w.files
    thorough = chk.full
    chk.rule("C03.R1", "dynamic term == Mean[rows](sum_c w_c R_c^2) of the user's residual evaluated at each row with the "
                       "given (row-aligned) parameters", floor=10)
    chk.rule("C03.R2", "returned total == sum of the returned per-term values", floor=6)
    chk.rule("C03.R3", "a term that is not configured is exactly zero in the returned dictionary", floor=6)

    lattice = []
    for eq_type in ('ODE', 'statio_PDE', 'nonstatio_PDE'):
        kinds = ('PINN',) if eq_type == 'ODE' else ('PINN', 'SPINN')
        for kind in kinds:
            for m_res in ((1, 2, 3) if thorough else (1, 2)):
                for wkind in ('scalar', 'vector'):
                    for pk in (((), ('nu',)) if kind == 'PINN' else ((),)):
                        if not thorough and m_res == 2 and wkind == 'scalar' and pk:
                            continue
                        lattice.append((eq_type, kind, m_res, wkind, pk))
    for eq_type, kind, m_res, wkind, pk in lattice:
        cfg = {"loss": eq_type, "net": kind, "residual_components": m_res, "weight": wkind, "param_batch": list(pk)}
        site = {"ODE": "jinns.loss._LossODE:LossODE.evaluate", "statio_PDE": "jinns.loss._LossPDE:LossPDEStatio.evaluate",
                "nonstatio_PDE": "jinns.loss._LossPDE:LossPDENonStatio.evaluate"}[eq_type]

        def go(eq_type=eq_type, kind=kind, m_res=m_res, wkind=wkind, pk=pk):
            S = SingleLoss(E, eq_type, kind, d=2, m_u=2 if m_res > 1 else 1, m_res=m_res, terms=('dyn',), wkind=wkind)
            total, terms = S.evaluate(param_keys=pk)
            found = canon(scalar_of(terms['dyn_loss'], 'dyn_loss'))
            exp = canon(scalar_of(S.expected_dyn(pk), 'spec'))
            if found != exp:
                raise Violation("dyn_loss", str(found), str(exp))
            return f"dyn_loss = {found}"
        chk.run("C03.R1", site + "->dynamic_loss_apply", cfg, go, construct="dyn_loss formula")

    # "for every batch": a batch of a single row (the named row axis has extent 1, see alg.unit_axes) - the mean over the rows
    # is then the row's own weighted sum of squares, whatever the number of components
    from ..alg import unit_axes
    for eq_type in ('ODE', 'statio_PDE', 'nonstatio_PDE'):
        for m_res, wkind in ((2, 'vector'), (3, 'scalar'), (1, 'scalar')):
            for pk in ((), ('nu',)):
                cfg = {"loss": eq_type, "net": "PINN", "residual_components": m_res, "weight": wkind, "param_batch": list(pk),
                       "batch_rows": 1}
                site = {"ODE": "jinns.loss._LossODE:LossODE.evaluate", "statio_PDE": "jinns.loss._LossPDE:LossPDEStatio.evaluate",
                        "nonstatio_PDE": "jinns.loss._LossPDE:LossPDENonStatio.evaluate"}[eq_type]

                def go(eq_type=eq_type, m_res=m_res, wkind=wkind, pk=pk):
                    with unit_axes("B"):
                        S = SingleLoss(E, eq_type, 'PINN', d=2, m_u=2 if m_res > 1 else 1, m_res=m_res, terms=('dyn',), wkind=wkind)
                        total, terms = S.evaluate(param_keys=pk)
                        found = canon(scalar_of(terms['dyn_loss'], 'dyn_loss'))
                        exp = canon(scalar_of(S.expected_dyn(pk), 'spec'))
                    if found != exp:
                        raise Violation("dyn_loss", str(found), str(exp))
                    return f"dyn_loss = {found}"
                chk.run("C03.R1", site + "->dynamic_loss_apply", cfg, go, construct="dyn_loss formula (single-row batch)")

    # the weight is the one in the loss's public `loss_weights` field when the loss is evaluated (a loss whose weights were
    # replaced after construction, eqx.tree_at-style, uses the new ones: nothing derived from them is kept from construction)
    for eq_type in ('ODE', 'statio_PDE', 'nonstatio_PDE'):
        for kind in (('PINN',) if eq_type == 'ODE' else ('PINN', 'SPINN')):
            cfg = {"loss": eq_type, "net": kind, "residual_components": 2, "weight": "vector", "param_batch": [],
                   "loss_weights": "replaced after construction"}
            site = {"ODE": "jinns.loss._LossODE:LossODE.evaluate", "statio_PDE": "jinns.loss._LossPDE:LossPDEStatio.evaluate",
                    "nonstatio_PDE": "jinns.loss._LossPDE:LossPDENonStatio.evaluate"}[eq_type]

            def go(eq_type=eq_type, kind=kind):
                S = SingleLoss(E, eq_type, kind, d=2, m_u=2, m_res=2, terms=('dyn',), wkind='vector').replace_weights()
                total, terms = S.evaluate()
                found = canon(scalar_of(terms['dyn_loss'], 'dyn_loss'))
                exp = canon(scalar_of(S.expected_dyn(()), 'spec'))
                if found != exp:
                    raise Violation("dyn_loss", str(found), str(exp))
                return f"dyn_loss = {found}"
            chk.run("C03.R1", site + "->dynamic_loss_apply", cfg, go, construct="dyn_loss formula (weights replaced after construction)")

    # an equation returning a scalar (float) residual per point - the documented return kind of `equation`
    for eq_type, kind in (('ODE', 'PINN'), ('statio_PDE', 'PINN'), ('nonstatio_PDE', 'PINN'), ('statio_PDE', 'SPINN'),
                          ('nonstatio_PDE', 'SPINN')):
        for pk in (((), ('nu',)) if kind == 'PINN' else ((),)):
            cfg = {"loss": eq_type, "net": kind, "residual": "scalar (0-d)", "weight": "scalar", "param_batch": list(pk)}
            site = {"ODE": "jinns.loss._LossODE:LossODE.evaluate", "statio_PDE": "jinns.loss._LossPDE:LossPDEStatio.evaluate",
                    "nonstatio_PDE": "jinns.loss._LossPDE:LossPDENonStatio.evaluate"}[eq_type]

            def go(eq_type=eq_type, pk=pk, kind=kind):
                dyn = E.user_dynamic_loss(eq_type, 1, scalar=True)
                S = SingleLoss(E, eq_type, kind, d=2, m_u=1, m_res=1, terms=('dyn',), dyn=dyn)
                total, terms = S.evaluate(param_keys=pk)
                found = canon(scalar_of(terms['dyn_loss'], 'dyn_loss'))
                ref = SingleLoss(E, eq_type, kind, d=2, m_u=1, m_res=1, terms=('dyn',))
                exp = canon(scalar_of(ref.expected_dyn(pk), 'spec'))
                if found != exp:
                    raise Violation("dyn_loss", str(found), str(exp))
                return f"dyn_loss = {found}"
            chk.run("C03.R1", site + "->dynamic_loss_apply", cfg, go, construct="dyn_loss formula (scalar residual)")

    # an equation whose dynamic loss declares a heterogeneous parameter: the residual is evaluated with that parameter
    # replaced by the value of the user's function at the row's point (the parameters "the equation is given")
    # (first a map over the same keys that declares nothing - every entry None - : the equation gets the parameters as they are;
    # evaluated before the maps that do declare a function, in the same interpreter state, so that anything remembered per set of
    # keys shows in the obligations that follow)
    for eq_type in ('ODE', 'statio_PDE', 'nonstatio_PDE'):
        cfg = {"loss": eq_type, "net": "PINN", "residual_components": 2, "weight": "vector", "param_batch": [],
               "heterogeneity_map": "{nu: None, th: None}"}
        site = {"ODE": "jinns.loss._LossODE:LossODE.evaluate", "statio_PDE": "jinns.loss._LossPDE:LossPDEStatio.evaluate",
                "nonstatio_PDE": "jinns.loss._LossPDE:LossPDENonStatio.evaluate"}[eq_type]

        def go(eq_type=eq_type):
            dyn = E.user_dynamic_loss(eq_type, 2, heterogeneity={'nu': None, 'th': None})
            S = SingleLoss(E, eq_type, 'PINN', d=2, m_u=2, m_res=2, terms=('dyn',), wkind='vector', eq_keys=('nu', 'th'), dyn=dyn)
            total, terms = S.evaluate()
            found = canon(scalar_of(terms['dyn_loss'], 'dyn_loss'))
            exp = canon(scalar_of(S.expected_dyn(()), 'spec'))
            if found != exp:
                raise Violation("dyn_loss", str(found), str(exp))
            return f"dyn_loss = {found}"
        chk.run("C03.R1", site + "->dynamic_loss_apply", cfg, go, construct="dyn_loss formula (heterogeneity map declaring nothing)")

    for eq_type in ('ODE', 'statio_PDE', 'nonstatio_PDE'):
        for pk, omit in (((), False), (('th',), False), ((), True)):
            cfg = {"loss": eq_type, "net": "PINN", "residual_components": 2, "weight": "vector", "param_batch": list(pk),
                   "heterogeneous_parameter": "nu", "other_key": "omitted from the map" if omit else "mapped to None"}
            site = {"ODE": "jinns.loss._LossODE:LossODE.evaluate", "statio_PDE": "jinns.loss._LossPDE:LossPDEStatio.evaluate",
                    "nonstatio_PDE": "jinns.loss._LossPDE:LossPDENonStatio.evaluate"}[eq_type]

            def go(eq_type=eq_type, pk=pk, omit=omit):
                from ..lossenv import user_fn, row_point, row_params, weighted_sq_sum, mean_over, prepend
                h = user_fn('h_nu', 1, 'scalar0d')

                def het_fn(*a, eq_type=eq_type):
                    # the user's function is documented as f(t, x, u, params) / f(x, u, params) / f(t, u, params): check the roles
                    pts_ = a[:-2]
                    want = {'ODE': ('T',), 'statio_PDE': ('X',), 'nonstatio_PDE': ('T', 'X')}[eq_type]
                    if len(pts_) != len(want):
                        raise Finding(f"heterogeneity function called with {len(pts_)} point argument(s), documented: {want}")
                    for p_, tag in zip(pts_, want):
                        tags = {at_[0] for e_ in to_at(p_).entries() for at_ in e_.atoms()}
                        if tags != {tag}:
                            raise Finding(f"heterogeneity function called with a {sorted(tags)} argument where the "
                                          f"{'time' if tag == 'T' else 'space point'} is documented (argument order (t, x, u, params))")
                    return h(*pts_)
                het = {'nu': het_fn} if omit else {'nu': het_fn, 'th': None}
                dyn = E.user_dynamic_loss(eq_type, 2, heterogeneity=het)
                S = SingleLoss(E, eq_type, 'PINN', d=2, m_u=2, m_res=2, terms=('dyn',), wkind='vector', eq_keys=('nu', 'th'), dyn=dyn)
                total, terms = S.evaluate(param_keys=pk)
                found = canon(scalar_of(terms['dyn_loss'], 'dyn_loss'))
                pts = row_point(eq_type, 2)
                rp = row_params(E, S.params, pk)
                eq = dict(rp.fields['eq_params'])
                eq['nu'] = h(*pts)
                R = dyn.fields['equation'](*pts, S.u, rp.replace_fields({'eq_params': eq}))
                exp = canon(scalar_of(mean_over(("B",), prepend(weighted_sq_sum(S.w['dyn_loss'], R), "B")), 'spec'))
                if found != exp:
                    raise Violation("dyn_loss", str(found), str(exp))
                return f"dyn_loss = {found}"
            chk.run("C03.R1", site + "->dynamic_loss_apply", cfg, go, construct="dyn_loss formula (heterogeneous parameter)")

    # the dynamic term must not depend on the observation part of the batch (observed parameters belong to the
    # observation term only)
    for eq_type in ('ODE', 'statio_PDE', 'nonstatio_PDE'):
        cfg = {"loss": eq_type, "net": "PINN", "residual_components": 2, "weight": "vector", "param_batch": [],
               "observations_with_observed_parameter": "nu"}
        site = {"ODE": "jinns.loss._LossODE:LossODE.evaluate", "statio_PDE": "jinns.loss._LossPDE:LossPDEStatio.evaluate",
                "nonstatio_PDE": "jinns.loss._LossPDE:LossPDENonStatio.evaluate"}[eq_type]

        def go(eq_type=eq_type):
            S = SingleLoss(E, eq_type, 'PINN', d=2, m_u=2, m_res=2, terms=('dyn', 'obs'), wkind='vector')
            total, terms = S.evaluate(observed_params=('nu',))
            found = canon(scalar_of(terms['dyn_loss'], 'dyn_loss'))
            exp = canon(scalar_of(S.expected_dyn(()), 'spec'))
            if found != exp:
                raise Violation("dyn_loss", str(found), str(exp))
            return f"dyn_loss = {found}"
        chk.run("C03.R1", site + "->dynamic_loss_apply", cfg, go, construct="dyn_loss formula (batch with observed parameters)")

    # a weight of exactly zero (Python 0 / 0.0 given at construction) switches its term off: the weight is used as given
    for eq_type, names in (('ODE', ('dyn', 'ic', 'obs')), ('statio_PDE', ('dyn', 'norm', 'bc', 'obs')),
                           ('nonstatio_PDE', ('dyn', 'norm', 'bc', 'obs', 'ic'))):
        for zero in (0, 0.0):
            cfg = {"loss": eq_type, "net": "PINN", "configured": list(names), "every_weight": repr(zero)}
            site = {"ODE": "jinns.loss._LossODE:LossODE.evaluate", "statio_PDE": "jinns.loss._LossPDE:LossPDEStatio.evaluate",
                    "nonstatio_PDE": "jinns.loss._LossPDE:LossPDENonStatio.evaluate"}[eq_type]

            def go(eq_type=eq_type, names=names, zero=zero):
                S = SingleLoss(E, eq_type, 'PINN', d=2, m_u=1, m_res=1, terms=names, weight_value=zero)
                total, terms = S.evaluate()
                for k, v in terms.items():
                    if not scalar_of(v, k).is_zero():
                        raise Violation(k, f"{k} = {canon(scalar_of(v, k))} with a weight of {zero!r}", "0")
                if not scalar_of(total, 'total').is_zero():
                    raise Violation("total", str(canon(scalar_of(total, 'total'))), "0")
                return "every term and the total are 0"
            chk.run("C03.R3", site, cfg, go, construct="zero weights")

    # R2 / R3: subsets of configured terms
    all_terms = {'ODE': ('dyn', 'ic', 'obs'), 'statio_PDE': ('dyn', 'norm', 'bc', 'obs'),
                 'nonstatio_PDE': ('dyn', 'norm', 'bc', 'obs', 'ic')}
    key_of = {'dyn': 'dyn_loss', 'ic': 'initial_condition', 'obs': 'observations', 'norm': 'norm_loss', 'bc': 'boundary_loss'}
    for eq_type, names in all_terms.items():
        subsets = []
        if thorough:
            for r in range(len(names) + 1):
                subsets += list(itertools.combinations(names, r))
        else:
            subsets = [(), names] + [(n,) for n in names] + [tuple(x for x in names if x != n) for n in names]
        kinds = ('PINN',) if (eq_type == 'ODE') else (('PINN', 'SPINN') if thorough else ('PINN',))
        site = {"ODE": "jinns.loss._LossODE:LossODE.evaluate", "statio_PDE": "jinns.loss._LossPDE:LossPDEStatio.evaluate",
                "nonstatio_PDE": "jinns.loss._LossPDE:LossPDENonStatio.evaluate"}[eq_type]
        for kind in kinds:
            for sub in subsets:
                if kind == 'SPINN' and 'obs' in sub:
                    continue   # observations are documented as not implemented for SPINN
                cfg = {"loss": eq_type, "net": kind, "configured": list(sub)}
                cache = {}

                def ev(eq_type=eq_type, kind=kind, sub=sub, cache=cache):
                    if 'r' not in cache:
                        S = SingleLoss(E, eq_type, kind, d=2, m_u=1, m_res=1, terms=sub)
                        cache['r'] = S.evaluate()
                    return cache['r']

                def go_sum(ev=ev):
                    total, terms = ev()
                    t = scalar_of(total, 'total')
                    s = Poly()
                    for k, v in terms.items():
                        s = s + scalar_of(v, k)
                    if canon(t) != canon(s):
                        raise Violation("total", f"total - sum(terms) = {canon(t) - canon(s)}", "0")
                    return f"total == sum of {sorted(terms)}"
                chk.run("C03.R2", site, cfg, go_sum, construct="total == sum(terms)")

                def go_zero(ev=ev, sub=sub, names=names):
                    total, terms = ev()
                    for n in names:
                        if n in sub:
                            continue
                        k = key_of[n]
                        if k not in terms:
                            raise Violation(k, "term missing from the returned dictionary", "an entry equal to zero")
                        v = scalar_of(terms[k], k)
                        if not v.is_zero():
                            raise Violation(k, f"{k} = {canon(v)} although it is not configured", "0")
                    # terms of other loss kinds that the dictionary reports for compatibility must be zero as well
                    for k, v in terms.items():
                        if k not in [key_of[n] for n in names]:
                            if not scalar_of(v, k).is_zero():
                                raise Violation(k, f"{k} = {v} for a loss kind without that term", "0")
                    return "unconfigured terms are 0"
                chk.run("C03.R3", site, cfg, go_zero, construct="unconfigured term == 0")

    # parameters without equation parameters (an empty dict)
    for eq_type, names in all_terms.items():
        site = {"ODE": "jinns.loss._LossODE:LossODE.evaluate", "statio_PDE": "jinns.loss._LossPDE:LossPDEStatio.evaluate",
                "nonstatio_PDE": "jinns.loss._LossPDE:LossPDENonStatio.evaluate"}[eq_type]
        # (`eq_params=None`, the declared default of Params, is not a supported value: several helpers call
        # `.keys()` / `.items()` on it; see DESIGN section 6)
        for label, eqv in (("{}", {}),):
            cfg = {"loss": eq_type, "net": "PINN", "configured": list(names), "eq_params": label}

            def go_noeq(eq_type=eq_type, names=names, eqv=eqv):
                from ..alg import NNLabel
                p = E.Params.make(nn_params=NNLabel('u'), eq_params=eqv)
                S = SingleLoss(E, eq_type, 'PINN', d=2, m_u=1, m_res=1, terms=names, eq_keys=(), params=p)
                total, terms = S.evaluate()
                t = scalar_of(total, 'total')
                s = Poly()
                for k, v in terms.items():
                    s = s + scalar_of(v, k)
                if canon(t) != canon(s):
                    raise Violation("total", f"total - sum(terms) = {canon(t) - canon(s)}", "0")
                found = canon(scalar_of(terms['dyn_loss'], 'dyn_loss'))
                exp = canon(scalar_of(S.expected_dyn(()), 'spec'))
                if found != exp:
                    raise Violation("dyn_loss", str(found), str(exp))
                return f"total == sum of {sorted(terms)}; dyn_loss = {found}"
            chk.run("C03.R2", site, cfg, go_noeq, construct="total == sum(terms) without equation parameters")
