"""C08 - collocation points lie in the declared domain, with declared counts and shapes.

Abstract interpretation of the generators' sampling code with a *semantic* model of jax.random.uniform (a tensor whose
entries are the atom uniform[key](lo, hi), with one named axis per symbolic count):
 R1 time / interior samplers: requested count, every coordinate i drawn in [min_i, max_i] of the SAME axis;
 R2 border sampler: facet k (last axis, order xmin, xmax, ymin, ymax) pins coordinate k//2 to its own min (k even) /
    max (k odd) and draws the other coordinate in that coordinate's own range; 1-D border is [xmin, xmax], served
    with shape (1, 1, 2);
 R3 the stores built by generate_data / generate_time_data have the requested counts (nt, n, nb // (2 dim) rows per facet);
 R4 grid method: the regular grid starts at the lower bound, stays below the upper bound and its step gives the
    requested count; the float-step `arange(a, b, (b - a) / n)` idiom does not guarantee that count (finding);
 R5 batches are dynamic slices of the (permuted) store with the declared batch shape, so membership in the domain is
    inherited from R1-R4.
"""
from __future__ import annotations
import numpy as np

from ..alg import Poly, AT, Sym, K, to_at, Top, Finding
from ..genenv import GenEnv, walk_sym, MOD
from ..report import Violation, Inconclusive


def draw_of(p):
    """(lo, hi) if polynomial p is a single uniform draw, ('const', value) if it has no random atom"""
    a = p.single_atom()
    if a is not None and a[0] == 'R':
        return ('draw', a[2], a[3])
    if not any(x[0] == 'R' for x in p.atoms()):
        return ('const', p)
    return ('other', p)


def same_num(a, b):
    from ..alg import lift
    return lift(a) == lift(b)


def draw_range(p):
    """(min, max) of a polynomial that is affine in exactly one uniform draw R in [lo0, hi0] with a coefficient that does not
    depend on other draws: (p[R := lo0], p[R := hi0]); None when p is not of that form"""
    from ..alg import Poly, lift
    p = lift(p)
    rs = [a for a in p.atoms() if a[0] == 'R']
    if len(set(rs)) != 1:
        return None
    r = rs[0]

    def subst(val):
        out = Poly()
        for mono, c in p.t.items():
            term = Poly.const(c)
            for a, e in mono:
                if a == r:
                    if e != 1:
                        return None
                    term = term * lift(val)
                else:
                    term = term * Poly({((a, e),): 1})
            out = out + term
        return out
    a, b = subst(r[2]), subst(r[3])
    if a is None or b is None:
        return None
    return a, b


def expect_draw(p, lo, hi, what):
    """p is uniformly distributed on exactly [lo, hi]: a draw with these bounds, or an affine image lo + (hi - lo) * U(0, 1) etc."""
    from ..alg import lift
    rg = draw_range(p)
    if rg is None or {str(rg[0]), str(rg[1])} != {str(lift(lo)), str(lift(hi))}:
        raise Violation(what, f"{what} is {p}" + (f" (ranging over [{rg[0]}, {rg[1]}])" if rg else ""), f"a uniform draw in [{lo}, {hi}]")


def expect_axes(v, axes, what):
    v = to_at(v)
    if tuple(v.axes) != tuple(axes):
        raise Violation(what + " shape", f"axes {v.axes}", f"axes {tuple(axes)}")
    return v


def run(chk):
    G = GenEnv(chk.repo)
    chk.files = G.w.files
    thorough = chk.full
    chk.rule("C08.R1", "samplers draw the requested number of points, coordinate i in [min_i, max_i] of its own axis", floor=8)
    chk.rule("C08.R2", "border facets: pinned coordinate and side per facet (xmin, xmax, ymin, ymax), free coordinate in its own "
                       "range; 1-D border is the pair of end points served as (1, 1, 2)", floor=3)
    chk.rule("C08.R3", "stores have the requested counts and shapes", floor=5)
    chk.rule("C08.R4", "grid method: start at the lower bound, step giving the requested count (float-step arange is a finding)", floor=5)
    chk.rule("C08.R5", "batches are dynamic slices of the store with the declared batch shape", floor=5)
    chk.rule("C08.R6", "space-time batches of the non-stationary generator: column 0 holds the times of the time batch, the other "
                       "columns the coordinates of the spatial / border batch of the same facet (every entry stays in its own "
                       "interval); rows are the declared product / pairing", floor=8)
    from .C14 import spacetime_batch_obligations
    for cfg, go, construct in spacetime_batch_obligations(G):
        chk.run("C08.R6", f"{MOD}:CubicMeshPDENonStatio.get_batch", cfg, go, construct=construct)
    k = Sym('k')
    keys = tuple(Sym(f'k{i}') for i in range(4))

    # ---------------- R1
    for name, gen in (("DataGeneratorODE", G.ode()), ("CubicMeshPDENonStatio", G.nonstatio(2))):
        for cnt, label in ((None, 'nt'), (K('m'), 'm')):
            def go(gen=gen, cnt=cnt, label=label):
                v = gen.sample_in_time_domain(k) if cnt is None else gen.sample_in_time_domain(k, cnt)
                v = expect_axes(v, (label,), "time sample")
                expect_draw(v.data[()], K('tmin'), K('tmax'), "time sample")
                return f"{label} draws in [tmin, tmax]"
            chk.run("C08.R1", f"{MOD}:{name}.sample_in_time_domain", {"count": label}, go, construct="time sampler")
    for d in ((1, 2, 3) if thorough else (1, 2)):
        for cnt, label in ((None, 'n'), (K('m'), 'm')):
            def go(d=d, cnt=cnt, label=label):
                gen = G.statio(d, border=False)
                kk = k if d == 1 else keys[:d]
                v = gen.sample_in_omega_domain(kk) if cnt is None else gen.sample_in_omega_domain(kk, cnt)
                v = expect_axes(v, (label, d), "interior sample")
                for i in range(d):
                    expect_draw(v.data[i], K(f'min{i}'), K(f'max{i}'), f"coordinate {i}")
                return f"{label} points, coordinate i in [min_i, max_i]"
            chk.run("C08.R1", f"{MOD}:CubicMeshPDEStatio.sample_in_omega_domain", {"dim": d, "count": label}, go,
                    construct="interior sampler")

    # ---------------- R2
    def go_border2():
        gen = G.statio(2)
        v = gen.sample_in_omega_border_domain(keys)
        v = to_at(v)
        if len(v.axes) != 3 or tuple(v.axes[1:]) != (2, 4):
            raise Violation("border shape", f"axes {v.axes}", "(rows per facet, 2, 4)")
        rows = v.axes[0]
        if rows != str(K('nb') // 4):
            raise Violation("border rows", f"{rows} rows per facet", f"{K('nb') // 4} (= nb // (2 dim))")
        for f in range(4):
            c_pin, side = f // 2, ('min' if f % 2 == 0 else 'max')
            c_free = 1 - c_pin
            pin = v.data[c_pin, f]
            kind = draw_of(pin)
            if kind[0] != 'const' or not same_num(pin, K(f'{side}{c_pin}')):
                raise Violation(f"facet {f}", f"coordinate {c_pin} of facet {f} is {pin}", f"pinned to {side}{c_pin}")
            expect_draw(v.data[c_free, f], K(f'min{c_free}'), K(f'max{c_free}'), f"free coordinate {c_free} of facet {f}")
        return "facets xmin, xmax, ymin, ymax: pinned side and free range correct"
    chk.run("C08.R2", f"{MOD}:CubicMeshPDEStatio.sample_in_omega_border_domain", {"dim": 2}, go_border2, construct="2-D border facets")

    def go_border1():
        gen = G.statio(1)
        v = to_at(gen.sample_in_omega_border_domain(None))
        if tuple(v.axes) != (2,) or not same_num(v.data[0], K('min0')) or not same_num(v.data[1], K('max0')):
            raise Violation("1-D border", repr(v), "[xmin, xmax]")
        return "[xmin, xmax]"
    chk.run("C08.R2", f"{MOD}:CubicMeshPDEStatio.sample_in_omega_border_domain", {"dim": 1}, go_border1, construct="1-D border")

    for cname, mk in (("CubicMeshPDEStatio", lambda: G.statio(1)), ("CubicMeshPDENonStatio", lambda: G.nonstatio(1))):
        def go_bb1(mk=mk):
            gen = freeze_gen(mk())
            new, b = gen.border_batch()
            b = to_at(b)
            if tuple(b.axes) != (1, 1, 2) or not same_num(b.data[0, 0, 0], K('min0')) or not same_num(b.data[0, 0, 1], K('max0')):
                raise Violation("1-D border batch", repr(b), "shape (1, 1, 2) holding [xmin, xmax]")
            return "shape (1,1,2) = [[[xmin, xmax]]]"
        chk.run("C08.R2", f"{MOD}:{cname}.border_batch", {"dim": 1}, go_bb1, construct="1-D border batch")

    # ---------------- R3
    def go_times(cname, mk):
        def go():
            key, times = mk().generate_time_data(Sym('k0'))
            v = expect_axes(times, ('nt',), "times store")
            expect_draw(v.data[()], K('tmin'), K('tmax'), "times")
            return "nt times in [tmin, tmax]"
        return go
    chk.run("C08.R3", f"{MOD}:DataGeneratorODE.generate_time_data", {"method": "uniform"}, go_times("ODE", G.ode), construct="times store")
    chk.run("C08.R3", f"{MOD}:CubicMeshPDENonStatio.generate_time_data", {"method": "uniform"},
            go_times("NonStatio", lambda: G.nonstatio(2)), construct="times store")
    for d in (1, 2) + ((3,) if thorough else ()):
        def go(d=d):
            gen = G.statio(d, border=(d <= 2))
            key, omega, border = gen.generate_data(Sym('kk'))
            v = expect_axes(omega, ('n', d), "omega store")
            for i in range(d):
                expect_draw(v.data[i], K(f'min{i}'), K(f'max{i}'), f"coordinate {i}")
            if d == 2:
                b = to_at(border)
                if tuple(b.axes) != (str(K('nb') // 4), 2, 4):
                    raise Violation("border store", f"axes {b.axes}", f"({K('nb') // 4}, 2, 4)")
            if d == 1:
                b = to_at(border)
                if tuple(b.axes) != (2,):
                    raise Violation("border store", f"axes {b.axes}", "(2,)")
            return "n interior points in the box; border store shape as declared"
        chk.run("C08.R3", f"{MOD}:CubicMeshPDEStatio.generate_data", {"method": "uniform", "dim": d}, go, construct="omega store")

    def go_param():
        gen = G.param()
        keys_, samples = gen.generate_data({'nu': Sym('a'), 'th': Sym('b')})
        for kk in ('nu', 'th'):
            v = expect_axes(samples[kk], ('n_p', 1), f"samples[{kk}]")
            expect_draw(v.data[0], K(f'{kk}_lo'), K(f'{kk}_hi'), f"samples[{kk}]")
        return "n_p samples per key in the key's own range"
    chk.run("C08.R3", f"{MOD}:DataGeneratorParameter.generate_data", {"method": "uniform"}, go_param, construct="parameter samples")

    # ---------------- R3b generators built through their constructors (concrete sizes)
    # (the constructor must reject nb % (2 dim) != 0)
    def go_ctor_reject():
        from ..interp import AbstractRaise
        try:
            G.cls("CubicMeshPDEStatio")(key=Sym('key'), n=64, nb=50, omega_batch_size=5, omega_border_batch_size=3, dim=2,
                                        min_pts=(K('min0'), K('min1')), max_pts=(K('max0'), K('max1')))
        except AbstractRaise as ar:
            if isinstance(ar.exc, ValueError):
                return "nb not a multiple of 2 dim is rejected"
            raise
        raise Violation("nb", "nb = 50 accepted for dim = 2", "ValueError (nb must be a multiple of the number of facets)")
    chk.run("C08.R3", f"{MOD}:CubicMeshPDEStatio.__post_init__", {"nb": 50, "dim": 2}, go_ctor_reject, construct="nb validation")

    def go_ctor_shapes():
        key = Sym('key')
        ode = G.cls("DataGeneratorODE")(key, 60, K('tmin'), K('tmax'), 7)
        expect_axes(ode.fields['times'], (60,), "DataGeneratorODE.times")
        for cname, extra in (("CubicMeshPDEStatio", {}), ("CubicMeshPDENonStatio", dict(temporal_batch_size=7, tmin=K('tmin'), tmax=K('tmax'), nt=40))):
            g2 = G.cls(cname)(key=key, n=64, nb=48, omega_batch_size=5, omega_border_batch_size=3, dim=2,
                              min_pts=(K('min0'), K('min1')), max_pts=(K('max0'), K('max1')), **extra)
            expect_axes(g2.fields['omega'], (64, 2), f"{cname}.omega")
            expect_axes(g2.fields['omega_border'], (12, 2, 4), f"{cname}.omega_border")
            if int(g2.fields['nb']) != 48:
                raise Violation(f"{cname}.nb", str(g2.fields['nb']), "48")
            g1 = G.cls(cname)(key=key, n=30, nb=7, omega_batch_size=5, omega_border_batch_size=3, dim=1,
                              min_pts=(K('min0'),), max_pts=(K('max0'),), **extra)
            expect_axes(g1.fields['omega'], (30, 1), f"{cname}.omega (1D)")
            expect_axes(g1.fields['omega_border'], (2,), f"{cname}.omega_border (1D)")
            if int(g1.fields['nb']) != 2 or int(g1.fields['omega_border_batch_size']) != 2:
                raise Violation(f"{cname} 1D border sizes", f"nb={g1.fields['nb']} batch={g1.fields['omega_border_batch_size']}", "2 and 2")
            g0 = G.cls(cname)(key=key, n=30, nb=None, omega_batch_size=5, omega_border_batch_size=None, dim=2,
                              min_pts=(K('min0'), K('min1')), max_pts=(K('max0'), K('max1')), **extra)
            if g0.fields['omega_border'] is not None:
                raise Violation(f"{cname} without border", str(g0.fields['omega_border'])[:80], "None")
            if extra:
                expect_axes(g2.fields['times'], (40,), f"{cname}.times")
        pa = G.cls("DataGeneratorParameter")(key, 36, 4, {"nu": (K('lo'), K('hi'))})
        expect_axes(pa.fields['param_n_samples']['nu'], (36, 1), "DataGeneratorParameter samples")
        return "stores built by the constructors have the requested counts and shapes"
    chk.run("C08.R3", f"{MOD}:__post_init__ of the generators", {}, go_ctor_shapes, construct="constructor store shapes")

    # bounds that are zero are bounds: a time interval ending at 0, a box with 0 among its corners (the constructors keep the
    # values they were given)
    def go_ctor_zero_bounds():
        key = Sym('key')
        ode = G.cls("DataGeneratorODE")(key, 60, -2.0, 0.0, 7)
        for f_, want in (('tmin', -2.0), ('tmax', 0.0)):
            if ode.fields[f_] != want:
                raise Violation(f"DataGeneratorODE.{f_}", f"{f_} = {ode.fields[f_]} after construction with {want}", str(want))
        g = G.cls("CubicMeshPDENonStatio")(key=key, n=64, nb=48, omega_batch_size=5, omega_border_batch_size=3, dim=2,
                                            min_pts=(0.0, -1.0), max_pts=(1.0, 0.0), temporal_batch_size=7, tmin=-2.0, tmax=0.0, nt=40)
        for f_, want in (('tmin', -2.0), ('tmax', 0.0)):
            if g.fields[f_] != want:
                raise Violation(f"CubicMeshPDENonStatio.{f_}", f"{f_} = {g.fields[f_]} after construction with {want}", str(want))
        for f_, want in (('min_pts', (0.0, -1.0)), ('max_pts', (1.0, 0.0))):
            got = tuple(float(x) for x in g.fields[f_])
            if got != want:
                raise Violation(f"CubicMeshPDENonStatio.{f_}", f"{f_} = {got}", str(want))
        return "tmin, tmax, min_pts, max_pts kept as given (zeros included)"
    chk.run("C08.R3", f"{MOD}:__post_init__ of the generators", {"bounds": "tmax = 0, zeros among the corners"}, go_ctor_zero_bounds,
            construct="constructor keeps zero bounds")

    # ---------------- R4 grid
    # (a) symbolic counts: the only thing read off the term is a float-step `arange(lower, upper, step)` over a domain axis, whose
    #     number of points is not guaranteed; every other way of writing a grid is left to the concrete tables of (b)
    def float_step_rule(value, lo, hi, count, what):
        from ..alg import lift
        nodes = []
        walk_sym(value, lambda s_: nodes.append(s_) if (s_.op == 'arange' and len(s_.args) == 3) else None)
        hits = 0
        for nd in nodes:
            a, b, st = (lift(x) for x in nd.args)
            if not any(a == lift(l) and b == lift(h) for l, h in zip(lo, hi)):
                continue
            hits += 1
            if (st * lift(count)) != (b - a):
                raise Violation(what + " count", f"step {st} gives ({b - a})/({st}) points", f"{count} points (step (upper-lower)/{count})")
            raise Violation("float-step arange", f"{nd}: the number of points of arange with a float step is not guaranteed "
                            f"(e.g. arange(0, 1, 1/49) has 50 points)", f"exactly {count} points for every count and domain")
        return "no float-step arange over a domain axis"

    sites = [
        ("DataGeneratorODE.generate_time_data", lambda: G.ode(method='grid').generate_time_data(Sym('k0'))[1],
         [K('tmin')], [K('tmax')], K('nt')),
        ("CubicMeshPDENonStatio.generate_time_data", lambda: G.nonstatio(2, method='grid').generate_time_data(Sym('k0'))[1],
         [K('tmin')], [K('tmax')], K('nt')),
        ("CubicMeshPDEStatio.generate_data[1D]", lambda: G.statio(1, method='grid').generate_data(Sym('kk'))[1],
         [K('min0')], [K('max0')], K('n')),
        ("CubicMeshPDEStatio.generate_data[2D]", lambda: G.statio(2, method='grid').generate_data(Sym('kk'))[1],
         [K('min0'), K('min1')], [K('max0'), K('max1')], Sym('sqrt', K('n'))),
        ("DataGeneratorParameter.generate_data", lambda: G.param(keys=('nu',), method='grid').generate_data({'nu': Sym('a')})[1]['nu'],
         [K('nu_lo')], [K('nu_hi')], K('n_p')),
    ]
    for name, mk, lo, hi, count in sites:
        chk.run("C08.R4", f"{MOD}:{name}", {"method": "grid", "count": "symbolic"},
                (lambda mk=mk, lo=lo, hi=hi, count=count, name=name: float_step_rule(mk(), lo, hi, count, name)), construct=f"grid {name}")

    # (b) concrete small counts, generators built by their constructors: with a concrete count linspace / arange are the vectors of
    #     their points as polynomials in the bounds, so the store is a concrete table that must hold exactly the points
    #     lower + (upper - lower) k / m, k = 0..m-1 (first point = lower bound, all below the upper bound, exact count),
    #     however the grid is written
    from fractions import Fraction as _Fr
    from ..alg import lift as _lift

    def convex_coef(p_, lo, hi):
        """c such that p == (1 - c) * lo + c * hi, or None"""
        lo, hi = _lift(lo), _lift(hi)
        la, ha = lo.single_atom(), hi.single_atom()
        if la is None or ha is None:
            return None
        ka, kb = ((la, 1),), ((ha, 1),)
        t = dict(_lift(p_).t)
        a, b = t.pop(ka, 0), t.pop(kb, 0)
        if t or a + b != 1:
            return None
        return b

    def grid_axis_ok(points, lo, hi, m, what):
        """`points`: the m coordinates of a regular grid of one axis: inside [lo, hi] (a convex combination of the axis' own
        bounds), pairwise distinct, equally spaced - whether or not the upper bound is included"""
        cs = []
        for p_ in points:
            c = convex_coef(p_, lo, hi)
            if c is None or not (0 <= c <= 1):
                raise Violation(what, f"grid point {p_}", f"a point of the closed interval [{lo}, {hi}] of this axis")
            cs.append(c)
        cs = sorted(cs)
        if len(set(cs)) != m:
            raise Violation(what, f"{len(set(cs))} distinct grid points: {[str(c) for c in cs]}", f"{m} distinct points")
        steps = {cs[i + 1] - cs[i] for i in range(len(cs) - 1)}
        if len(steps) > 1:
            raise Violation(what, f"unequal spacing {sorted(str(x) for x in steps)}", "a regular grid")
        return cs

    def expect_1d_grid(v, lo, hi, m, shape, what):
        if isinstance(v, Sym):
            raise Inconclusive(f"{what}: the grid is not built from concrete-count vectors: {str(v)[:160]}")
        v = expect_axes(v, shape, what)
        cs = grid_axis_ok(list(v.entries()), lo, hi, m, what)
        return f"{m} regularly spaced points inside [lower, upper]: lower + (upper - lower) * {[str(c) for c in cs]}"

    def go_ode_grid(m, rar=False):
        kw = dict(rar_parameters=rar_params(), nt_start=m - 2) if rar else {}
        gen = G.cls("DataGeneratorODE")(Sym('key'), m, K('tmin'), K('tmax'), 2, method='grid', **kw)
        return expect_1d_grid(gen.fields['times'], K('tmin'), K('tmax'), m, (m,), "DataGeneratorODE times")

    def go_ns_time_grid(m, rar=False):
        kw = dict(rar_parameters=rar_params(), n_start=2, nt_start=m - 2) if rar else {}
        gen = G.cls("CubicMeshPDENonStatio")(key=Sym('key'), n=4, nb=None, omega_batch_size=2, omega_border_batch_size=None, dim=1,
                                             min_pts=(K('min0'),), max_pts=(K('max0'),), method='grid', temporal_batch_size=2,
                                             tmin=K('tmin'), tmax=K('tmax'), nt=m, **kw)
        a = expect_1d_grid(gen.fields['times'], K('tmin'), K('tmax'), m, (m,), "CubicMeshPDENonStatio times")
        b = expect_1d_grid(gen.fields['omega'], K('min0'), K('max0'), 4, (4, 1), "CubicMeshPDENonStatio omega (1-D)")
        return a + "; " + b

    def go_statio_1d_grid(m, rar=False):
        kw = dict(rar_parameters=rar_params(), n_start=m - 2) if rar else {}
        gen = G.cls("CubicMeshPDEStatio")(key=Sym('key'), n=m, nb=None, omega_batch_size=2, omega_border_batch_size=None, dim=1,
                                          min_pts=(K('min0'),), max_pts=(K('max0'),), method='grid', **kw)
        return expect_1d_grid(gen.fields['omega'], K('min0'), K('max0'), m, (m, 1), "CubicMeshPDEStatio omega (1-D)")

    def go_param_grid(m):
        gen = G.cls("DataGeneratorParameter")(Sym('key'), m, 2, {"nu": (K('nu_lo'), K('nu_hi')), "th": (K('th_lo'), K('th_hi'))}, 'grid')
        msgs = []
        for k_ in ('nu', 'th'):
            msgs.append(expect_1d_grid(gen.fields['param_n_samples'][k_], K(f'{k_}_lo'), K(f'{k_}_hi'), m, (m, 1),
                                       f"DataGeneratorParameter samples[{k_}]"))
        return "; ".join(msgs)
    for m in (4, 5):
        for nm, fn_ in (("DataGeneratorODE.generate_time_data", go_ode_grid), ("CubicMeshPDENonStatio.generate_time_data", go_ns_time_grid),
                        ("CubicMeshPDEStatio.generate_data[1D]", go_statio_1d_grid), ("DataGeneratorParameter.generate_data", go_param_grid)):
            chk.run("C08.R4", f"{MOD}:{nm}", {"method": "grid", "count": m}, (lambda fn_=fn_, m=m: fn_(m)), construct=f"grid table {nm}")
    # with refinement configured the whole pre-allocated store (not only its first start-count entries) is a grid of the domain
    from ..genenv import rar_params
    for nm, fn_ in (("DataGeneratorODE.generate_time_data", go_ode_grid), ("CubicMeshPDENonStatio.generate_time_data", go_ns_time_grid),
                    ("CubicMeshPDEStatio.generate_data[1D]", go_statio_1d_grid)):
        chk.run("C08.R4", f"{MOD}:{nm}", {"method": "grid", "count": 5, "refinement": "configured, start count 3"},
                (lambda fn_=fn_: fn_(5, rar=True)), construct=f"grid table {nm} (RAR)")

    # ---------------- R4 (continued): the assembled grid for dim >= 2, on small concrete counts: linspace with a concrete count is
    # the vector of its points as polynomials in the bounds, so the store is a concrete table whose rows must be exactly the
    # cartesian product of the per-axis grids {min_i + (max_i - min_i) k / m}, each point once, coordinate i in column i
    import itertools
    from fractions import Fraction
    from ..alg import lift

    def go_grid_table(d, m, cname):
        box = dict(min_pts=tuple(K(f'min{i}') for i in range(d)), max_pts=tuple(K(f'max{i}') for i in range(d)))
        n = m ** d
        kw = dict(key=Sym('key'), n=n, nb=None, omega_batch_size=m, omega_border_batch_size=None, dim=d, method='grid', **box)
        if cname == "CubicMeshPDENonStatio":
            kw.update(temporal_batch_size=2, tmin=K('tmin'), tmax=K('tmax'), nt=4)
        gen = G.cls(cname)(**kw)
        om = gen.fields['omega']
        if isinstance(om, Sym):
            raise Inconclusive(f"grid store is not built from concrete-count linspace vectors: {str(om)[:160]}")
        om = expect_axes(om, (n, d), f"{cname} grid store")
        cols = []
        for c in range(d):
            col = [om.data[r, c] for r in range(n)]
            distinct = []
            for p_ in col:
                if not any(p_ == q for q in distinct):
                    distinct.append(p_)
            if len(distinct) != m:
                raise Violation(f"{cname} grid column {c}", f"{len(distinct)} distinct values in column {c}", f"{m} grid values per axis")
            grid_axis_ok(distinct, box['min_pts'][c], box['max_pts'][c], m, f"{cname} grid column {c}")
            cols.append([str(p_) for p_ in col])
        rows = list(zip(*cols))
        if len(set(rows)) != n:
            raise Violation(f"{cname} grid", f"{len(set(rows))} distinct points of {n}",
                            f"every point of the {'x'.join([str(m)] * d)} product grid exactly once")
        return f"{n} stored points == the {'x'.join([str(m)] * d)} product grid, coordinate i in column i"
    for cname in ("CubicMeshPDEStatio", "CubicMeshPDENonStatio"):
        # (counts whose d-th root is not exact in floating point included: 64 ** (1/3) == 3.9999999999999996, 125 ** (1/3) == 4.999...)
        for d, m in ((2, 2), (2, 3), (2, 7), (3, 2), (3, 3), (3, 4), (3, 5), (4, 2), (4, 3)):
            chk.run("C08.R4", f"{MOD}:{cname}.generate_data[{d}D grid table]", {"method": "grid", "dim": d, "points_per_axis": m},
                    (lambda d=d, m=m, cname=cname: go_grid_table(d, m, cname)), construct=f"grid table {cname}")

    # ---------------- R5 batch shapes
    from ..alg import lift

    def slice_of(batch, what):
        if isinstance(batch, Sym) and batch.op == 'take' and not any(isinstance(a, tuple) and a and a[0] == 'mode' for a in batch.args):
            # gathering rows start + arange(b) with jnp.take's DEFAULT out-of-bounds mode ("fill"): when the window passes the end of
            # the store (batch size not dividing the number of rows) the missing rows are NaN, where dynamic_slice shifts the window
            raise Violation("batch rows", f"{what}: rows gathered with jnp.take in its default out-of-bounds mode (rows past the end of "
                            f"the store are filled with NaN): {str(batch)[:160]}", "a window of the store clamped to its end (dynamic_slice)")
        if not (isinstance(batch, Sym) and batch.op == 'dynamic_slice'):
            raise Inconclusive(f"{what}: batch is not a dynamic_slice term: {batch}")
        return batch.args

    def go_shape(mk, method, store_field, sizes):
        def go():
            gen = freeze_gen(mk())
            new, b = getattr(gen, method)()
            op, start, sz = slice_of(b, method)
            from ..alg import ROWS_REST
            if ROWS_REST in tuple(start) or ROWS_REST in tuple(sz):
                # a window of rows (dynamic_slice_in_dim along axis 0): the other axes are taken in full by construction
                if len(start) != 2 or len(sz) != 2 or lift(sz[0]) != lift(sizes[0]):
                    raise Violation("batch shape", f"a window of {sz[0]} rows", f"{sizes[0]} rows")
                return f"batch = {sizes[0]} rows of the store from the index on"
            want = tuple(lift(x) for x in sizes)
            got = tuple(lift(x) for x in sz)
            if got != want:
                raise Violation("batch shape", f"slice sizes {sz}", f"{sizes}")
            if len(start) != len(sz) or any(lift(x) != 0 for x in start[1:]):
                raise Violation("batch start", f"start indices {start}", "(index, 0, ...)")
            return f"batch = dynamic_slice(store, (idx, 0..), {sizes})"
        return go
    chk.run("C08.R5", f"{MOD}:DataGeneratorODE.temporal_batch", {}, go_shape(G.ode, 'temporal_batch', 'times', (K('bt'),)), construct="temporal batch shape")
    chk.run("C08.R5", f"{MOD}:CubicMeshPDEStatio.inside_batch", {"dim": 2}, go_shape(lambda: G.statio(2), 'inside_batch', 'omega', (K('bx'), 2)), construct="inside batch shape")
    chk.run("C08.R5", f"{MOD}:CubicMeshPDEStatio.inside_batch", {"dim": 1}, go_shape(lambda: G.statio(1), 'inside_batch', 'omega', (K('bx'), 1)), construct="inside batch shape")
    chk.run("C08.R5", f"{MOD}:CubicMeshPDEStatio.border_batch", {"dim": 2}, go_shape(lambda: G.statio(2), 'border_batch', 'omega_border', (K('bb'), 2, 4)), construct="border batch shape")
    chk.run("C08.R5", f"{MOD}:CubicMeshPDENonStatio.temporal_batch", {}, go_shape(lambda: G.nonstatio(2), 'temporal_batch', 'times', (K('bt'),)), construct="temporal batch shape")


def freeze_gen(g):
    from ..interp import freeze
    return freeze(g)
