"""C07 - solve() is observationally the textbook mini-batch training loop (one-iteration wiring).

Symbolic evaluation of `solve` with opaque loss / optimizer / generators / validation module (see _solve_common):
 R1 one iteration carry -> carry' equals the specified step slot by slot: the batch is the NEXT batch of every
    generator (main, parameter, observation - appended to the batch), loss and gradient are taken at the current
    parameters on that batch, updates = optimizer.update(grads, opt_state, params), params' = apply_updates(params,
    updates), histories receive at index i the total, every term and the tracked parameters AFTER the update, the
    advanced generators and the new optimizer state are carried, the counter advances by one;
 R2 the loop continues iff i < n_iter (and no NaN, no early stop): exactly n iterations when nothing stops it;
 R3 the initial carry: iteration 0, params = last = best = init_params, opt_state = the given one or optimizer.init,
    zero histories of length n_iter;
 R4 the nine returned values are the corresponding slots of the final carry.
Not decided: equality of whole histories with a reference loop over all optimisers / programs / resumed runs
(iterating the step is outside this family), and whether the batch drawn before the loop counts as "the next batch".
"""
from __future__ import annotations

from ..alg import Poly, AT, Sym, K, Pred, lift, to_at, Top, Finding
from ..extern import same, fz
from ..interp import Inst
from ..report import Violation, Inconclusive
from ..solveenv import SOLVE, TERM_KEYS
from ._solve_common import SolveAnalysis, compare_step, _norm
from .C09 import first_diff


def configs(thorough):
    out = []
    for validation in (True, False):
        for aux in (True, False):
            out.append(dict(validation=validation, aux=aux))
    out.append(dict(validation=True, aux=True, verbose=False))
    out.append(dict(validation=False, aux=False, verbose=False))
    out.append(dict(validation=False, aux=True, tracked=False))
    return out


def run(chk):
    thorough = chk.full
    chk.rule("C07.R1", "one iteration of the loop == the textbook step, slot by slot", floor=4)
    chk.rule("C07.R2", "continuation predicate: i < n_iter and no NaN in params and not early_stopping", floor=2)
    chk.rule("C07.R3", "initial carry", floor=2)
    chk.rule("C07.R4", "returned values are the corresponding slots of the final carry", floor=2)
    analyses = {}

    def get(cfg_key, **kw):
        if cfg_key not in analyses:
            analyses[cfg_key] = SolveAnalysis(chk.repo, **kw)
            chk.files.update(analyses[cfg_key].E.w.files)
        return analyses[cfg_key]

    for cfg in configs(thorough):
        key = tuple(sorted(cfg.items()))

        def go_step(cfg=cfg, key=key):
            A = get(key, **cfg)
            done = compare_step(A)
            return f"{len(done)} carry slots equal the specified step"
        chk.run("C07.R1", f"{SOLVE}:solve._one_iteration/_gradient_step/_store_loss_and_params/get_batch", cfg, go_step,
                construct="iteration step")

        def go_cont(cfg=cfg, key=key):
            A = get(key, **cfg)
            c, p = A.cont()
            i, _, opt, extra = c[0], c[1], c[2], c[3]
            exp = Pred.conj([Pred.compare(lift(A.n_iter), lift(i), '>'), A.anynan(opt.fields['params']).negate(),
                             Pred('sym', extra.fields['early_stopping']).negate()])
            if p != exp:
                raise Violation("continuation predicate", str(p), str(exp))
            return str(p)
        chk.run("C07.R2", f"{SOLVE}:_get_break_fun.break_fun", cfg, go_cont, construct="continuation predicate")

        def go_ret(cfg=cfg, key=key):
            A = get(key, **cfg)
            g = A.generic
            r = A.result
            if not (isinstance(r, tuple) and len(r) == 9):
                raise Violation("return", f"{type(r).__name__}", "a 9-tuple")
            exp = (g[2].fields['last_non_nan_params'], g[6].fields['train_loss_values'], g[6].fields['stored_loss_terms'],
                   g[4].fields['data'], g[1], g[2].fields['opt_state'], g[7].fields['stored_params'],
                   g[8] if cfg['validation'] else None, g[3].fields['best_val_params'] if cfg['validation'] else None)
            names = ("params (last non-NaN)", "total loss history", "loss term histories", "data generator", "loss",
                     "opt_state", "tracked parameter histories", "validation criterion history", "best validation params")
            for n, f, e in zip(names, r, exp):
                if not same(_norm(f), _norm(e)):
                    raise Violation(f"returned {n}", str(f)[:200], str(e)[:200])
            return "9 returned values come from the final carry"
        chk.run("C07.R4", f"{SOLVE}:solve (return)", cfg, go_ret, construct="returned values")

    for opt_given in (False, True):
        cfg = {"opt_state_given": opt_given}

        def go_init(opt_given=opt_given):
            A = get(('init', opt_given), validation=True, aux=True, opt_state_given=opt_given)
            c = A.rec['init']
            if not (isinstance(c, tuple) and len(c) == 9):
                raise Violation("initial carry", f"{type(c).__name__}", "the 9-slot carry")
            i, loss, opt, extra, td, val, lc, so, crit = c
            if not (isinstance(i, int) and i == 0) and not same(lift(i), Poly.const(0)):
                raise Violation("initial iteration", str(i), "0")
            p0 = A.init_params
            for f in ('params', 'last_non_nan_params'):
                if not same(_norm(opt.fields[f]), _norm(p0)):
                    raise Violation(f"initial {f}", str(opt.fields[f]), "init_params")
            exp_state = Sym('opt_state_in') if opt_given else Sym('opt.init', fz(p0))
            if not same(_norm(opt.fields['opt_state']), _norm(exp_state)):
                raise Violation("initial opt_state", str(opt.fields['opt_state']), str(exp_state))
            if not same(_norm(extra.fields['best_val_params']), _norm(p0)):
                raise Violation("initial best_val_params", str(extra.fields['best_val_params']), "init_params")
            es = extra.fields['early_stopping']
            if es is not False:
                raise Violation("initial early_stopping", str(es), "False")

            def zeros(v, what):
                v = to_at(v)
                if not v.axes or v.axes[0] != 'n_iter' or any(not e.is_zero() for e in v.entries()):
                    raise Violation(what, str(v)[:120], "zeros with n_iter rows")
            zeros(lc.fields['train_loss_values'], "initial total loss history")
            for k in TERM_KEYS:
                zeros(lc.fields['stored_loss_terms'][k], f"initial history of {k}")
            zeros(so.fields['stored_params'].fields['eq_params']['a'], "initial tracked history")
            if so.fields['stored_params'].fields['nn_params'] is not None:
                raise Violation("initial tracked history", "history allocated for the untracked nn_params", "None")
            if so.fields['stored_params'].fields['eq_params'].get('b') is not None:
                raise Violation("initial tracked history", "history allocated for the untracked equation parameter b "
                                                           "(tracked_params = {a: True, b: None})", "None")
            zeros(crit, "initial validation criterion history")
            if not same(loss, A.loss) or val != A.val0:
                raise Violation("initial loss / validation", f"{loss} {val}", "the arguments of solve")
            # the generators entering the loop are the ones given to solve, all advanced by the same number of draws (a
            # draw made before the loop to learn the structure of the loss terms must be applied to every generator, or
            # main and auxiliary batches of one iteration come from different draws)
            from ..solveenv import GenToken
            steps = {}
            for f in ('data', 'param_data', 'obs_data'):
                g = td.fields[f]
                if not isinstance(g, GenToken):
                    raise Violation(f"initial {f}", str(g)[:120], "the generator given to solve")
                steps[f] = (g._name, g._step)
            if len({v[1] for v in steps.values()}) != 1:
                raise Violation("initial generators", "generators enter the loop after different numbers of draws: " +
                                ", ".join(f"{f}: {n}+{k}" for f, (n, k) in steps.items()), "the same number of draws for every generator")
            return "iteration 0, params = last = best = init_params, optimizer state, zero histories of length n_iter"
        chk.run("C07.R3", f"{SOLVE}:solve (initial carry)", cfg, go_init, construct="initial carry")


    # R5: the two batch-drawing variants (jitted / with device_put for sharded observations) draw the same batches
    chk.rule("C07.R5", "the sharding and the jitted get_batch variants advance the same generators and build the same batch", floor=2)
    from ..solveenv import SolveEnv
    from ..extern import OpaqueObj
    for aux in (True, False):
        def go(aux=aux):
            E = SolveEnv(chk.repo)
            ggb = E.m.env.get("_get_get_batch")
            outs = []
            for sh in (None, OpaqueObj('sharding')):
                gb = ggb(sh)
                outs.append(gb(E.data(), E.param_data() if aux else None, E.obs_data() if aux else None))
            a, b = outs
            for n, x, y in zip(("batch", "data", "param_data", "obs_data"), a, b):
                if not same(_norm(x), _norm(y)):
                    raise Violation(f"get_batch variants: {n}", str(y)[:200], str(x)[:200])
            batch, data, pdata, odata = a
            d0 = E.data()
            d1, b0 = d0.get_batch()
            if data != d1 or not same(_norm(batch.fields['temporal_batch']), _norm(b0.fields['temporal_batch'])):
                raise Violation("get_batch: main generator", f"{data} {batch}", f"{d1} and its batch")
            if aux:
                p1, pb = E.param_data().get_batch()
                o1, ob = E.obs_data().get_batch()
                if pdata != p1 or odata != o1:
                    raise Violation("get_batch: auxiliary generators", f"{pdata} {odata}", f"{p1} {o1}")
                if not same(_norm(batch.fields['param_batch_dict']), _norm(pb)) or not same(_norm(batch.fields['obs_batch_dict']), _norm(ob)):
                    raise Violation("get_batch: appended parts", str(batch)[:200], "parameter and observation batches appended")
            else:
                if pdata is not None or odata is not None or batch.fields['param_batch_dict'] is not None:
                    raise Violation("get_batch: absent generators", f"{pdata} {odata}", "None")
            return "same next batches, same advanced generators"
        chk.run("C07.R5", f"{SOLVE}:_get_get_batch", {"aux": aux}, go, construct="get_batch variants")

    run_batch_size_check(chk)

    # R7 solve draws every batch under jit (int32 indices) whereas the reference loop of the property draws eagerly (Python
    # integers): the two agree only if the generators' first draw cannot leave int32
    chk.rule("C07.R7", "the end index compared at the first draw of every generator kind (constructed state) forces a reshuffle "
                       "and stays within int32, so that the jitted draws of solve equal eager draws", floor=10)
    from .C09 import run_first_draw
    run_first_draw(chk, chk.repo, "C07.R7")


def run_batch_size_check(chk):
    """R6: solve() accepts an auxiliary (parameter / observation) generator exactly when its batch size is the number of rows
    of the main generator's batch, for every kind of main generator"""
    from ..genenv import GenEnv
    from ..interp import AbstractRaise
    from ..extern import OpaqueObj
    G = GenEnv(chk.repo)
    chk.files.update(G.w.files)
    chk.rule("C07.R6", "_check_batch_size: an auxiliary generator is accepted iff its batch size equals the number of rows of the "
                       "main batch (times; interior points; times x points for a product; paired rows otherwise)", floor=4)
    try:
        f = G.w.get(SOLVE, "_check_batch_size")
    except Exception as ex:
        chk.run("C07.R6", f"{SOLVE}:_check_batch_size", {}, lambda ex=ex: (_ for _ in ()).throw(Inconclusive(f"_check_batch_size not found: {ex}")))
        return
    mains = {
        "DataGeneratorODE": (lambda: G.ode(temporal_batch_size=6), 6),
        "CubicMeshPDEStatio": (lambda: G.statio(2, omega_batch_size=5), 5),
        "CubicMeshPDENonStatio[cartesian]": (lambda: G.nonstatio(2, cartesian=True, omega_batch_size=5, temporal_batch_size=3), 15),
        "CubicMeshPDENonStatio[paired]": (lambda: G.nonstatio(2, cartesian=False, omega_batch_size=4, temporal_batch_size=4), 4),
    }
    for name, (mk, rows) in mains.items():
        for attr in ("param_batch_size", "obs_batch_size"):
            def go(mk=mk, rows=rows, attr=attr, name=name):
                main = mk()
                ok = OpaqueObj('aux', attrs={attr: rows})
                try:
                    f(ok, main, attr)
                except AbstractRaise as ar:
                    raise Violation(f"{name} / {attr}", f"an auxiliary generator with {attr} = {rows} (the rows of the main batch) is "
                                    f"rejected: {type(ar.exc).__name__}: {str(ar.exc)[:100]}", "accepted")
                for bad in {rows + 1, rows * 2, 1} - {rows}:
                    try:
                        f(OpaqueObj('aux', attrs={attr: bad}), main, attr)
                    except AbstractRaise as ar:
                        if isinstance(ar.exc, ValueError):
                            continue
                        raise
                    raise Violation(f"{name} / {attr}", f"{attr} = {bad} accepted although the main batch has {rows} rows", "ValueError")
                return f"accepted iff {attr} == {rows}"
            chk.run("C07.R6", f"{SOLVE}:_check_batch_size", {"main": name, "attr": attr}, go, construct=f"batch-size agreement[{name}]")
