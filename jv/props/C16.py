"""C16 - residual-adaptive refinement follows its schedule and never exceeds capacity (one-step structure).

Symbolic evaluation of jinns/solver/_rar.py on generators with symbolic state (see _rar_common):
 R1 a step is taken iff  i >= start_iter  and  steps_since_last == update_every - 1  and, for every store the generator
    has, the number of inactive slots (count_nonzero(p == 0)) >= selected size   [no step beyond capacity];
 R2 counters: a step sets rar_iter_nb := J + 1 and the period counter := 0; a non-step adds 0 to the period counter
    while i <= start_iter and 1 afterwards, and changes nothing else;
 R3 activation: after step number J the mask has exactly its first start + (J + 1) * selected entries non-zero
    (the slice written by this step included), for time and for space with their own start / selected sizes;
 R5 trigger_rar applies the step under the R1 predicate and is the identity without rar_parameters;
 R6 constructors: mask = first n_start entries 1 / n_start and zeros elsewhere, period counter update_every - 1,
    step count 0; R7 init_rar keeps that counter, so that the first step happens at start_iter.
From R1-R7 the schedule "steps exactly at start + k * update_every, n_start + J * selected active points, stop at
capacity" follows by induction on the iteration; the induction itself is not mechanised here (history quantifier).
"""
from __future__ import annotations

from ..alg import Poly, AT, Sym, K, Pred, lift, to_at, Top, Finding
from ..extern import same, fz, merge_cond
from ..interp import freeze, Inst
from ..report import Violation, Inconclusive
from ._rar_common import RarSetup, RAR, unchanged_except, check_mask_activation, as_sym, is_sym, S_T, S_X, SEL_T, SEL_X

KINDS = ('ode', 'statio', 'nonstatio')


def run(chk):
    chk.rule("C16.R1", "step predicate: i >= start_iter, period counter == update_every - 1, enough inactive slots in every store", floor=3)
    chk.rule("C16.R2", "counters after a step / a non-step", floor=6)
    chk.rule("C16.R3", "mask activation after step J: first start + (J + 1) * selected entries, per family", floor=4)
    chk.rule("C16.R5", "trigger_rar: cond(step predicate, step, no step); identity without RAR", floor=4)
    chk.rule("C16.R6", "constructor: initial mask, period counter update_every - 1, step count 0; init_rar keeps the counter", floor=5)
    setups = {}

    def S(kind):
        if kind not in setups:
            setups[kind] = RarSetup(chk.repo, kind)
            chk.files.update(setups[kind].w.files)
        return setups[kind]
    i = K('i')

    def free_slots(p):
        return Poly.atom(('S', Sym('count_nonzero', Pred.compare(Poly.atom(('S', Sym(p))), 0, '=='))))

    def expected_pred(kind):
        ps = [Pred.compare(i, K('start_iter'), '>='), Pred.compare(K('update_every') - 1, K('since'), '==')]
        if kind in ('ode', 'nonstatio'):
            ps.append(Pred.compare(free_slots('p_times'), SEL_T, '>='))
        if kind in ('statio', 'nonstatio'):
            ps.append(Pred.compare(free_slots('p_omega'), SEL_X, '>='))
        return Pred.conj(ps)

    for kind in KINDS:
        def go_pred(kind=kind):
            s = S(kind)
            p = s.fn('_proceed_to_rar')(freeze(s.data), i)
            e = expected_pred(kind)
            if p != e:
                raise Violation("step predicate", str(p), str(e))
            return str(p)
        chk.run("C16.R1", f"{RAR}:_proceed_to_rar", {"generator": kind}, go_pred, construct=f"step predicate[{kind}]")

        def go_step_counters(kind=kind):
            s = S(kind)
            new = s.step_true()
            if lift(new.fields['rar_iter_nb']) != lift(K('J')) + 1:
                raise Violation("rar_iter_nb after a step", str(new.fields['rar_iter_nb']), "J + 1")
            if lift(new.fields['rar_iter_from_last_sampling']) != 0:
                raise Violation("period counter after a step", str(new.fields['rar_iter_from_last_sampling']), "0")
            changed = {'key', 'rar_iter_nb', 'rar_iter_from_last_sampling'}
            if kind in ('ode', 'nonstatio'):
                changed |= {'times', 'p_times'}
            if kind in ('statio', 'nonstatio'):
                changed |= {'omega', 'p_omega'}
            unchanged_except(new, s.data, changed, "step")
            return "J + 1, period counter 0, nothing else but stores / masks / key changes"
        chk.run("C16.R2", f"{RAR}:_rar_step_init.rar_step_true", {"generator": kind}, go_step_counters, construct=f"step counters[{kind}]")

        def go_nostep(kind=kind):
            s = S(kind)
            new = s.step_false()
            # the counter must be frozen before start_iter and count every iteration after it; at i == start_iter itself a
            # non-step can only be caused by a full store (R1 + R6), after which no step is ever possible again, so both
            # `i <= start_iter` and `i < start_iter` are accepted as the freeze condition
            got = lift(new.fields['rar_iter_from_last_sampling'])
            es = []
            for op in ('<=', '<'):
                inc = merge_cond(Pred.compare(i, K('start_iter'), op), 0, 1)
                es.append(lift(K('since')) + lift(inc))
            if got not in es:
                raise Violation("period counter without a step", str(got), f"{es[0]} (frozen during the burn-in, + 1 per iteration afterwards)")
            unchanged_except(new, s.data, {'rar_iter_from_last_sampling'}, "no step")
            return f"period counter = {got}; nothing else changes"
        chk.run("C16.R2", f"{RAR}:_rar_step_init.rar_step_false", {"generator": kind}, go_nostep, construct=f"no-step counters[{kind}]")

        def go_act(kind=kind):
            s = S(kind)
            new = s.step_true()
            msgs = []
            if kind in ('ode', 'nonstatio'):
                msgs.append(check_mask_activation(new.fields['p_times'], Sym('p_times'), K('nt_start'), SEL_T, K('J'), "p_times"))
            if kind in ('statio', 'nonstatio'):
                msgs.append(check_mask_activation(new.fields['p_omega'], Sym('p_omega'), K('n_start'), SEL_X, K('J'), "p_omega"))
            return "; ".join(msgs)
        chk.run("C16.R3", f"{RAR}:_rar_step_init.rar_step_true", {"generator": kind}, go_act, construct=f"mask activation[{kind}]")
        if kind == 'nonstatio':
            chk.counts["C16.R3"] += 1     # two families checked in one obligation

        def go_trigger(kind=kind):
            s = S(kind)
            tr, fa = s.steps()
            d = freeze(s.data)
            out = s.fn('trigger_rar')(i, s.loss, s.params, d, tr, fa)
            if not (isinstance(out, tuple) and len(out) == 3):
                raise Violation("trigger_rar result", str(type(out)), "(loss, params, data)")
            if out[0] is not s.loss or not same(fz(out[1]), fz(s.params)):
                raise Violation("trigger_rar passthrough", "loss / params changed", "unchanged")
            e = merge_cond(expected_pred(kind), s.step_true(), s.step_false())
            if not same(out[2], e):
                from .C09 import first_diff
                raise Violation("trigger_rar data", str(first_diff(fz(out[2]), fz(e)))[:400], "cond(step predicate, step, no step)")
            return "data' = cond(step predicate, step(data), nostep(data))"
        chk.run("C16.R5", f"{RAR}:trigger_rar", {"generator": kind}, go_trigger, construct=f"trigger[{kind}]")

    def go_norar():
        s = S('ode')
        d = s.G.ode(rar=False)
        out = s.fn('trigger_rar')(i, s.loss, s.params, d, None, None)
        if out[2] is not d:
            raise Violation("trigger_rar without RAR", str(out[2])[:100], "the generator unchanged")
        d2, a, b = s.fn('init_rar')(d)
        if d2 is not d or a is not None or b is not None:
            raise Violation("init_rar without RAR", f"{a} {b}", "(data, None, None)")
        return "identity"
    chk.run("C16.R5", f"{RAR}:trigger_rar/init_rar", {"generator": "no RAR"}, go_norar, construct="no RAR")

    # ---------------- R6 / R7
    def go_ctor():
        s = S('ode')
        f = s.G.fn("_check_and_set_rar_parameters")
        n, n_start = K('n'), K('n_start')
        from ..genenv import rar_params
        def concrete():
            # the same obligations on concrete counts (a start of exactly one point, a full store included)
            msgs = []
            for n_c, s_c in ((8, 3), (10, 5), (7, 7), (6, 1), (1, 1)):
                r = f(rar_params(), n_c, s_c)
                if not (isinstance(r, tuple) and len(r) == 4):
                    raise Violation("result", str(r), "(n_start, p, period counter, step count)")
                ns, p, since, J = r
                if not isinstance(p, AT):
                    raise Inconclusive(f"initial mask for concrete counts is not an explicit array: {str(p)[:120]}")
                if lift(ns) != s_c or p.axes != (n_c,):
                    raise Violation("initial state", f"n_start {ns}, mask axes {p.axes}", f"n_start {s_c}, a mask of {n_c} entries")
                bad = [k_ for k_, e_ in enumerate(p.entries()) if (k_ < s_c) == lift(e_).is_zero()]
                if bad:
                    raise Violation("initial mask", f"n={n_c}, n_start={s_c}: entries {bad[:5]} are {'inactive' if bad[0] < s_c else 'active'}",
                                    f"exactly the first {s_c} entries active")
                if lift(since) != lift(K('update_every')) - 1 or lift(J) != 0:
                    raise Violation("initial counters", f"period counter {since}, step count {J}", "update_every - 1 and 0")
                msgs.append(f"n={n_c}, n_start={s_c}")
            r2 = f(None, n, None)
            if not (lift(r2[0]) == lift(n) and r2[1] is None and r2[2] is None and r2[3] is None):
                raise Violation("no RAR", str(r2), "(n, None, None, None)")
            return "concrete counts " + "; ".join(msgs) + ": first n_start entries active, period counter update_every - 1, step count 0"
        try:
            conc = concrete()
        except (Inconclusive, Top) as ex_:
            conc, conc_why = None, str(ex_)       # the symbolic counts below decide alone
        try:
            r = f(rar_params(), n, n_start)
        except Top:
            # the code needs the counts themselves (e.g. range(n)): the concrete counts are what is established
            if conc is None:
                raise Inconclusive(conc_why)
            return conc
        if not (isinstance(r, tuple) and len(r) == 4):
            raise Violation("result", str(r), "(n_start, p, period counter, step count)")
        ns, p, since, J = r
        if lift(ns) != lift(n_start):
            raise Violation("n_start", str(ns), "n_start")
        p = as_sym(p)
        if not is_sym(p, 'at_set', 3):
            raise Inconclusive(f"initial mask idiom outside the rule's vocabulary: {str(p)[:200]}")
        base, idx, val = p.args
        from ._rar_common import nonzero_value
        want = "zeros(n) with exactly the first n_start entries set to a non-zero probability"
        if not (isinstance(base, tuple) and base[0] == 'AT'):
            raise Inconclusive(f"initial mask base outside the rule's vocabulary: {str(base)[:120]}")
        if base[1] != ('n',) or not all(lift(e).is_zero() for e in base[2]):
            raise Violation("initial mask", f"entries outside the written slice are {str(base)[:120]}", want)
        if idx != ('slice', None, fz(n_start), None):
            raise Violation("initial mask", f"entries {idx} are activated", want)
        if not nonzero_value(val):
            raise Violation("initial mask", f"the first n_start entries are set to {val}", want)
        if lift(since) != lift(K('update_every')) - 1:
            raise Violation("initial period counter", str(since), "update_every - 1 (first step at start_iter)")
        if lift(J) != 0:
            raise Violation("initial step count", str(J), "0")
        r2 = f(None, n, None)
        if not (lift(r2[0]) == lift(n) and r2[1] is None and r2[2] is None and r2[3] is None):
            raise Violation("no RAR", str(r2), "(n, None, None, None)")
        return "mask, period counter update_every - 1, step count 0"
    chk.run("C16.R6", "jinns.data._DataGenerators:_check_and_set_rar_parameters", {}, go_ctor, construct="initial RAR state")

    # the constructors hand each family ITS OWN total and start counts (time: nt / nt_start, space: n / n_start)
    def go_ctor_families(cname):
        from ..genenv import rar_params
        from ._rar_common import nonzero_value
        G = S('ode').G
        key = Sym('key')
        box = dict(min_pts=(K('min0'), K('min1')), max_pts=(K('max0'), K('max1')))
        rp = rar_params()
        if cname == "DataGeneratorODE":
            gen = G.cls(cname)(key, 10, K('tmin'), K('tmax'), 2, rar_parameters=rp, nt_start=5)
            fam = [("p_times", "nt_start", 10, 5)]
        elif cname == "CubicMeshPDEStatio":
            gen = G.cls(cname)(key=key, n=8, nb=None, omega_batch_size=2, omega_border_batch_size=None, dim=2, rar_parameters=rp, n_start=3, **box)
            fam = [("p_omega", "n_start", 8, 3)]
        else:
            gen = G.cls(cname)(key=key, n=8, nb=None, omega_batch_size=2, omega_border_batch_size=None, dim=2, rar_parameters=rp, n_start=3,
                               temporal_batch_size=2, tmin=K('tmin'), tmax=K('tmax'), nt=10, nt_start=5, **box)
            fam = [("p_times", "nt_start", 10, 5), ("p_omega", "n_start", 8, 3)]
        # counters right after construction: the period counter is one short of the period (so that the first step happens at
        # start_iter), no step has been taken
        since, nb = gen.fields.get('rar_iter_from_last_sampling'), gen.fields.get('rar_iter_nb')
        if lift(since) != lift(K('update_every')) - 1 or lift(nb) != 0:
            raise Violation(f"{cname} counters", f"after construction: period counter {since}, number of steps taken {nb}",
                            "update_every - 1 and 0")
        for mask, startf, total, start in fam:
            got_start = gen.fields[startf]
            if lift(got_start) != lift(start):
                raise Violation(f"{cname}.{startf}", f"{startf} = {got_start} after construction", f"the caller's {start}")
            p = as_sym(gen.fields[mask])
            if isinstance(p, AT) and all(isinstance(a_, int) for a_ in p.axes):
                # the mask itself, entry by entry (however it was written)
                if p.axes != (total,):
                    raise Violation(f"{cname}.{mask}", f"a mask with axes {p.axes}", f"one entry per pre-allocated point of this family ({total})")
                ents = list(p.entries())
                bad = [k_ for k_, e_ in enumerate(ents) if (k_ < start) == lift(e_).is_zero()]
                if bad:
                    raise Violation(f"{cname}.{mask}", f"entries {bad[:5]} are {'inactive' if bad[0] < start else 'active'}",
                                    f"exactly the first {start} ({startf}) of {total} entries active")
                continue
            if not is_sym(p, 'at_set', 3):
                raise Inconclusive(f"{cname}.{mask}: initial mask idiom outside the rule's vocabulary: {str(p)[:160]}")
            base, idx, val = p.args
            if not (isinstance(base, tuple) and base[0] == 'AT' and base[1] == (total,) and all(lift(e).is_zero() for e in base[2])):
                raise Violation(f"{cname}.{mask}", f"mask base {str(base)[:100]}", f"zeros({total}) (one entry per pre-allocated point of this family)")
            if idx != ('slice', None, start, None):
                raise Violation(f"{cname}.{mask}", f"entries {idx} active", f"the first {start} ({startf})")
            if not nonzero_value(val):
                raise Violation(f"{cname}.{mask}", f"initial probability {val}", "non-zero")
        return "; ".join(f"{m}: first {st} of {tot} active" for m, _, tot, st in fam)
    for cname in ("DataGeneratorODE", "CubicMeshPDEStatio", "CubicMeshPDENonStatio"):
        chk.run("C16.R6", f"jinns.data._DataGenerators:{cname}.__post_init__", {"n": 8, "n_start": 3, "nt": 10, "nt_start": 5},
                (lambda cname=cname: go_ctor_families(cname)), construct=f"constructor RAR state[{cname}]")

    for kind in KINDS:
        def go_init(kind=kind):
            s = S(kind)
            d = s.data.replace_fields({'rar_iter_from_last_sampling': lift(K('update_every')) - 1})
            d2, tr, fa = s.fn('init_rar')(freeze(d))
            v = d2.fields['rar_iter_from_last_sampling']
            if lift(v) != lift(K('update_every')) - 1:
                raise Violation("period counter at the start of training", f"init_rar sets it to {v}",
                                "update_every - 1 as set by the generator, so that the first step happens at start_iter")
            unchanged_except(d2, d, {'rar_iter_from_last_sampling'}, "init_rar")
            if tr is None or fa is None:
                raise Violation("init_rar", "no step functions", "step functions")
            return "counter kept; step functions built"
        chk.run("C16.R6", f"{RAR}:init_rar", {"generator": kind}, go_init, construct=f"init_rar[{kind}]")

    def go_sizes():
        # init_rar must hand the generator's own candidate / selected sizes to the step functions, per family
        for kind in KINDS:
            s = S(kind)
            seen = {}
            orig = s.rar.env.local['_rar_step_init']
            names = [a.arg for a in orig.node.args.args][:2] if getattr(orig, 'node', None) is not None else ['a', 'b']

            def stub(*a, names=names, **k):
                vals = list(a) + [k[n] for n in names[len(a):]]
                seen.update(a=vals[0], b=vals[1])
                return (lambda o: o[2], lambda o: o[2])
            s.rar.env.local['_rar_step_init'] = stub
            try:
                s.fn('init_rar')(freeze(s.data))
            finally:
                s.rar.env.local['_rar_step_init'] = orig
            exp = {'ode': (S_T, SEL_T), 'statio': (S_X, SEL_X), 'nonstatio': ((S_T, S_X), (SEL_T, SEL_X))}[kind]
            got = (seen.get('a'), seen.get('b'))
            if fz(got) != fz(exp):
                raise Violation(f"init_rar sizes[{kind}]", str(got), str(exp))
        return "candidate / selected sizes of the right family"
    chk.run("C16.R6", f"{RAR}:init_rar (sizes)", {}, go_sizes, construct="init_rar sizes")

    run_solve_trigger(chk)

# ---------------------------------------------------------------------------------------------------------------------
# R7: how the training loop drives the refinement ("steps happen exactly at iterations start + k * update_every" needs the
# trigger to be asked once per iteration, with the index of that iteration)
# ---------------------------------------------------------------------------------------------------------------------
def run_solve_trigger(chk, rule_id="C16.R7"):
    from ._solve_common import SolveAnalysis
    from ..solveenv import SOLVE, GenToken
    chk.rule(rule_id, "solve calls trigger_rar once per iteration with that iteration's index (the index at which the loss is "
                       "recorded), the parameters just updated, the generator advanced by this iteration's draw, and keeps the "
                       "generator it returns", floor=2)
    for validation in (False, True):
        def go(validation=validation):
            calls = []

            def trigger_stub(i, loss, params, data, *step_fns, **step_kw):
                calls.append((i, data, params))
                return loss, params, GenToken(f"rar({data._name})", data._make_batch, data._step, data._attrs)

            def init_stub(data):
                return data, Sym('rar_step_true'), Sym('rar_step_false')
            A = SolveAnalysis(chk.repo, validation=validation, aux=False,
                              overrides={(SOLVE, 'trigger_rar'): trigger_stub, (SOLVE, 'init_rar'): init_stub})
            chk.files.update(A.E.w.files)
            calls.clear()
            c, out = A.step()
            if len(calls) != 1:
                raise Violation("trigger_rar calls", f"{len(calls)} calls in one iteration", "exactly one")
            i_seen, data_seen, params_seen = calls[0]
            spec = A.spec_step(c)
            from ._solve_common import _norm
            if not same(_norm(params_seen), _norm(spec['params'])):
                raise Violation("trigger_rar parameters", f"the refinement ranks its candidates with {str(params_seen)[:160]}",
                                "the parameters just updated by this iteration (the current network)")
            i0 = c[0]
            if lift(i_seen) != lift(i0):
                raise Violation("trigger_rar iteration index", f"trigger_rar is called with {lift(i_seen)} during iteration {lift(i0)}",
                                f"{lift(i0)} (the index of the iteration, at which its loss is recorded)")
            d_in = c[4].fields['data']
            if not (isinstance(data_seen, GenToken) and data_seen._name == d_in._name and data_seen._step == d_in._step + 1):
                raise Violation("trigger_rar generator", f"{data_seen!r}", f"the generator after this iteration's draw <{d_in._name}+{d_in._step + 1}>")
            d_out = out[4].fields['data']
            if not (isinstance(d_out, GenToken) and d_out._name == f"rar({d_in._name})"):
                raise Violation("carried generator", f"{d_out!r}", "the generator returned by trigger_rar")
            return "one call per iteration, index i, advanced generator in, returned generator carried"
        chk.run(rule_id, f"{SOLVE}:solve._one_iteration (Trigger RAR)", {"validation": validation}, go, construct="trigger call in the loop")
