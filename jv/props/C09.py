"""C09 - mini-batching permutes the point set and serves each point once per epoch.

Symbolic evaluation (uninterpreted terms, comparators in integer normal form) of one batch draw of every generator
kind, on a generator with symbolic state (key K, store S, index i, batch size b), compared with the specification

    reshuffle  <=>  i + b - n_rows(S) >= 0            ("as soon as all points have been served")
    K', S', i'  =  split(K)[0], row_permutation(split(K)[1], S, p), 0      if reshuffle
                   K,           S,                                 i + b   otherwise
    batch       =  dynamic_slice(S', (i', 0, ...), (b, trailing dims of S))
    every other field of the generator is unchanged                 ("never alters the stored set, only permutes it")

where n_rows(S) is the number of rows of the store the method serves (nt, n, nb // (2 dim), number of observations,
number of parameter samples; n_start + J * selected in the RAR scheme) and row_permutation is
`choice(key, S, shape=(S.shape[0],), replace=False, p=p)` or `permutation(key, S, axis=0, independent=False)`.
The served-once / served-at-least-once statements over histories follow from this one-step shape by the index
argument of DESIGN.md section 6; they are not model-checked here.
"""
from __future__ import annotations

from ..alg import Poly, AT, Sym, K, Pred, lift, to_at, Top, Finding
from ..extern import same, fz, merge_cond
from ..genenv import GenEnv, MOD
from ..interp import freeze, Inst
from ..report import Violation, Inconclusive


def first_diff(a, b, path=""):
    """human-readable location of the first structural difference"""
    if same(a, b):
        return None
    if isinstance(a, Sym) and isinstance(b, Sym) and a.op == b.op and len(a.args) == len(b.args):
        for i, (x, y) in enumerate(zip(a.args, b.args)):
            d = first_diff(x, y, f"{path}/{a.op}[{i}]")
            if d:
                return d
    if isinstance(a, (tuple, list)) and isinstance(b, (tuple, list)) and len(a) == len(b):
        for i, (x, y) in enumerate(zip(a, b)):
            d = first_diff(x, y, f"{path}[{i}]")
            if d:
                return d
    if isinstance(a, dict) and isinstance(b, dict) and a.keys() == b.keys():
        for k in a:
            d = first_diff(a[k], b[k], f"{path}[{k!r}]")
            if d:
                return d
    return f"at {path or '/'}: found {a!r}; expected {b!r}"


def expect_same(found, expected, what):
    if not same(fz(found) if not isinstance(found, (Inst, dict)) else found, fz(expected) if not isinstance(expected, (Inst, dict)) else expected):
        d = first_diff(fz(found) if not isinstance(found, (Inst, dict)) else found,
                       fz(expected) if not isinstance(expected, (Inst, dict)) else expected) or ""
        raise Violation(what, f"{what} = {found!r}  [{d}]", f"{expected!r}")


ANYKEY = Sym('<any key>')


def wild_keys(v):
    """replace the key argument of every row_permutation by a wildcard: the property is about permuting, not about which
    random stream is used"""
    if isinstance(v, Sym):
        args = tuple(wild_keys(a) for a in v.args)
        if v.op == 'row_permutation' and len(args) == 3:
            return Sym('row_permutation', ANYKEY, args[1], args[2])
        return Sym(v.op, *args)
    if isinstance(v, tuple):
        return tuple(wild_keys(a) for a in v)
    if isinstance(v, Poly):
        return v.map_atoms(lambda a: ('S', wild_keys(a[1])) if a[0] == 'S' else a)
    return v


def spec_step(key, store, idx, b, n_eff, p):
    pred = Pred.compare(lift(idx) + lift(b), lift(n_eff), '>=')
    k0, k1 = Sym('split', fz(key), 2, 0), Sym('split', fz(key), 2, 1)
    perm = Sym('row_permutation', k1, fz(store), fz(p))
    return pred, merge_cond(pred, k0, key), merge_cond(pred, perm, store), merge_cond(pred, 0, lift(idx) + lift(b))


def check_draw(gen, method, fields, b, n_eff, p, sizes, what):
    """fields = (key_field, store_field, idx_field)"""
    g = freeze(gen)
    new, batch = getattr(g, method)()
    kf, sf, jf = fields
    pred, k2, s2, i2 = spec_step(gen.fields[kf], gen.fields[sf], gen.fields[jf], b, n_eff, p)
    if not isinstance(new, Inst) or new.cls is not gen.cls:
        raise Violation(what, f"returns {type(new).__name__}", "the advanced generator")
    # the key must be advanced whenever a permutation is drawn (else every epoch would use the same permutation); how the
    # key stream is organised otherwise is not part of the property
    if same(fz(new.fields[kf]), fz(gen.fields[kf])):
        raise Violation(f"{what}: new.{kf}", "the PRNG key is never advanced", "a new key after a reshuffle")
    expect_same(wild_keys(fz(new.fields[sf])), wild_keys(fz(s2)), f"{what}: new.{sf}")
    expect_same(new.fields[jf], i2, f"{what}: new.{jf}")
    for f, v in gen.fields.items():
        if f in fields:
            continue
        if not same(new.fields.get(f), v):
            raise Violation(f"{what}: field {f}", f"new.{f} = {new.fields.get(f)!r}", f"unchanged ({v!r})")
    start = (fz(i2),) + (0,) * (len(sizes) - 1)
    exp_batch = Sym('dynamic_slice', fz(s2), start, tuple(fz(x) for x in sizes))
    expect_same(wild_keys(fz(batch)), wild_keys(exp_batch), f"{what}: batch")
    return f"reshuffle iff {pred}; batch = dynamic_slice(store', idx', {sizes})"


def check_param_draw(G, reorder=None):
    """one draw of the parameter generator: per key, own key / samples / index; batch = slice of the (possibly reshuffled) samples.
    reorder: name of a dictionary field whose insertion order is reversed (the dictionaries are keyed by parameter name: pairing
    two of them by position instead is reported)"""
    keys = ('nu', 'th')
    gen = G.param(keys)
    if reorder is not None:
        gen = gen.replace_fields({reorder: dict(reversed(list(gen.fields[reorder].items())))})
    g = freeze(gen)
    new, batch = g.param_batch()
    for k in keys:
        pred, k2, s2, i2 = spec_step(gen.fields['keys'][k], gen.fields['param_n_samples'][k], gen.fields['curr_param_idx'][k],
                                     K('bp'), K('n_p'), None)
        expect_same(wild_keys(fz(new.fields['param_n_samples'][k])), wild_keys(fz(s2)), f"new.param_n_samples[{k}]")
        expect_same(new.fields['curr_param_idx'][k], i2, f"new.curr_param_idx[{k}]")
        expect_same(wild_keys(fz(batch[k])), wild_keys(Sym('dynamic_slice', fz(s2), (fz(i2), 0), (fz(K('bp')), 1))), f"batch[{k}]")
        # same obligation as for the collocation generators (check_draw): a reshuffle must leave an advanced key behind
        nk = new.fields['keys']
        if not isinstance(nk, dict) or k not in nk or same(fz(nk[k]), fz(gen.fields['keys'][k])):
            raise Violation(f"new.keys[{k}]", "the PRNG key is never advanced", "a new key after a reshuffle")
    if set(batch.keys()) != set(keys):
        raise Violation("batch keys", str(sorted(batch.keys())), str(sorted(keys)))
    for f, v in gen.fields.items():
        if f not in ('keys', 'param_n_samples', 'curr_param_idx') and not same(new.fields.get(f), v):
            raise Violation(f"field {f}", f"new.{f} = {new.fields.get(f)!r}", "unchanged")
    return "per key: own key, own samples, own index"


def run(chk):
    G = GenEnv(chk.repo)
    chk.files = G.w.files
    chk.rule("C09.R1", "one draw of every generator kind == the specified step (reshuffle predicate bend - n_rows >= 0, row "
                       "permutation without replacement with the store's probabilities, index reset / advance by the batch size, "
                       "batch sliced from the updated store at the updated index, nothing else changes)", floor=9)
    rp = None
    J = K('J')
    cases = []
    cases.append(("DataGeneratorODE.temporal_batch", {}, lambda: G.ode(), 'temporal_batch', ('key', 'times', 'curr_time_idx'),
                  K('bt'), K('nt'), None, (K('bt'),)))
    cases.append(("DataGeneratorODE.temporal_batch", {"rar": True}, lambda: G.ode(rar=True), 'temporal_batch',
                  ('key', 'times', 'curr_time_idx'), K('bt'), K('nt_start') + J * K('sel_t'), Sym('p_times'), (K('bt'),)))
    for cname, mk in (("CubicMeshPDEStatio", G.statio), ("CubicMeshPDENonStatio", G.nonstatio)):
        for d in (1, 2):
            cases.append((f"{cname}.inside_batch", {"dim": d}, (lambda mk=mk, d=d: mk(d)), 'inside_batch',
                          ('key', 'omega', 'curr_omega_idx'), K('bx'), K('n'), None, (K('bx'), d)))
        cases.append((f"{cname}.inside_batch", {"dim": 2, "rar": True}, (lambda mk=mk: mk(2, rar=True)), 'inside_batch',
                      ('key', 'omega', 'curr_omega_idx'), K('bx'), K('n_start') + J * K('sel_x'), Sym('p_omega'), (K('bx'), 2)))
        cases.append((f"{cname}.border_batch", {"dim": 2}, (lambda mk=mk: mk(2)), 'border_batch',
                      ('key', 'omega_border', 'curr_omega_border_idx'), K('bb'), K('nb') // 4, None, (K('bb'), 2, 4)))
    cases.append(("CubicMeshPDENonStatio.temporal_batch", {}, lambda: G.nonstatio(2), 'temporal_batch',
                  ('key', 'times', 'curr_time_idx'), K('bt'), K('nt'), None, (K('bt'),)))
    cases.append(("CubicMeshPDENonStatio.temporal_batch", {"rar": True}, lambda: G.nonstatio(2, rar=True), 'temporal_batch',
                  ('key', 'times', 'curr_time_idx'), K('bt'), K('nt_start') + J * K('sel_t'), Sym('p_times'), (K('bt'),)))
    for name, cfg, mk, method, fields, b, n_eff, p, sizes in cases:
        chk.run("C09.R1", f"{MOD}:{name}", cfg,
                (lambda mk=mk, method=method, fields=fields, b=b, n_eff=n_eff, p=p, sizes=sizes, name=name:
                 check_draw(mk(), method, fields, b, n_eff, p, sizes, name)), construct=f"{name} step")

    # observations: the shuffled store is the index vector; rows are gathered with the same mini-batch of indices
    def go_obs():
        gen = G.obs()
        g = freeze(gen)
        new, batch = g.obs_batch()
        pred, k2, s2, i2 = spec_step(gen.fields['key'], gen.fields['indices'], gen.fields['curr_idx'], K('bo'), K('n_obs'), None)
        expect_same(wild_keys(fz(new.fields['indices'])), wild_keys(fz(s2)), "new.indices")
        expect_same(new.fields['curr_idx'], i2, "new.curr_idx")
        if same(fz(new.fields['key']), fz(gen.fields['key'])):
            raise Violation("new.key", "the PRNG key is never advanced", "a new key after a reshuffle")
        for f, v in gen.fields.items():
            if f not in ('key', 'indices', 'curr_idx') and not same(new.fields.get(f), v):
                raise Violation(f"field {f}", f"new.{f} = {new.fields.get(f)!r}", "unchanged")
        return f"reshuffle iff {pred}"
    chk.run("C09.R1", f"{MOD}:DataGeneratorObservations.obs_batch", {}, go_obs, construct="DataGeneratorObservations.obs_batch step")

    go_param = lambda: check_param_draw(G)
    chk.run("C09.R1", f"{MOD}:DataGeneratorParameter.param_batch", {}, go_param, construct="DataGeneratorParameter.param_batch step")
    for fld in ('keys', 'param_n_samples', 'curr_param_idx'):
        chk.run("C09.R1", f"{MOD}:DataGeneratorParameter.param_batch", {"reversed_insertion_order": fld},
                (lambda fld=fld: check_param_draw(G, reorder=fld)), construct="DataGeneratorParameter.param_batch step, one dictionary in another order")

    # ---------------- R3: get_batch composes the individual draws and carries every advanced state
    chk.rule("C09.R3", "get_batch advances every store of the generator exactly once (each draw applied to the generator "
                       "returned by the previous one) and returns the batches of those draws", floor=5)

    def seq(gen, methods):
        g, outs = freeze(gen), []
        for m in methods:
            g, b = getattr(g, m)()
            outs.append(b)
        return g, outs

    def go_ode():
        gen = G.ode()
        new, batch = freeze(gen).get_batch()
        e_new, (tb,) = seq(gen, ['temporal_batch'])
        if not same(new, e_new):
            raise Violation("generator after get_batch", str(first_diff(fz(new), fz(e_new)))[:300], "the generator returned by temporal_batch()")
        expect_same(batch.fields['temporal_batch'], tb, "batch.temporal_batch")
        return "generator and batch of temporal_batch()"
    chk.run("C09.R3", f"{MOD}:DataGeneratorODE.get_batch", {}, go_ode, construct="DataGeneratorODE.get_batch")

    for d, border in ((2, True), (1, True), (2, False)):
        def go_st(d=d, border=border):
            gen = G.statio(d, border=border)
            new, batch = freeze(gen).get_batch()
            e_new, (xb, bb) = seq(gen, ['inside_batch', 'border_batch'])
            if not same(new, e_new):
                raise Violation("generator after get_batch", str(first_diff(fz(new), fz(e_new)))[:300],
                                "inside_batch() then border_batch() applied in sequence")
            expect_same(batch.fields['inside_batch'], xb, "batch.inside_batch")
            if bb is None:
                if batch.fields['border_batch'] is not None:
                    raise Violation("batch.border_batch", str(batch.fields['border_batch']), "None")
            else:
                expect_same(batch.fields['border_batch'], bb, "batch.border_batch")
            return "both stores advanced once; batch fields are the two draws"
        chk.run("C09.R3", f"{MOD}:CubicMeshPDEStatio.get_batch", {"dim": d, "border": border}, go_st, construct="CubicMeshPDEStatio.get_batch")

    def go_ns():
        from ..extern import make_world, term
        w2 = make_world(chk.repo, overrides={(MOD, 'make_cartesian_product'): (lambda b1, b2: term('cartesian_product', b1, b2))})
        G2 = GenEnv(chk.repo, w2)
        gen = G2.nonstatio(2)
        new, batch = freeze(gen).get_batch()
        e_new, (xb, bb, tb) = seq(gen, ['inside_batch', 'border_batch', 'temporal_batch'])
        if not same(new, e_new):
            raise Violation("generator after get_batch", str(first_diff(fz(new), fz(e_new)))[:300],
                            "inside_batch(), border_batch(), temporal_batch() applied in sequence")
        txt = repr(fz(batch.fields['times_x_inside_batch'])) + repr(fz(batch.fields['times_x_border_batch']))
        for nm, b in (("interior", xb), ("border", bb), ("temporal", tb)):
            if repr(fz(b)) not in txt:
                raise Violation(f"{nm} batch", f"the space-time batch is not built from the {nm} draw of this call", f"{str(b)[:120]}")
        return "three stores advanced once; space-time batches built from the three draws"
    chk.run("C09.R3", f"{MOD}:CubicMeshPDENonStatio.get_batch", {}, go_ns, construct="CubicMeshPDENonStatio.get_batch")

    # ---------------- R4: generators built by their constructors without RAR serve the whole store per epoch, whatever
    # start count the caller passed (documented as used by the RAR scheme only)
    chk.rule("C09.R4", "a generator constructed without RAR parameters reshuffles iff index + batch size >= full number of "
                       "rows, also when the caller supplied n_start / nt_start (state produced by the repository's "
                       "constructor, index and stores made symbolic afterwards)", floor=5)
    run_constructed_no_rar(chk, G, "C09.R4")

    chk.rule("C09.R2", "the initial index of every store forces a reshuffle at the first draw and index + batch size cannot "
                       "overflow int32 (generators built through the repository's constructors, three size assignments)", floor=20)
    run_initial_index(chk, G, "C09.R2")
    run_first_draw(chk, chk.repo, "C09.R2")


# ---------------------------------------------------------------------------------------------------------------------
# first draw: the initial index must force a reshuffle and the index arithmetic must not overflow int32
# ---------------------------------------------------------------------------------------------------------------------
INT32_MAX = 2 ** 31 - 1


def initial_index_rule(G, sizes):
    """build every generator through the repository's constructor with distinct concrete sizes and return a list of
    (class, index field, batch size, rows of the store, initial index)"""
    import numpy as np
    from ..alg import Fv
    out = []
    key = Sym('key')
    bt, bx, bb, bo, bp = sizes['bt'], sizes['bx'], sizes['bb'], sizes['bo'], sizes['bp']
    ode = G.cls("DataGeneratorODE")(key, 60, K('tmin'), K('tmax'), bt)
    out.append(("DataGeneratorODE", "curr_time_idx", bt, 60, ode.fields['curr_time_idx']))
    st = G.cls("CubicMeshPDEStatio")(key=key, n=64, nb=48, omega_batch_size=bx, omega_border_batch_size=bb, dim=2,
                                     min_pts=(K('min0'), K('min1')), max_pts=(K('max0'), K('max1')))
    out.append(("CubicMeshPDEStatio", "curr_omega_idx", bx, 64, st.fields['curr_omega_idx']))
    out.append(("CubicMeshPDEStatio", "curr_omega_border_idx", bb, 12, st.fields['curr_omega_border_idx']))
    ns = G.cls("CubicMeshPDENonStatio")(key=key, n=64, nb=48, omega_batch_size=bx, omega_border_batch_size=bb, dim=2,
                                        min_pts=(K('min0'), K('min1')), max_pts=(K('max0'), K('max1')),
                                        temporal_batch_size=bt, tmin=K('tmin'), tmax=K('tmax'), nt=60)
    out.append(("CubicMeshPDENonStatio", "curr_omega_idx", bx, 64, ns.fields['curr_omega_idx']))
    out.append(("CubicMeshPDENonStatio", "curr_omega_border_idx", bb, 12, ns.fields['curr_omega_border_idx']))
    out.append(("CubicMeshPDENonStatio", "curr_time_idx", bt, 60, ns.fields['curr_time_idx']))
    ob = G.cls("DataGeneratorObservations")(key, bo, Fv('obs_in', (40, 1)), Fv('obs_val', (40, 1)))
    out.append(("DataGeneratorObservations", "curr_idx", bo, 40, ob.fields['curr_idx']))
    pa = G.cls("DataGeneratorParameter")(key, 36, bp, {"nu": (K('lo'), K('hi'))})
    out.append(("DataGeneratorParameter", "curr_param_idx[nu]", bp, 36, pa.fields['curr_param_idx']['nu']))
    return out


def run_constructed_no_rar(chk, G, rule_id):
    key = Sym('key')
    box = dict(min_pts=(K('min0'), K('min1')), max_pts=(K('max0'), K('max1')))

    def mk_ode(**kw):
        return G.cls("DataGeneratorODE")(key, 60, K('tmin'), K('tmax'), 7, **kw)

    def mk_st(**kw):
        return G.cls("CubicMeshPDEStatio")(key=key, n=64, nb=48, omega_batch_size=5, omega_border_batch_size=3, dim=2,
                                           **box, **kw)

    def mk_ns(**kw):
        return G.cls("CubicMeshPDENonStatio")(key=key, n=64, nb=48, omega_batch_size=5, omega_border_batch_size=3, dim=2,
                                              temporal_batch_size=7, tmin=K('tmin'), tmax=K('tmax'), nt=60, **box, **kw)
    cases = [
        ("DataGeneratorODE", mk_ode, {"nt_start": 20}, 'temporal_batch', ('key', 'times', 'curr_time_idx'), 7, 60, (7,)),
        ("CubicMeshPDEStatio", mk_st, {"n_start": 16}, 'inside_batch', ('key', 'omega', 'curr_omega_idx'), 5, 64, (5, 2)),
        ("CubicMeshPDEStatio", mk_st, {"n_start": 16}, 'border_batch', ('key', 'omega_border', 'curr_omega_border_idx'), 3, 12,
         (3, 2, 4)),
        ("CubicMeshPDENonStatio", mk_ns, {"n_start": 16, "nt_start": 20}, 'inside_batch', ('key', 'omega', 'curr_omega_idx'), 5, 64,
         (5, 2)),
        ("CubicMeshPDENonStatio", mk_ns, {"n_start": 16, "nt_start": 20}, 'temporal_batch', ('key', 'times', 'curr_time_idx'), 7, 60,
         (7,)),
    ]
    for cname, mk, kw, method, fields, b, n, sizes in cases:
        for user in (False, True):
            def go(cname=cname, mk=mk, kw=kw, method=method, fields=fields, b=b, n=n, sizes=sizes, user=user):
                gen = mk(**(kw if user else {}))
                sym = {fields[1]: Sym(fields[1]), fields[2]: K('idx')}
                gen = gen.replace_fields(sym)
                return check_draw(gen, method, fields, b, n, None, sizes, f"{cname}.{method}")
            chk.run(rule_id, f"{MOD}:{cname}.{method}", {"start_count_given": user, **(kw if user else {})}, go,
                    construct=f"{cname}.{method} after __post_init__ (no RAR)")


def run_initial_index(chk, G, rule_id):
    for sizes in ({'bt': 7, 'bx': 5, 'bb': 3, 'bo': 8, 'bp': 4}, {'bt': 3, 'bx': 4, 'bb': 11, 'bo': 2, 'bp': 9},
                  {'bt': 12, 'bx': 2, 'bb': 6, 'bo': 5, 'bp': 3}):
        try:
            rows = initial_index_rule(G, sizes)
        except Exception as ex:
            chk.run(rule_id, MOD + ":__post_init__", sizes, lambda ex=ex: (_ for _ in ()).throw(ex))
            continue
        for cname, field, b, n, idx0 in rows:
            def go(cname=cname, field=field, b=b, n=n, idx0=idx0):
                try:
                    i0 = int(idx0)
                except Exception:
                    raise Inconclusive(f"initial {field} is not a concrete integer: {idx0!r}")
                if i0 + b < n:
                    raise Violation(f"{cname}.{field}", f"initial index {i0} + batch size {b} < {n} rows: the first draw does not reshuffle",
                                    "a reshuffle at the first draw")
                if i0 + b > INT32_MAX:
                    raise Violation(f"{cname}.{field}", f"initial index {i0} + batch size {b} exceeds int32 max by {i0 + b - INT32_MAX} "
                                    f"(wraps around under jit, not eagerly)", "index + batch size <= int32 max for every batch size")
                return f"{n} <= idx0 + b = int32max - {INT32_MAX - i0 - b} <= int32max"
            chk.run(rule_id, f"{MOD}:{cname}.__post_init__", dict(sizes, field=field), go, construct=f"{cname}.{field} initial value")


class TrackedInt(int):
    """concrete value of a DYNAMIC integer field of a generator (an int32 tracer under jit, a Python int eagerly): every integer
    computed from it is recorded, however the computation is packaged"""

    def __new__(cls, v, log):
        o = int.__new__(cls, v)
        o.log = log
        log.append(int(v))
        return o

    def _d(self, r):
        if r is NotImplemented or isinstance(r, bool) or not isinstance(r, int):
            return r
        return TrackedInt(r, self.log)

    def __add__(self, o): return self._d(int.__add__(self, o))
    def __radd__(self, o): return self._d(int.__radd__(self, o))
    def __sub__(self, o): return self._d(int.__sub__(self, o))
    def __rsub__(self, o): return self._d(int.__rsub__(self, o))
    def __mul__(self, o): return self._d(int.__mul__(self, o))
    def __rmul__(self, o): return self._d(int.__rmul__(self, o))
    def __floordiv__(self, o): return self._d(int.__floordiv__(self, o))
    def __mod__(self, o): return self._d(int.__mod__(self, o))
    def __neg__(self): return self._d(int.__neg__(self))
    def __pos__(self): return self
    def __hash__(self): return int.__hash__(self)


def _track_dynamic_ints(gen, log):
    """the generator with every concrete integer held in a non-static field replaced by a TrackedInt"""
    def rec(v):
        if isinstance(v, bool):
            return v
        if isinstance(v, int):
            return TrackedInt(v, log)
        if isinstance(v, dict):
            return {k: rec(x) for k, x in v.items()}
        if isinstance(v, (list, tuple)) and not hasattr(v, '_fields'):
            return type(v)(rec(x) for x in v)
        return v
    dyn = set(gen.dynamic_field_names())
    return gen.replace_fields({k: rec(v) for k, v in gen.fields.items() if k in dyn})


def run_first_draw(chk, repo, rule_id):
    """the FIRST draw of a freshly constructed generator must reshuffle (a row permutation is drawn), and no integer computed from
    the generator's dynamic integer state may exceed int32 max (eagerly it is a Python int, under jit an int32: beyond int32 max
    the two disagree).  Both are observed on the execution of the draw itself, whatever helper functions it goes through."""
    from ..extern import make_world
    perms = []
    w = make_world(repo)
    rnd = w.externals['jax'].random

    def recording(fn):
        def wrapped(*a, **k):
            perms.append(fn.__name__)
            return fn(*a, **k)
        return wrapped
    rnd.choice = recording(rnd.choice)
    rnd.permutation = recording(rnd.permutation)
    G = GenEnv(repo, w)
    for sizes in ({'bt': 7, 'bx': 5, 'bb': 3, 'bo': 8, 'bp': 4}, {'bt': 3, 'bx': 4, 'bb': 11, 'bo': 2, 'bp': 9}):
        key = Sym('key')
        from ..alg import Fv
        box = dict(min_pts=(K('min0'), K('min1')), max_pts=(K('max0'), K('max1')))
        gens = [
            ("DataGeneratorODE", lambda: G.cls("DataGeneratorODE")(key, 60, K('tmin'), K('tmax'), sizes['bt']), ['temporal_batch']),
            ("CubicMeshPDEStatio", lambda: G.cls("CubicMeshPDEStatio")(key=key, n=64, nb=48, omega_batch_size=sizes['bx'],
                                                                       omega_border_batch_size=sizes['bb'], dim=2, **box),
             ['inside_batch', 'border_batch']),
            ("CubicMeshPDENonStatio", lambda: G.cls("CubicMeshPDENonStatio")(key=key, n=64, nb=48, omega_batch_size=sizes['bx'],
                                                                             omega_border_batch_size=sizes['bb'], dim=2, **box,
                                                                             temporal_batch_size=sizes['bt'], tmin=K('tmin'),
                                                                             tmax=K('tmax'), nt=60),
             ['inside_batch', 'border_batch', 'temporal_batch']),
            ("DataGeneratorObservations", lambda: G.cls("DataGeneratorObservations")(key, sizes['bo'], Fv('obs_in', (40, 1)), Fv('obs_val', (40, 1))),
             ['obs_batch']),
            ("DataGeneratorParameter", lambda: G.cls("DataGeneratorParameter")(key, 36, sizes['bp'], {"nu": (K('lo'), K('hi'))}), ['param_batch']),
        ]
        for cname, mk, methods in gens:
            for meth in methods:
                def go(mk=mk, meth=meth, cname=cname):
                    gen = mk()
                    log = []
                    gen = _track_dynamic_ints(gen, log)
                    n_state = len(log)
                    if not n_state:
                        raise Inconclusive(f"{cname} holds no concrete integer state after construction")
                    del perms[:]
                    getattr(freeze(gen), meth)()
                    if len(log) == n_state:
                        raise Inconclusive(f"{cname}.{meth} computes nothing from the generator's integer state")
                    if not perms:
                        raise Violation(f"{cname}.{meth}", f"the first draw draws no permutation of the rows (integers computed from "
                                        f"the index state: {sorted(set(log[n_state:]))[:6]})", "a reshuffle at the first draw")
                    top = max(log)
                    if top > INT32_MAX:
                        raise Violation(f"{cname}.{meth}", f"an index computed during the first draw is int32 max + {top - INT32_MAX}: it wraps "
                                        f"around under jit (int32) but not eagerly (Python int)", "every index <= int32 max")
                    return f"reshuffles ({len(perms)} permutation draw(s)); largest index computed = int32max - {INT32_MAX - top}"
                chk.run(rule_id, f"{MOD}:{cname}.{meth} (first draw)", dict(sizes), go, construct=f"{cname}.{meth} first draw")
