"""C05 - initial-condition, normalisation and observation terms match their definitions.

Formula inference on the three loss classes (built through the repository's constructors):
 R1 normalisation  w * Mean[times]((L * Mean[samples](u) - 1)^2)   (no outer mean without time)
 R2 initial cond.  ODE: Mean(w * sum_c (u_c(t0) - u0_c)^2);  PDE: Mean[rows](sum_c w_c (u0_c(x) - u_c(0, x))^2)
 R3 observations   Mean[rows](sum_{c in slice} w_c (u_c(in_i; params_i) - val_{i,c})^2), every observed equation
                   parameter reaching the network row-aligned with the inputs
"""
from __future__ import annotations
import numpy as np

from ..alg import Poly, AT, to_at, Top, Finding, K, tm, pt, batch_x, batch_t, jnp_sum, jnp_stack, bind
from ..extern import prepend
from ..lossenv import LossEnv, SingleLoss, mean_over, row_point, row_params, user_fn, weight
from ..report import Violation, Inconclusive
from ..specs import canon, fmt_list
from .C03 import scalar_of

SITE = {"ODE": "jinns.loss._LossODE:LossODE.evaluate", "statio_PDE": "jinns.loss._LossPDE:LossPDEStatio.evaluate",
        "nonstatio_PDE": "jinns.loss._LossPDE:LossPDENonStatio.evaluate"}


def check_eq(found, exp, what):
    f, e = canon(scalar_of(found, what)), canon(scalar_of(exp, 'spec'))
    if f != e:
        raise Violation(what, str(f), str(e))
    return f"{what} = {f}"


def run(chk):
    E = LossEnv(chk.repo)
    chk.files = E.w.files
    thorough = chk.full
    chk.rule("C05.R1", "normalisation term == w * Mean[times]((L * Mean[samples](u) - 1)^2)", floor=4)
    chk.rule("C05.R2", "initial-condition term == weighted mean squared mismatch at the initial time", floor=3)
    chk.rule("C05.R3", "observation term == Mean[rows](sum_c w_c (u_c(input_i; params_i) - val_ic)^2), observed parameters "
                       "row-aligned", floor=3)

    # ---------------- R1 normalisation (also with a single Monte-Carlo sample / a single time: alg.unit_axes)
    from ..alg import unit_axes
    r1_cfgs = []
    for eq_type in ('statio_PDE', 'nonstatio_PDE'):
        for kind in ('PINN', 'SPINN'):
            for d, m_u in (((1, 1), (2, 1), (2, 2)) if thorough else ((2, 1), (2, 2))):
                if kind == 'SPINN' and m_u > 1:
                    continue   # a SPINN has no notion of solution slice
                r1_cfgs.append((eq_type, kind, d, m_u, ()))
        r1_cfgs.append((eq_type, 'PINN', 2, 1, ("S",)))
    r1_cfgs.append(('nonstatio_PDE', 'PINN', 2, 1, ("B",)))
    r1_cfgs.append(('nonstatio_PDE', 'PINN', 1, 1, ("B", "S")))
    for eq_type, kind, d, m_u, units in r1_cfgs:
        for _ in (0,):
            for _ in (0,):
                cfg = {"loss": eq_type, "net": kind, "d": d, "outputs": m_u, "slice_solution": "[0:1]"}
                if units:
                    cfg["single_row_axes"] = [dict(S="normalisation samples", B="times")[x] for x in units]

                def go(eq_type=eq_type, kind=kind, d=d, m_u=m_u, units=units):
                    with unit_axes(*units):
                        return go_(eq_type, kind, d, m_u)

                def go_(eq_type, kind, d, m_u):
                    S = SingleLoss(E, eq_type, kind, d=d, m_u=m_u, terms=('norm',))
                    S.u.slice_solution = slice(0, 1)     # the solution is output 0, other outputs are auxiliary
                    total, terms = S.evaluate()
                    w, L = S.w['norm_loss'], K('L')
                    one = Poly.const(1)
                    if kind == 'PINN':
                        if eq_type == 'statio_PDE':
                            uS = S.u(pt(d, {"S"}), S.params)[0]
                            integ = mean_over(("S",), prepend(uS, "S")).data[()] * L
                            exp = w * (integ - one) ** 2
                        else:
                            uBS = S.u(tm({"B"}), pt(d, {"S"}), S.params)[0]
                            integ = bind('Mean', 'S', uBS.data[()]) * L
                            exp = w * bind('Mean', 'B', (integ - one) ** 2)
                    else:
                        if eq_type == 'statio_PDE':
                            g = S.u(batch_x(d, "S"), S.params)[..., 0]
                            integ = mean_over(g.axes, g).data[()] * L
                            exp = w * (integ - one) ** 2
                        else:
                            g = S.u(batch_t("B"), batch_x(d, "S"), S.params)[..., 0]
                            sp = mean_over(tuple(a for a in g.axes if a != "Gt"), g)
                            integ = sp.data[()] * L
                            exp = w * bind('Mean', 'Gt', (integ - one) ** 2)
                    return check_eq(terms['norm_loss'], exp, 'norm_loss')
                chk.run("C05.R1", SITE[eq_type] + "->normalization_loss_apply", cfg, go, construct=f"norm_loss[{kind},{eq_type}]")

    # ---------------- R2 initial condition
    for m_u in ((1, 2) if thorough else (2,)):
        for pk in ((), ('nu',)):
            cfg = {"loss": "ODE", "outputs": m_u, "param_batch": list(pk)}

            def go(m_u=m_u, pk=pk):
                S = SingleLoss(E, 'ODE', 'PINN', m_u=m_u, terms=('ic',))
                total, terms = S.evaluate(param_keys=pk)
                w = S.w['initial_condition']
                if pk:
                    uv = S.u(to_at(S.t0), row_params(E, S.params, pk))
                else:
                    uv = S.u(to_at(S.t0), S.params)
                sq = jnp_sum((uv - S.u0) ** 2, axis=-1).data[()]
                exp = w * sq
                if pk:
                    exp = bind('Mean', 'B', exp)
                return check_eq(terms['initial_condition'], exp, 'initial_condition')
            chk.run("C05.R2", SITE['ODE'] + " (initial condition block)", cfg, go, construct="initial_condition[ODE]")
    # per-component weights: sum_c w_c (u_c(t0) - u0_c)^2, as in the sibling PDE term and the dynamic term
    for pk in ((), ('nu',)):
        cfg = {"loss": "ODE", "outputs": 2, "param_batch": list(pk), "weight": "per component"}

        def go(pk=pk):
            S = SingleLoss(E, 'ODE', 'PINN', m_u=2, terms=('ic',), wkind='vector', wkind_terms=('initial_condition',))
            total, terms = S.evaluate(param_keys=pk)
            w = to_at(S.w['initial_condition'])
            uv = S.u(to_at(S.t0), row_params(E, S.params, pk) if pk else S.params)
            sq = jnp_sum(w * (uv - S.u0) ** 2, axis=-1).data[()]
            exp = bind('Mean', 'B', sq) if pk else sq
            return check_eq(terms['initial_condition'], exp, 'initial_condition')
        chk.run("C05.R2", SITE['ODE'] + " (initial condition block)", cfg, go, construct="initial_condition[ODE] with per-component weights")
    # the initial-condition term uses the caller's / parameter-batch values, never the observed parameters
    for pk in ((), ('nu',)):
        cfg = {"loss": "ODE", "outputs": 1, "param_batch": list(pk), "observations_with_observed_parameter": "nu"}

        def go(pk=pk):
            S = SingleLoss(E, 'ODE', 'PINN', m_u=1, terms=('ic', 'obs'))
            total, terms = S.evaluate(param_keys=pk, observed_params=('nu',))
            w = S.w['initial_condition']
            uv = S.u(to_at(S.t0), row_params(E, S.params, pk) if pk else S.params)
            sq = jnp_sum((uv - S.u0) ** 2, axis=-1).data[()]
            exp = w * sq
            if pk:
                exp = bind('Mean', 'B', exp)
            check_eq(terms['initial_condition'], exp, 'initial_condition')
            from .C12 import check_alignment
            check_alignment({'initial_condition': terms['initial_condition']}, pk, rows="B")
            return "initial condition evaluated with the caller's / parameter-batch values"
        chk.run("C05.R2", SITE['ODE'] + " (initial condition block)", cfg, go, construct="initial_condition[ODE] with observations present")

    for kind in ('PINN', 'SPINN'):
        for m_u in ((1, 2) if thorough else (1,)):
            for wk in ('scalar', 'vector'):
                for pk in (((), ('nu',)) if kind == 'PINN' else ((),)):
                    cfg = {"loss": "nonstatio_PDE", "net": kind, "outputs": m_u, "weight": wk, "param_batch": list(pk)}

                    def go(kind=kind, m_u=m_u, wk=wk, pk=pk):
                        S = SingleLoss(E, 'nonstatio_PDE', kind, d=2, m_u=m_u, terms=('ic',))
                        w = weight(wk, m_u, 'w_initial_condition')
                        LW = E.cls(E.mod_lw, 'LossWeightsPDENonStatio')
                        ws = dict(S.w)
                        ws['initial_condition'] = w
                        S.loss = S.loss.replace_fields({'loss_weights': LW(**ws)})
                        total, terms = S.evaluate(param_keys=pk)
                        u0 = S.loss.fields['initial_condition_fun']
                        if kind == 'PINN':
                            x = pt(2, {"B"})
                            zero = AT((1,), np.array([Poly.const(0)], dtype=object))
                            res = to_at(u0(x)) - S.u(zero, x, row_params(E, S.params, pk) if pk else S.params)
                            s = jnp_sum(to_at(w) * res * res, axis=-1)
                            exp = mean_over(("B",), prepend(s, "B"))
                        else:
                            from ..alg import jnp_meshgrid
                            xb = batch_x(2)
                            grid = jnp_stack(jnp_meshgrid(*(xb[..., j] for j in range(2)), indexing="ij"), axis=-1)
                            t0 = AT(("B", 1), np.array([Poly.const(0)], dtype=object))
                            v = S.u(t0, xb, S.params)[0]
                            res = to_at(u0(grid)) - v
                            s = jnp_sum(to_at(w) * res * res, axis=-1)
                            exp = mean_over(s.axes, s)
                        return check_eq(terms['initial_condition'], exp, 'initial_condition')
                    chk.run("C05.R2", SITE['nonstatio_PDE'] + "->initial_condition_apply", cfg, go,
                            construct=f"initial_condition[{kind}]")

    # ---------------- R3 observations
    for eq_type in ('ODE', 'statio_PDE', 'nonstatio_PDE'):
        for m_u, sl in (((1, None), (2, None), (2, slice(0, 1)), (3, slice(1, 3))) if thorough else ((2, None), (2, slice(0, 1)))):
            for pk in ((), ('nu',)):
                for op in ((), ('nu',), ('th',)):
                    if not thorough and pk and op:
                        continue
                    for wk in (('scalar', 'vector') if (sl is None and m_u > 1 and not op) else ('scalar',)):
                        cfg = {"loss": eq_type, "outputs": m_u, "obs_slice": str(sl), "param_batch": list(pk), "observed_params": list(op)}
                        if wk == 'vector':
                            cfg["weight"] = "per component"

                        def go(eq_type=eq_type, m_u=m_u, sl=sl, pk=pk, op=op, wk=wk):
                            S = SingleLoss(E, eq_type, 'PINN', d=2, m_u=m_u, terms=('obs',), eq_keys=('nu', 'th'), obs_slice=sl,
                                           wkind=wk, wkind_terms=('observations',))
                            rows = "B" if pk else "I"
                            total, terms = S.evaluate(param_keys=pk, observed_params=op)
                            w = S.w['observations']
                            pts = row_point(eq_type, 2 if eq_type != 'ODE' else 0, rows)
                            if eq_type == 'ODE':
                                # observed inputs are (rows, 1): the network sees a length-1 time
                                pts = (tm({rows}),)
                            prow = row_params(E, S.params, tuple(set(pk) | set(op)), rows)
                            uv = S.u(*pts, prow)
                            comps = list(range(m_u))[sl] if sl is not None else list(range(m_u))
                            acc = Poly()
                            for j, c in enumerate(comps):
                                diff = uv.data[c] - Poly.atom(('F', 'obs', j, frozenset({rows})))
                                wj = to_at(w).data[j] if (isinstance(w, AT) and w.axes) else w     # a per-component weight weights its own component
                                acc = acc + wj * diff * diff
                            exp = bind('Mean', rows, acc)
                            return check_eq(terms['observations'], exp, 'observations')
                        chk.run("C05.R3", SITE[eq_type] + "->observations_loss_apply", cfg, go,
                                construct=f"observations[{eq_type}" + (",observed eq_params" if op else "") + "]")

    # ---------------- the weights are those of the public `loss_weights` field at evaluation time (nothing derived from them
    # at construction survives their replacement)
    from ..lossenv import replaced_weights_twin
    for eq_type, term, rule, key in (('statio_PDE', 'norm', 'C05.R1', 'norm_loss'), ('nonstatio_PDE', 'norm', 'C05.R1', 'norm_loss'),
                                     ('ODE', 'ic', 'C05.R2', 'initial_condition'), ('nonstatio_PDE', 'ic', 'C05.R2', 'initial_condition'),
                                     ('ODE', 'obs', 'C05.R3', 'observations'), ('statio_PDE', 'obs', 'C05.R3', 'observations'),
                                     ('nonstatio_PDE', 'obs', 'C05.R3', 'observations')):
        cfg = {"loss": eq_type, "net": "PINN", "term": term, "loss_weights": "replaced after construction"}

        def go(eq_type=eq_type, term=term, key=key):
            if term == 'norm':      # the normalised solution is a scalar density
                return replaced_weights_twin(lambda: SingleLoss(E, eq_type, 'PINN', d=2, m_u=1, terms=(term,)), key)
            return replaced_weights_twin(lambda: SingleLoss(E, eq_type, 'PINN', d=2, m_u=2, terms=(term,), wkind='vector',
                                                            wkind_terms=(key,)), key)
        chk.run(rule, SITE[eq_type], cfg, go, construct=f"{key} (weights replaced after construction)")

    from ..lossenv import replaced_field_twin
    for eq_type in ('ODE',):
        cfg = {"loss": eq_type, "net": "PINN", "term": "ic", "initial_condition": "replaced after construction"}

        def go(eq_type=eq_type):
            mk = lambda t0: (lambda: SingleLoss(E, eq_type, 'PINN', d=2, m_u=2, terms=('ic',), ic_t0=t0))
            return replaced_field_twin(mk(None), mk(K('t1')), 'initial_condition', term_keys=['initial_condition'])
        chk.run("C05.R2", SITE[eq_type], cfg, go, construct="initial_condition (field replaced after construction)")

    # weights: 0 at construction, replaced afterwards (nothing decided at construction from the weight's value survives)
    for eq_type, term, rule, key in (('statio_PDE', 'norm', 'C05.R1', 'norm_loss'), ('ODE', 'ic', 'C05.R2', 'initial_condition'),
                                     ('nonstatio_PDE', 'ic', 'C05.R2', 'initial_condition'), ('ODE', 'obs', 'C05.R3', 'observations'),
                                     ('statio_PDE', 'obs', 'C05.R3', 'observations')):
        cfg = {"loss": eq_type, "net": "PINN", "term": term, "loss_weights": "0 at construction, replaced afterwards"}

        def go(eq_type=eq_type, term=term, key=key):
            return replaced_field_twin(lambda: SingleLoss(E, eq_type, 'PINN', d=2, m_u=1, terms=(term,), weight_value=0),
                                       lambda: SingleLoss(E, eq_type, 'PINN', d=2, m_u=1, terms=(term,)), 'loss_weights', term_keys=[key])
        chk.run(rule, SITE[eq_type], cfg, go, construct=f"{key} (weight 0 at construction, replaced afterwards)")

    # ---------------- R4 the solution slice that the normalisation and observation terms select is the one the caller specified
    chk.rule("C05.R4", "the solution components entering the normalisation / observation terms are those given to the network "
                       "factory: None = all outputs, an integer k (0 included) = component k only, a slice = itself", floor=6)
    from .C10 import factory_slice_rule
    factory_slice_rule(chk, "C05.R4")

    # ---------------- R5 "row i evaluated with row i of any observed parameter" starts in the loader: one index vector gathers the
    # input, the value and every observed parameter of a mini-batch
    chk.rule("C05.R5", "the observation loader gathers input, value and every observed equation parameter with the same row indices", floor=1)
    from ..genenv import GenEnv
    from .C15 import check_obs_gather
    G5 = GenEnv(chk.repo)
    chk.files.update(G5.w.files)
    chk.run("C05.R5", "jinns.data._DataGenerators:DataGeneratorObservations.obs_batch", {}, (lambda: check_obs_gather(G5)),
            construct="aligned observation batch")
