"""C01 - differential operators return the mathematical operator's value.

Decided statically: *which* differential expression each operator of jinns/loss/_operators.py computes,
for every spatial dimension, with and without a time argument, reverse (PINN) and forward (SPINN)
versions; the time argument is held fixed; no parameter value enters; exported names are bound to the
same-named functions.  Method: tensor-formula inference (abstract interpretation of the AST over
differential polynomials) compared with the formula written from the mathematical definition.
"""
from __future__ import annotations
import ast

from ..alg import Poly, to_at, pt, tm, batch_x, batch_t, NNLabel, Top, Finding
from ..extern import make_world, Net
from ..report import Violation, Inconclusive, where_of
from ..specs import canon, canon_at, U, fmt_list

MOD = "jinns.loss._operators"


def spec_div(d):
    return [sum((U('u', i, i) for i in range(d)), Poly())]


def spec_lap(d, k=0):
    return [sum((U('u', k, i, i) for i in range(d)), Poly())]


def spec_veclap(d, m):
    return [spec_lap(d, j)[0] for j in range(m)]


def spec_adv(d):
    return [sum((U('u', j) * U('u', k, j) for j in range(d)), Poly()) for k in range(d)]


def _inputs(kind, d, has_t):
    if kind == 'PINN':
        if has_t == 'scalar':
            import numpy as np
            from ..alg import AT
            return AT((), np.array(Poly.atom(('T', frozenset())), dtype=object)), pt(d)
        return (tm() if has_t else None), pt(d)
    return (batch_t() if has_t else None), batch_x(d)


def _grid_axes(d, has_t):
    return ((("Gt",) if has_t else ()) + tuple(f"G{j}" for j in range(d)))


def compare(found, expected, axes_expected, what):
    axes, ents = canon_at(found)
    if list(ents) != list(expected) or tuple(axes) != tuple(axes_expected):
        raise Violation(what, f"axes={axes} formula={fmt_list(ents)}",
                        f"axes={tuple(axes_expected)} formula={fmt_list(expected)}")
    return f"axes={axes} formula={fmt_list(ents)}"


def run(chk):
    w = make_world(chk.repo)
    m = w.module(MOD)
    chk.files = w.files
    dims = (1, 2, 3, 4) if chk.tier == "quick" else (1, 2, 3, 4, 5)
    chk.rule("C01.R1", "inferred result polynomial of each operator equals the mathematical definition "
                       "(div = sum_i d_i u_i; lap = sum_i d_ii u_0; veclap_j = sum_i d_ii u_j; adv_k = sum_j u_j d_j u_k); "
                       "no time derivative, no parameter atom", floor=8 * 2)
    chk.rule("C01.R4", "names exported by jinns.loss are bound to the same-named operator functions", floor=5)
    chk.rule("C01.R5", "the default number of components of the vector Laplacian is a coordinate extent, never the "
                       "extent of a row axis", floor=2)
    P = NNLabel('u')

    def fn(name):
        try:
            return m.env.get(name)
        except Exception:
            raise Inconclusive(f"operator {name} not found in {MOD}")

    def node_where(name):
        n = w.find_function_node(MOD, name)
        return where_of(w, MOD, n) if n is not None else MOD

    for d in dims:
        for has_t in (False, True, 'scalar'):
            et = 'nonstatio_PDE' if has_t else 'statio_PDE'
            cfg = {"d": d, "time": has_t}
            for kind, suffix in (('PINN', '_rev'), ('SPINN', '_fwd')):
                if has_t == 'scalar' and kind == 'SPINN':
                    continue   # a separable network takes a column of times; a 0-d time is a PINN input only
                t, x = _inputs(kind, d, has_t)
                gax = _grid_axes(d, has_t) if kind == 'SPINN' else ()
                # divergence
                u = Net('u', kind, d, et, d)
                name = "_div" + suffix
                chk.run("C01.R1", f"{MOD}:{name}", cfg,
                        (lambda name=name, t=t, x=x, u=u, gax=gax: compare(fn(name)(t, x, u, P), spec_div(d), gax, name)),
                        construct=name)
                # laplacian of a scalar field
                u1 = Net('u', kind, 1, et, d)
                name = "_laplacian" + suffix
                chk.run("C01.R1", f"{MOD}:{name}", cfg,
                        (lambda name=name, t=t, x=x, u1=u1, gax=gax: compare(fn(name)(t, x, u1, P), spec_lap(d), gax, name)),
                        construct=name)
                # vector laplacian, default component count (= d) and explicit count m != d
                name = "_vectorial_laplacian"
                for mm, explicit in ((d, False), (d, True), (d + 1, True)) + (((d - 1, True),) if d >= 2 else ()):
                    um = Net('u', kind, mm, et, d)
                    cfg2 = dict(cfg, kind=kind, m=mm, u_vec_ndim=("explicit" if explicit else "default"))
                    exp_axes = (mm,) + gax

                    def go(t=t, x=x, um=um, mm=mm, explicit=explicit, exp_axes=exp_axes):
                        r = fn(name)(t, x, um, P, mm) if explicit else fn(name)(t, x, um, P)
                        return compare(r, spec_veclap(d, mm), exp_axes, name)
                    rule = "C01.R5" if not explicit else "C01.R1"
                    chk.run(rule, f"{MOD}:{name}", cfg2, go, construct=f"{name}[{kind},{'default' if not explicit else 'explicit'}]")
                # advection (2-D only in the code base)
                if d == 2:
                    name = "_u_dot_nabla_times_u" + suffix
                    exp_axes = (2,) if kind == 'PINN' else gax + (2,)
                    chk.run("C01.R1", f"{MOD}:{name}", cfg,
                            (lambda name=name, t=t, x=x, u=u, exp_axes=exp_axes: compare(fn(name)(t, x, u, P), spec_adv(2), exp_axes, name)),
                            construct=name)

    # a separable network evaluated on ONE point (a batch with a single row): the grid has one node, the operators are the same
    import numpy as np
    from ..alg import AT
    for d in (1, 2, 3):
        for has_t in (False, True):
            et = 'nonstatio_PDE' if has_t else 'statio_PDE'
            cfg = {"d": d, "time": has_t, "kind": "SPINN", "rows": 1}
            x = AT((1, d), np.array([[Poly.atom(('X', j, frozenset())) for j in range(d)]], dtype=object))
            t = AT((1, 1), np.array([[Poly.atom(('T', frozenset()))]], dtype=object)) if has_t else None
            gax = (1,) * (d + (1 if has_t else 0))
            u = Net('u', 'SPINN', d, et, d)
            u1 = Net('u', 'SPINN', 1, et, d)
            chk.run("C01.R1", f"{MOD}:_div_fwd", cfg,
                    (lambda t=t, x=x, u=u, gax=gax, d=d: compare(fn("_div_fwd")(t, x, u, P), spec_div(d), gax, "_div_fwd")),
                    construct="_div_fwd[one point]")
            chk.run("C01.R1", f"{MOD}:_laplacian_fwd", cfg,
                    (lambda t=t, x=x, u1=u1, gax=gax, d=d: compare(fn("_laplacian_fwd")(t, x, u1, P), spec_lap(d), gax, "_laplacian_fwd")),
                    construct="_laplacian_fwd[one point]")
            um = Net('u', 'SPINN', d + 1, et, d)
            chk.run("C01.R1", f"{MOD}:_vectorial_laplacian", dict(cfg, m=d + 1),
                    (lambda t=t, x=x, um=um, gax=gax, d=d: compare(fn("_vectorial_laplacian")(t, x, um, P, d + 1), spec_veclap(d, d + 1),
                                                                  (d + 1,) + gax, "_vectorial_laplacian")),
                    construct="_vectorial_laplacian[SPINN, one point]")

    # R4 exports
    try:
        pkg = w.module("jinns.loss")
    except Top as e:
        pkg = None
    for name in ("_div_fwd", "_div_rev", "_laplacian_fwd", "_laplacian_rev", "_vectorial_laplacian"):
        def go(name=name):
            if pkg is None:
                raise Inconclusive("jinns.loss could not be loaded")
            a = pkg.env.local.get(name)
            b = m.env.local.get(name)
            if a is None:
                raise Violation(name, "name not exported by jinns.loss", f"jinns.loss.{name} is {MOD}.{name}")
            if a is not b or getattr(b, 'node', None) is None or b.node.name != name:
                raise Violation(name, f"jinns.loss.{name} is bound to {getattr(a, 'name', a)!r}", f"{MOD}.{name}")
            return "bound to the same-named function"
        chk.run("C01.R4", f"jinns.loss:{name}", {}, go, construct=f"export {name}")
