"""C14 - space-time batches are exact cartesian products (or exact pairings).

Abstract interpretation with structured row axes: repeat(A, |B|) and tile(B, |A|) enumerate the product A x B with A
major; concatenating them column-wise yields the row axis Prod(A,B) (every (a_i, b_j) pair once, a-major).
 R1 make_cartesian_product(b1, b2): rows Prod(rows(b1), rows(b2)), columns [b1 | b2] (2-D and 3-D border tensors);
 R2 CubicMeshPDENonStatio.get_batch (its three batch methods replaced by tensors with named rows):
    cartesian: interior rows Prod(time, space), each border facet rows Prod(time, border) with the SAME time column for
    all facets; non cartesian: row i pairs time i with point i; column 0 is time, the other columns the coordinates;
    dim == 1 forces the product for the (single-row) border.
"""
from __future__ import annotations
import numpy as np

from ..alg import Poly, AT, Sym, SymDim, K, to_at, Top, Finding, batch_x
from ..genenv import GenEnv, MOD
from ..interp import freeze
from ..lossenv import LossEnv
from ..report import Violation, Inconclusive


def T(rows):
    return Poly.atom(('T', frozenset({rows})))


def X(j, *tags):
    return Poly.atom(('X', j, frozenset(tags)))


def check_tensor(v, axes, entry, what):
    v = to_at(v)
    if tuple(v.axes) != tuple(axes):
        raise Violation(what + " rows/shape", f"axes {v.axes}", f"axes {tuple(axes)}")
    for idx in np.ndindex(v.data.shape):
        e = entry(idx)
        if v.data[idx] != e:
            raise Violation(what + f" entry {idx}", str(v.data[idx]), str(e))


def border(d, rows):
    nf = 2 * d
    if d == 1:
        return AT((1, 1, 2), np.array([[[X(0, "facet0"), X(0, "facet1")]]], dtype=object))
    dat = np.empty((d, nf), dtype=object)
    for c in range(d):
        for f in range(nf):
            dat[c, f] = X(c, rows, f"facet{f}")
    return AT((rows, d, nf), dat)


def spacetime_batch_obligations(G):
    """(configuration, thunk) pairs deciding the structure of CubicMeshPDENonStatio.get_batch's space-time batches"""
    out = []
    for cart, equal in ((True, False), (False, False), (True, True)):
        for d in (1, 2):
            for with_border in (True, False):
                cfg = {"cartesian_product": cart, "dim": d, "border": with_border}
                if equal:
                    cfg["batch_sizes"] = "temporal == interior == border"

                def go(cart=cart, d=d, with_border=with_border, equal=equal):
                    from .. import alg as _alg
                    rt, rx, rb = ("Bt", "Bx", "Bb") if cart else ("B", "B", "B")
                    def forget():
                        # declared extents and every extent DERIVED from them (names such as '(Bt*Bx)' remember the polynomial they
                        # were computed from: stale after the declaration changes)
                        for nm in [k_ for k_ in _alg.AXIS_EXTENT if any(b_ in k_ for b_ in ("Bt", "Bx", "Bb"))]:
                            del _alg.AXIS_EXTENT[nm]
                    forget()
                    if equal:
                        # three different tables that happen to have the same number of rows: still the full product
                        for nm in ("Bt", "Bx", "Bb"):
                            _alg.AXIS_EXTENT[nm] = K('b')
                    try:
                        return go_(cart, d, with_border, rt, rx, rb, equal)
                    finally:
                        forget()

                def go_(cart, d, with_border, rt, rx, rb, equal):
                    tvec = AT((rt,), np.array(T(rt), dtype=object))
                    x = batch_x(d, rx)
                    dx = border(d, rb) if with_border else None
                    over = {}
                    if d == 1 and with_border:
                        # in 1-D the generator's own border_batch is used: the border is the stored pair of end points
                        over['omega_border'] = AT((2,), np.array([X(0, "facet0"), X(0, "facet1")], dtype=object))
                    if equal and with_border and d > 1:
                        over['omega_border_batch_size'] = SymDim(rb)
                    gen = G.nonstatio(d, border=with_border, cartesian=cart, temporal_batch_size=SymDim(rt),
                                      omega_batch_size=SymDim(rx), **over)
                    holder = {}
                    stubs = {'inside_batch': lambda: (holder['g'], x), 'border_batch': lambda: (holder['g'], dx),
                             'temporal_batch': lambda: (holder['g'], tvec)}
                    if d == 1 and with_border:
                        del stubs['border_batch']
                    g = gen.replace_fields(stubs)
                    if d == 1 and with_border:
                        # one border row whatever the batch sizes: its product with the time batch has one row per time
                        _, bb1 = g.border_batch()
                        check_tensor(bb1, (1, 1, 2), lambda i: X(0, f"facet{i[2]}"), "1-D border batch")
                    holder['g'] = g
                    new, batch = g.get_batch()
                    tx = batch.fields['times_x_inside_batch']
                    rows = f"Prod({rt},{rx})" if cart else "B"
                    check_tensor(tx, (rows, 1 + d), lambda i: T(rt) if i[0] == 0 else X(i[0] - 1, rx), "times_x_inside_batch")
                    tdx = batch.fields['times_x_border_batch']
                    if not with_border:
                        if tdx is not None:
                            raise Violation("border", repr(tdx), "None")
                        return f"interior rows {rows}"
                    nf = 2 * d
                    if d == 1:
                        # the border is the single row [xmin, xmax]: its product with the time batch has one row per time
                        check_tensor(tdx, (rt, 2, nf), lambda i: T(rt) if i[0] == 0 else X(0, f"facet{i[1]}"), "times_x_border_batch")
                        return f"interior rows {rows}; border rows {rt} (time x single border row)"
                    brow = f"Prod({rt},{rb})" if cart else "B"
                    check_tensor(tdx, (brow, 1 + d, nf),
                                 lambda i: T(rt) if i[0] == 0 else X(i[0] - 1, rb, f"facet{i[1]}"), "times_x_border_batch")
                    return f"interior rows {rows}; border rows {brow}, same time column for all facets"
                out.append((cfg, go, f"get_batch[{'cartesian' if cart else 'paired'},{d}D{', equal sizes' if equal else ''}]"))
    return out


def run(chk):
    G = GenEnv(chk.repo)
    chk.files = G.w.files
    chk.rule("C14.R1", "make_cartesian_product: rows = Prod(rows(b1), rows(b2)) (b1 major), columns [b1 | b2]", floor=2)
    chk.rule("C14.R2", "get_batch: product / pairing structure of the interior and border space-time batches, time in column 0", floor=8)
    mcp = G.fn("make_cartesian_product")

    def go_2d(d):
        def go():
            t = AT(("Bt", 1), np.array([T("Bt")], dtype=object))
            x = batch_x(d, "Bx")
            r = mcp(t, x)
            check_tensor(r, ("Prod(Bt,Bx)", 1 + d), lambda i: T("Bt") if i[0] == 0 else X(i[0] - 1, "Bx"), "product")
            return "rows Prod(Bt,Bx), columns [t | x]"
        return go
    for d in (1, 2, 3):
        chk.run("C14.R1", f"{MOD}:make_cartesian_product", {"dim": d, "rank": 2}, go_2d(d), construct="make_cartesian_product")

    def go_3d():
        nf, d = 4, 2
        t = AT(("Bt", 1, nf), np.array([[T("Bt")] * nf], dtype=object))
        dx = border(d, "Bb")
        r = mcp(t, dx)
        check_tensor(r, ("Prod(Bt,Bb)", 1 + d, nf),
                     lambda i: T("Bt") if i[0] == 0 else X(i[0] - 1, "Bb", f"facet{i[1]}"), "border product")
        return "rows Prod(Bt,Bb), columns [t | dx] for every facet"
    chk.run("C14.R1", f"{MOD}:make_cartesian_product", {"dim": 2, "rank": 3}, go_3d, construct="make_cartesian_product (border)")
    for cfg, go, construct in spacetime_batch_obligations(G):
        chk.run("C14.R2", f"{MOD}:CubicMeshPDENonStatio.get_batch", cfg, go, construct=construct)
    run_factor_batches(chk, G)


def run_factor_batches(chk, G):
    """R3: "each pair exactly once" also needs each FACTOR of the product to hold distinct rows: the time, interior and border
    batches of the non-stationary generator are slices (with the declared size) of a permutation without replacement of their
    store - the step decided for every generator kind under C09"""
    from .C09 import check_draw
    from ..alg import K, Sym
    chk.rule("C14.R3", "the time / interior / border batches that enter the product are slices of a permutation without "
                       "replacement of their stores (no repeated factor row, hence no repeated pair)", floor=3)
    J = K('J')
    cases = [
        ("temporal_batch", {}, lambda: G.nonstatio(2), ('key', 'times', 'curr_time_idx'), K('bt'), K('nt'), None, (K('bt'),)),
        ("temporal_batch", {"rar": True}, lambda: G.nonstatio(2, rar=True), ('key', 'times', 'curr_time_idx'), K('bt'),
         K('nt_start') + J * K('sel_t'), Sym('p_times'), (K('bt'),)),
        ("inside_batch", {}, lambda: G.nonstatio(2), ('key', 'omega', 'curr_omega_idx'), K('bx'), K('n'), None, (K('bx'), 2)),
        ("inside_batch", {"rar": True}, lambda: G.nonstatio(2, rar=True), ('key', 'omega', 'curr_omega_idx'), K('bx'),
         K('n_start') + J * K('sel_x'), Sym('p_omega'), (K('bx'), 2)),
        ("border_batch", {}, lambda: G.nonstatio(2), ('key', 'omega_border', 'curr_omega_border_idx'), K('bb'), K('nb') // 4, None,
         (K('bb'), 2, 4)),
    ]
    for meth, cfg, mk, fields, b, n_eff, p, sizes in cases:
        chk.run("C14.R3", f"{MOD}:CubicMeshPDENonStatio.{meth}", cfg,
                (lambda meth=meth, mk=mk, fields=fields, b=b, n_eff=n_eff, p=p, sizes=sizes:
                 check_draw(mk(), meth, fields, b, n_eff, p, sizes, f"CubicMeshPDENonStatio.{meth}")),
                construct=f"factor batch {meth}")
