"""C06 - derivative keys route each term's gradient to exactly the selected parameters.

`jax.lax.stop_gradient` is modelled as the identity with a label: network-parameter labels and
equation-parameter atoms that passed through it are marked `sg`.  For every loss term T and parameter group g
(the network parameters, each equation parameter) and every assignment selected/not-selected:
  R1  every occurrence of g inside the inferred formula of T is unmarked iff (T, g) is selected
      (so d T / d g flows iff selected; an unselected pair contributes exactly zero);
  R2  the formulas with the marks erased do not depend on the assignment (values independent of the spec);
  R3  the string form (`from_str`) and the boolean-tree form give identical marked formulas;
  R4  the default specification selects the network parameters only.
"""
from __future__ import annotations
import itertools

from ..alg import Poly, AT, to_at, NNLabel, Top, Finding
from ..lossenv import LossEnv, SingleLoss
from ..report import Violation, Inconclusive
from ..specs import canon
from .C03 import scalar_of

TERMS = {'ODE': ('dyn_loss', 'initial_condition', 'observations'),
         'statio_PDE': ('dyn_loss', 'norm_loss', 'boundary_loss', 'observations'),
         'nonstatio_PDE': ('dyn_loss', 'norm_loss', 'boundary_loss', 'observations', 'initial_condition')}
CONF = {'dyn_loss': 'dyn', 'initial_condition': 'ic', 'observations': 'obs', 'norm_loss': 'norm', 'boundary_loss': 'bc'}
DK = {'ODE': 'DerivativeKeysODE', 'statio_PDE': 'DerivativeKeysPDEStatio', 'nonstatio_PDE': 'DerivativeKeysPDENonStatio'}
SITE = {"ODE": "jinns.loss._LossODE:LossODE.evaluate", "statio_PDE": "jinns.loss._LossPDE:LossPDEStatio.evaluate",
        "nonstatio_PDE": "jinns.loss._LossPDE:LossPDENonStatio.evaluate"}
EQ_KEYS = ('nu', 'th')
GROUPS = ('nn_params',) + EQ_KEYS


def occurrences(p, by_net=False):
    """{group: set of sg flags} over every occurrence of a parameter group in polynomial p; with by_net the groups
    are (network, group) and equation parameters are attributed to the network call they occur in"""
    occ = {}
    cur = [None]

    def leaf(x):
        if isinstance(x, Poly):
            poly(x)
        elif isinstance(x, tuple):
            for y in x:
                leaf(y)

    def atom(a):
        tag = a[0]
        if tag == 'U':
            nn, eq = a[5]
            if by_net:
                occ.setdefault((a[1], 'nn_params'), set()).add(bool(nn.sg))
                prev = cur[0]
                cur[0] = a[1]
                leaf(eq)
                cur[0] = prev
            else:
                occ.setdefault('nn_params', set()).add(bool(nn.sg))
                leaf(eq)
        elif tag == 'P':
            if 'observed' in a[2]:
                return                 # an observed VALUE of the parameter (data of the batch), not the parameter being trained
            if by_net:
                if cur[0] is not None:
                    occ.setdefault((cur[0], a[1]), set()).add(bool(a[4]))
            else:
                occ.setdefault(a[1], set()).add(bool(a[4]))
        elif tag in ('Mean', 'Sum'):
            poly(a[2])
        elif tag in ('Abs', 'Inv'):
            poly(a[1])
        elif tag == 'Log':
            atom(a[1])

    def poly(q):
        for at in q.atoms():
            atom(at)
    poly(p)
    return occ


def run(chk):
    E = LossEnv(chk.repo)
    chk.files = E.w.files
    thorough = chk.full
    chk.rule("C06.R1", "every occurrence of a parameter group inside a term's formula is behind stop_gradient iff the "
                       "(term, group) pair is not selected", floor=20)
    chk.rule("C06.R2", "term values (formulas with stop_gradient marks erased) do not depend on the derivative specification", floor=20)
    chk.rule("C06.R3", "from_str specification == boolean-tree specification (identical marked formulas)", floor=6)
    chk.rule("C06.R4", "the default specification selects the network parameters only, for every term", floor=3)
    Params = E.Params

    def mask_tree(sel, order=EQ_KEYS, as_numpy=False):
        # the mask is matched with the parameters by key: its own insertion order is immaterial; its leaves are booleans, given as
        # Python bools or as numpy / jax boolean scalars (what a loss that went through jit carries)
        import numpy as _np
        b = (lambda v: _np.bool_(bool(v))) if as_numpy else bool
        return Params.make(nn_params=b(sel['nn_params']), eq_params={k: b(sel[k]) for k in order})

    def to_str(sel):
        eq = [sel[k] for k in EQ_KEYS]
        if sel['nn_params'] and all(eq): return "both"
        if sel['nn_params'] and not any(eq): return "nn_params"
        if not sel['nn_params'] and all(eq): return "eq_params"
        return None

    for eq_type, terms in TERMS.items():
        dkcls = E.cls(E.mod_dk, DK[eq_type])
        pairs = [(t, g) for t in terms for g in GROUPS]
        assigns = []
        allT = {p: True for p in pairs}
        allF = {p: False for p in pairs}
        assigns += [allT, allF]
        for p in pairs:
            a = dict(allT); a[p] = False; assigns.append(a)
            a = dict(allF); a[p] = True; assigns.append(a)
        toggles = list(assigns)      # these also run with a reordered mask and with a parameter batch
        if thorough:
            # all assignments restricted to one term at a time (2^3 per term) on top of two backgrounds
            for t in terms:
                for bits in itertools.product((False, True), repeat=len(GROUPS)):
                    for bg in (allT, allF):
                        a = dict(bg)
                        for g, b in zip(GROUPS, bits):
                            a[(t, g)] = b
                        assigns.append(a)
        seen = set()
        uniq = []
        for a in assigns:
            k = tuple(sorted(a.items()))
            if k not in seen:
                seen.add(k); uniq.append(a)
        base_formulas = None
        plan = [(kind, a, EQ_KEYS, ()) for kind in (('PINN', 'SPINN') if (thorough and eq_type != 'ODE') else ('PINN',)) for a in uniq]
        plan += [('PINN', a, EQ_KEYS[::-1], ()) for a in toggles]
        plan += [('PINN', a, EQ_KEYS, pk) for a in toggles for pk in (('nu',), ('nu', 'th'))]
        plan = [x + ({},) for x in plan]
        # observations that come with observed values of one equation parameter: the other parameters are still routed as specified
        plan += [('PINN', a, EQ_KEYS, (), {'observed': ('nu',)}) for a in toggles]
        plan += [('PINN', a, EQ_KEYS, (), {'mask_leaves': 'numpy booleans'}) for a in toggles]
        if eq_type != 'ODE':
            # boundary conditions given facet by facet
            facets = ('xmin', 'xmax', 'ymin', 'ymax')
            plan += [('PINN', a, EQ_KEYS, (), {'per_facet': {f: 'dirichlet' for f in facets}}) for a in toggles]
        for kind, a, order, pk, var in plan:
            # the normalisation term cannot be combined with a parameter batch (its samples and the parameter rows are
            # vmapped together; see DESIGN section 6), so it is left out of those configurations
            conf = tuple(CONF[t] for t in terms if not (kind == 'SPINN' and t == 'observations') and not (pk and t == 'norm_loss'))
            if True:
                cfg = {"loss": eq_type, "net": kind,
                       "selected": sorted(f"{t}:{g}" for (t, g), v in a.items() if v)}
                if order != EQ_KEYS:
                    cfg["mask_key_order"] = list(order)
                if pk:
                    cfg["param_batch"] = list(pk)
                if var.get('observed'):
                    cfg["observed_parameters"] = list(var['observed'])
                if var.get('per_facet'):
                    cfg["boundary"] = "per facet"
                if var.get('mask_leaves'):
                    cfg["mask_leaves"] = var['mask_leaves']
                res = {}

                def build(a=a, eq_type=eq_type, kind=kind, conf=conf, terms=terms, dkcls=dkcls, order=order, pk=pk, var=var):
                    masks = {t: mask_tree({g: a[(t, g)] for g in GROUPS}, order, as_numpy=bool(var.get('mask_leaves'))) for t in terms}
                    dk = dkcls(**masks)
                    S = SingleLoss(E, eq_type, kind, d=2, m_u=1, m_res=1, terms=conf, eq_keys=EQ_KEYS, derivative_keys=dk,
                                   per_facet=var.get('per_facet'))
                    total, out = S.evaluate(param_keys=pk, observed_params=var.get('observed'))
                    return {t: scalar_of(out[t], t) for t in terms if CONF[t] in conf}

                def go_route(a=a, build=build, res=res):
                    res['f'] = build()
                    n = 0
                    for t, p in res['f'].items():
                        occ = occurrences(p)
                        if 'nn_params' not in occ:
                            raise Inconclusive(f"term {t} does not mention the network: {p}")
                        for g, flags in occ.items():
                            if g not in GROUPS:
                                continue
                            want_sg = not a[(t, g)]
                            if flags != {want_sg}:
                                raise Violation(f"{t}/{g}", f"occurrences of {g} in {t} have stop_gradient marks {sorted(flags)}",
                                                f"all {'behind' if want_sg else 'outside'} stop_gradient ({'not ' if want_sg else ''}selected)")
                            n += 1
                    return f"{n} (term, group) occurrences routed as specified"
                chk.run("C06.R1", SITE[eq_type] + "->_set_derivatives", cfg, go_route, construct="routing")

                def go_value(res=res, eq_type=eq_type, kind=kind, pk=pk, var=var):
                    if 'f' not in res:
                        raise Inconclusive("formulas unavailable")
                    cur = {t: canon(p) for t, p in res['f'].items()}
                    key = (eq_type, kind, pk, repr(sorted(var.items())))
                    ref = go_value.base.setdefault(key, cur)
                    for t in cur:
                        if cur[t] != ref[t]:
                            raise Violation(f"{t}", f"value formula changes with the specification: {cur[t]}", str(ref[t]))
                    return "values independent of the specification"
                go_value.base = run.__dict__.setdefault('_base', {})
                chk.run("C06.R2", SITE[eq_type], cfg, go_value, construct="value independent of derivative keys")
        run.__dict__['_base'] = {}

        # R3: from_str vs boolean trees
        for strs in itertools.product(("nn_params", "eq_params", "both"), repeat=len(terms)) if thorough else \
                [tuple(("nn_params", "eq_params", "both")[(i + s) % 3] for i in range(len(terms))) for s in range(3)]:
            cfg = {"loss": eq_type, "from_str": dict(zip(terms, strs))}

            def go(strs=strs, eq_type=eq_type, terms=terms, dkcls=dkcls):
                conf = tuple(CONF[t] for t in terms)
                S0 = SingleLoss(E, eq_type, 'PINN', d=2, terms=conf, eq_keys=EQ_KEYS)
                dk_s = dkcls.from_str(params=S0.params, **dict(zip(terms, strs)))
                sel = {"nn_params": {'nn_params': True, 'nu': False, 'th': False}, "eq_params": {'nn_params': False, 'nu': True, 'th': True},
                       "both": {'nn_params': True, 'nu': True, 'th': True}}
                dk_b = dkcls(**{t: mask_tree(sel[s]) for t, s in zip(terms, strs)})
                outs = []
                for dk in (dk_s, dk_b):
                    S = SingleLoss(E, eq_type, 'PINN', d=2, terms=conf, eq_keys=EQ_KEYS, derivative_keys=dk)
                    total, out = S.evaluate()
                    outs.append({t: canon(scalar_of(out[t], t), keep_fp=True, keep_sg=True) for t in terms})
                for t in terms:
                    if outs[0][t] != outs[1][t]:
                        raise Violation(t, f"from_str: {outs[0][t]}", f"boolean tree: {outs[1][t]}")
                return "identical marked formulas"
            chk.run("C06.R3", f"jinns.parameters._derivative_keys:{DK[eq_type]}.from_str", cfg, go, construct="from_str == tree")

        # R3 without equation parameters (a forward problem): "eq_params" selects nothing, the others the network
        def go_noeq(eq_type=eq_type, terms=terms, dkcls=dkcls):
            from ..alg import NNLabel
            p0 = E.Params.make(nn_params=NNLabel('u'), eq_params={})
            for s_, want in (("nn_params", True), ("eq_params", False), ("both", True)):
                dk = dkcls.from_str(params=p0, **{t: s_ for t in terms})
                for t in terms:
                    m = dk.fields[t]
                    got = m.fields['nn_params']
                    if got is not want and got != want:
                        raise Violation(t, f"from_str({t}={s_!r}) without equation parameters selects nn_params={got}", f"nn_params={want}")
                    if m.fields['eq_params']:
                        raise Violation(t, f"eq_params mask {m.fields['eq_params']}", "an empty mask")
            return "strings select the network / nothing / the network"
        chk.run("C06.R3", f"jinns.parameters._derivative_keys:{DK[eq_type]}.from_str", {"loss": eq_type, "eq_params": "{}"}, go_noeq,
                construct="from_str without equation parameters")

        # R4 default
        def go_default(eq_type=eq_type, terms=terms):
            conf = tuple(CONF[t] for t in terms)
            S = SingleLoss(E, eq_type, 'PINN', d=2, terms=conf, eq_keys=EQ_KEYS)
            dk = S.loss.fields['derivative_keys']
            for t in terms:
                m = dk.fields[t]
                got = {'nn_params': m.fields['nn_params'], **m.fields['eq_params']}
                want = {'nn_params': True, 'nu': False, 'th': False}
                if got != want:
                    raise Violation(t, f"default mask for {t} is {got}", str(want))
            return "default masks select nn_params only"
        chk.run("C06.R4", f"jinns.parameters._derivative_keys:{DK[eq_type]}.__post_init__", {"loss": eq_type}, go_default,
                construct="default derivative keys")

        # partial specifications: the terms that are given keep their mask, every omitted term gets the default
        for given in terms:
            def go_partial(eq_type=eq_type, terms=terms, dkcls=dkcls, given=given):
                S0 = SingleLoss(E, eq_type, 'PINN', d=2, terms=tuple(CONF[t] for t in terms), eq_keys=EQ_KEYS)
                special = {'nn_params': False, 'nu': True, 'th': False}
                dk = dkcls(**{given: mask_tree(special)}, params=S0.params)
                for t in terms:
                    m = dk.fields[t]
                    got = {'nn_params': m.fields['nn_params'], **m.fields['eq_params']}
                    want = special if t == given else {'nn_params': True, 'nu': False, 'th': False}
                    if got != want:
                        raise Violation(t, f"with only `{given}` specified the mask of {t} is {got}", str(want))
                return f"`{given}` kept, the omitted terms default to nn_params only"
            chk.run("C06.R4", f"jinns.parameters._derivative_keys:{DK[eq_type]}.__post_init__", {"loss": eq_type, "only_specified": given},
                    go_partial, construct="partial derivative keys")

        # the keys are read from the public field when the loss is evaluated: a loss built with the default keys whose
        # `derivative_keys` were replaced afterwards (eqx.tree_at) routes the gradients like a loss built with those keys
        def go_replaced(eq_type=eq_type, terms=terms, dkcls=dkcls):
            from ..lossenv import replaced_field_twin
            conf = tuple(CONF[t] for t in terms)
            special = {'nn_params': False, 'nu': True, 'th': False}

            def makeB():
                S0 = SingleLoss(E, eq_type, 'PINN', d=2, terms=conf, eq_keys=EQ_KEYS)
                dk = dkcls(**{t: mask_tree(special) for t in terms}, params=S0.params)
                return SingleLoss(E, eq_type, 'PINN', d=2, terms=conf, eq_keys=EQ_KEYS, derivative_keys=dk)
            return replaced_field_twin(lambda: SingleLoss(E, eq_type, 'PINN', d=2, terms=conf, eq_keys=EQ_KEYS), makeB,
                                       'derivative_keys', term_keys=list(terms), canon_kw=dict(keep_fp=True, keep_sg=True))
        chk.run("C06.R4", f"jinns.loss:{eq_type}.evaluate", {"loss": eq_type, "derivative_keys": "replaced after construction"},
                go_replaced, construct="derivative keys replaced after construction")


    # ---------------- R5: per-unknown terms of system losses
    from ..lossenv import SystemLoss
    chk.rule("C06.R5", "in a system loss, the per-unknown terms of unknown k are routed by derivative_keys_dict[k]", floor=3)
    sys_terms = {'ODE': ('initial_condition', 'observations'),
                 'statio_PDE': ('norm_loss', 'boundary_loss', 'observations'),
                 'nonstatio_PDE': ('norm_loss', 'boundary_loss', 'observations', 'initial_condition')}
    SSITE = {"ODE": "jinns.loss._LossODE:SystemLossODE", "statio_PDE": "jinns.loss._LossPDE:SystemLossPDE",
             "nonstatio_PDE": "jinns.loss._LossPDE:SystemLossPDE"}
    for eq_type, sterms in sys_terms.items():
        dkcls = E.cls(E.mod_dk, DK[eq_type] if eq_type != 'statio_PDE' else 'DerivativeKeysPDEStatio')
        allt = TERMS[eq_type]
        patterns = ([0, 1] if not thorough else [0, 1, 2, 3]) + [10, 11]
        none_for = {10: 'b', 11: 'a'}
        for pat in patterns:
            cfg = {"loss": eq_type, "pattern": pat}

            def go(eq_type=eq_type, sterms=sterms, dkcls=dkcls, allt=allt, pat=pat):
                unknowns = ('a', 'b')
                sel = {}
                for ui, k in enumerate(unknowns):
                    for ti, t in enumerate(allt):
                        for gi, g in enumerate(GROUPS):
                            sel[(k, t, g)] = bool((ui + ti + gi + pat) % 2) if pat < 2 else bool(((ui * 3 + ti * 5 + gi * 7 + pat) // 2) % 2)
                dkd = {k: dkcls(**{t: mask_tree({g: sel[(k, t, g)] for g in GROUPS}) for t in allt}) for k in unknowns}
                if pat in none_for:
                    # a None entry means "default keys for that unknown": the other unknown's keys are still its own
                    k_none = none_for[pat]
                    dkd[k_none] = None
                    for t in allt:
                        for g in GROUPS:
                            sel[(k_none, t, g)] = (g == 'nn_params')
                conf = tuple(CONF[t] for t in allt)
                SL = SystemLoss(E, eq_type, 'PINN', unknowns=unknowns, equations=('e1',), terms=conf, eq_keys=EQ_KEYS,
                                derivative_keys_dict=dkd)
                total, out = SL.evaluate()
                n = 0
                for t in sterms:
                    occ = occurrences(scalar_of(out[t], t), by_net=True)
                    for (net, g), flags in occ.items():
                        if g not in GROUPS or net not in unknowns:
                            continue
                        want_sg = not sel[(net, t, g)]
                        if flags != {want_sg}:
                            raise Violation(f"{t}/{net}/{g}", f"occurrences of {g} in the {t} term of unknown {net} have "
                                            f"stop_gradient marks {sorted(flags)}",
                                            f"all {'behind' if want_sg else 'outside'} stop_gradient (derivative_keys_dict[{net!r}].{t})")
                        n += 1
                    for k in unknowns:
                        if (k, 'nn_params') not in occ:
                            raise Inconclusive(f"term {t} does not mention network {k}")
                # the dynamic term of a system is routed by its own keys, whose default selects the network parameters only
                occ = occurrences(scalar_of(out['dyn_loss'], 'dyn_loss'))
                for g, flags in occ.items():
                    if g in GROUPS and flags != {g != 'nn_params'}:
                        raise Violation(f"dyn_loss/{g}", f"occurrences of {g} in the system dynamic term have stop_gradient marks {sorted(flags)}",
                                        "default: network parameters selected, equation parameters not")
                    n += 1
                return f"{n} (unknown, term, group) occurrences routed as specified"
            chk.run("C06.R5", SSITE[eq_type] + ".__post_init__/evaluate", cfg, go, construct=f"system routing[{eq_type}]")
