"""C12 - per-sample equation parameters and heterogeneous parameters are aligned.

 R1 (formula inference, all losses incl. systems, every subset of batched keys): inside every term's inferred formula
    - at top level and inside the parameter fingerprint of every network call - an equation parameter is the
    batch's row atom iff its key is batched, and the caller's own atom otherwise; no per-sample leaf reaches a network or
    the user's equation with its row axis unconsumed; no name is read before assignment; the caller's parameters are
    not written.
 R2 `_get_vmap_in_axes_params` returns axis 0 exactly for the batched keys (None for the others and for nn_params).
 R3 `_update_eq_params_dict` overrides exactly the batched keys, functionally.
 R7 heterogeneity wrappers (ODE / stationary / non-stationary): the equation receives parameters whose declared
    heterogeneous entries are the value of the user function at the current point (called with the documented
    arguments), undeclared / None / missing entries unchanged, same network parameters, same point and networks.
"""
from __future__ import annotations
import itertools
import numpy as np

from ..alg import Poly, AT, to_at, Top, Finding, K, Pm, NNLabel, tm, pt
from ..extern import Net
from ..interp import freeze, Inst
from ..lossenv import LossEnv, SingleLoss, SystemLoss
from ..report import Violation, Inconclusive
from ..specs import canon as canon_
from .C03 import scalar_of

EQ_KEYS = ('nu', 'th')
SITE = {"ODE": "jinns.loss._LossODE:LossODE.evaluate", "statio_PDE": "jinns.loss._LossPDE:LossPDEStatio.evaluate",
        "nonstatio_PDE": "jinns.loss._LossPDE:LossPDENonStatio.evaluate"}
SSITE = {"ODE": "jinns.loss._LossODE:SystemLossODE.evaluate", "statio_PDE": "jinns.loss._LossPDE:SystemLossPDE.evaluate",
         "nonstatio_PDE": "jinns.loss._LossPDE:SystemLossPDE.evaluate"}


def param_atoms(p):
    """all ('P', ...) atoms of a polynomial, including those inside network fingerprints and binders"""
    out = []

    def leaf(x):
        if isinstance(x, Poly):
            poly(x)
        elif isinstance(x, tuple):
            for y in x:
                leaf(y)

    def atom(a):
        tag = a[0]
        if tag == 'U':
            leaf(a[5][1])
        elif tag == 'P':
            out.append(a)
        elif tag in ('Mean', 'Sum'):
            poly(a[2])
        elif tag in ('Abs', 'Inv'):
            poly(a[1])
        elif tag == 'Log':
            atom(a[1])

    def poly(q):
        for at in q.atoms():
            atom(at)
    poly(p)
    return out


def check_alignment(terms, batched, rows="B", per_term=None):
    """every occurrence of an equation parameter in a term depends on exactly the row axis of its own (parameter /
    observation) batch if its key is batched for that term, and on no row axis otherwise.
    per_term: {term: (batched keys, rows)} overrides for individual terms (e.g. the observation term)"""
    n = 0
    for t, v in terms.items():
        p = scalar_of(v, t)
        b_t, rows_t, *obs_t = (per_term or {}).get(t, (batched, rows))
        obs_t = set(obs_t[0]) if obs_t else set()
        for a in param_atoms(p):
            key, deps = a[1], set(a[3])
            if key not in EQ_KEYS:
                continue
            # an OBSERVED parameter takes precedence over a generated one of the same key, in the observation term only
            is_obs = 'observed' in a[2]
            if is_obs != (key in obs_t):
                if is_obs:
                    raise Violation(f"{t}/{key}", f"term {t} is evaluated with the OBSERVED values of parameter {key!r}",
                                    "the generated (parameter-batch) value or the caller's value")
                raise Violation(f"{t}/{key}", f"term {t} is evaluated with the generated / caller's value of parameter {key!r}",
                                "row i of the observed values of that parameter for observation i")
            row_deps = {x for x in deps if x in ("B", "I", "Bb", "S")}
            want = {rows_t} if key in b_t else set()
            if row_deps != want:
                if key in b_t:
                    raise Violation(f"{t}/{key}", f"term {t} uses parameter {key!r} with row dependency {sorted(row_deps) or 'none (the caller value)'}",
                                    f"row i of its batch (rows {rows_t}) for sample i")
                raise Violation(f"{t}/{key}", f"term {t} uses a per-row value (rows {sorted(row_deps)}) for parameter {key!r}",
                                "the caller's (unbatched) value")
            n += 1
    return n


def run(chk):
    E = LossEnv(chk.repo)
    chk.files = E.w.files
    thorough = chk.full
    chk.rule("C12.R1", "an equation parameter occurring in a term is the batch's row atom iff its key is batched (top level and "
                       "inside every network call); no unconsumed row axis; no undefined name; caller's parameters not written", floor=12)
    chk.rule("C12.R2", "_get_vmap_in_axes_params: axis 0 exactly for batched keys", floor=4)
    chk.rule("C12.R3", "_update_eq_params_dict overrides exactly the batched keys, functionally", floor=3)
    chk.rule("C12.R7", "heterogeneity wrapper: declared entries replaced by the user function's value at the point, the rest "
                       "passed through; same point, networks and network parameters", floor=9)

    subsets = [('nu',), ('th',), ('nu', 'th')] if thorough else [('nu',), ('nu', 'th')]
    all_terms = {'ODE': ('dyn', 'ic', 'obs'), 'statio_PDE': ('dyn', 'bc', 'obs'), 'nonstatio_PDE': ('dyn', 'bc', 'obs', 'ic')}
    for eq_type, names in all_terms.items():
        for pk in subsets:
            cfg = {"loss": eq_type, "batched": list(pk), "terms": list(names)}

            def go(eq_type=eq_type, names=names, pk=pk):
                S = SingleLoss(E, eq_type, 'PINN', d=2, m_u=1, terms=names, eq_keys=EQ_KEYS)
                total, terms = S.evaluate(param_keys=pk)
                n = check_alignment(terms, pk)
                return f"{n} parameter occurrences aligned"
            chk.run("C12.R1", SITE[eq_type], cfg, go, construct=f"alignment[{eq_type}]")

            def go_sys(eq_type=eq_type, names=names, pk=pk):
                SL = SystemLoss(E, eq_type, 'PINN', terms=names, eq_keys=EQ_KEYS)
                total, terms = SL.evaluate(pk)
                n = check_alignment(terms, pk)
                return f"{n} parameter occurrences aligned"
            chk.run("C12.R1", SSITE[eq_type], cfg, go_sys, construct=f"alignment[system {eq_type}]")
        # an EMPTY parameter-batch dictionary (present, no key batched) is the empty subset: same formulas as without a batch
        def go_empty(eq_type=eq_type, names=names):
            S = SingleLoss(E, eq_type, 'PINN', d=2, m_u=1, terms=names, eq_keys=EQ_KEYS)
            _, t0 = S.evaluate(param_keys=())
            _, t1 = S.evaluate(param_keys='empty')
            for k_ in t0:
                if canon_(scalar_of(t0[k_], k_)) != canon_(scalar_of(t1[k_], k_)):
                    raise Violation(k_, f"with an empty parameter-batch dictionary: {scalar_of(t1[k_], k_)}", f"as without a batch: {scalar_of(t0[k_], k_)}")
            return "an empty parameter batch changes nothing"
        chk.run("C12.R1", SITE[eq_type] + " (empty parameter batch)", {"loss": eq_type, "batched": [], "param_batch_dict": "{}"}, go_empty,
                construct=f"empty batch[{eq_type}]")

        # stationary normalisation with a parameter batch (as many normalisation samples as rows): sample i goes with row i
        if eq_type == 'statio_PDE':
            for pk in subsets:
                cfg = {"loss": eq_type, "batched": list(pk), "terms": ["dyn", "norm"], "norm_samples": "one per row of the batch"}

                def go_norm(pk=pk):
                    S = SingleLoss(E, 'statio_PDE', 'PINN', d=2, m_u=1, terms=('dyn', 'norm'), eq_keys=EQ_KEYS, norm_rows="B")
                    total, terms = S.evaluate(param_keys=pk)
                    n = check_alignment(terms, pk)
                    return f"{n} parameter occurrences aligned"
                chk.run("C12.R1", SITE[eq_type] + " (normalisation with a parameter batch)", cfg, go_norm,
                        construct="alignment of the normalisation term[statio_PDE]")
        # a batch that carries both a parameter batch and observations with observed parameters: every term but the
        # observation term ignores the observed parameters
        for pk in ((), ('nu',)):
            for op in (('nu',), ('th',)):
                cfg = {"loss": eq_type, "batched": list(pk), "observed": list(op), "terms": list(names)}

                def go_mix(eq_type=eq_type, names=names, pk=pk, op=op):
                    S = SingleLoss(E, eq_type, 'PINN', d=2, m_u=1, terms=names, eq_keys=EQ_KEYS)
                    total, terms = S.evaluate(param_keys=pk, observed_params=op)
                    rows_obs = "B" if pk else "I"
                    n = check_alignment(terms, pk, rows="B", per_term={'observations': (tuple(set(pk) | set(op)), rows_obs, op)})
                    return f"{n} parameter occurrences aligned"
                chk.run("C12.R1", SITE[eq_type] + " (parameter batch + observed parameters)", cfg, go_mix,
                        construct=f"alignment with observations[{eq_type}]")

        # observed parameters are per-row too
        for op in (('nu',), ('th',)):
            cfg = {"loss": eq_type, "observed": list(op)}

            def go_obs(eq_type=eq_type, op=op):
                S = SingleLoss(E, eq_type, 'PINN', d=2, m_u=1, terms=('obs',), eq_keys=EQ_KEYS)
                total, terms = S.evaluate(observed_params=op)
                n = check_alignment({'observations': terms['observations']}, op, rows="I", per_term={'observations': (op, "I", op)})
                return f"{n} parameter occurrences aligned"
            chk.run("C12.R1", SITE[eq_type] + " (observed parameters)", cfg, go_obs, construct=f"observed alignment[{eq_type}]")

    # ---------------- R2
    P = "jinns.parameters._params"
    gv = E.w.get(P, "_get_vmap_in_axes_params")
    up = E.w.get(P, "_update_eq_params_dict")
    for cls_name in ("Params", "ParamsDict"):
        cls = E.w.get(P, cls_name)
        for pk in [None, (), ('nu',), ('th',), ('nu', 'th')]:
            cfg = {"params": cls_name, "batched": None if pk is None else list(pk)}

            def go(cls=cls, pk=pk):
                nn = NNLabel('u') if cls.name == 'Params' else {'u': NNLabel('u')}
                params = cls.make(nn_params=nn, eq_params={k: Pm(k) for k in EQ_KEYS})
                bd = None if pk is None else E.param_batch(pk)
                r = gv(bd, freeze(params))
                if pk is None:
                    if r != (None,):
                        raise Violation("no batch", repr(r), "(None,)")
                    return "(None,)"
                if not (isinstance(r, tuple) and len(r) == 1 and isinstance(r[0], Inst) and r[0].cls is cls):
                    raise Violation("axes", repr(r), f"1-tuple holding a {cls.name} of axes")
                ax = r[0]
                if ax.fields.get('nn_params') is not None:
                    raise Violation("nn_params axis", repr(ax.fields.get('nn_params')), "None")
                want = {k: (0 if k in pk else None) for k in EQ_KEYS}
                got = {k: (None if v is None else int(v)) for k, v in ax.fields['eq_params'].items()}
                if got != want:
                    raise Violation("eq_params axes", str(got), str(want))
                return str(got)
            chk.run("C12.R2", f"{P}:_get_vmap_in_axes_params", cfg, go, construct="vmap axes")

    # ---------------- R3
    for pk, p_order, b_order in [((), EQ_KEYS, ()), (('nu',), EQ_KEYS, ('nu',)), (('th',), EQ_KEYS, ('th',)), (('nu', 'th'), EQ_KEYS, ('nu', 'th')),
                                # the dictionaries are matched by key: insertion orders (of the parameters / of the batch) are immaterial
                                (('nu', 'th'), EQ_KEYS, ('th', 'nu')), (('nu', 'th'), EQ_KEYS[::-1], ('nu', 'th')), (('th',), EQ_KEYS[::-1], ('th',))]:
        cfg = {"batched": list(pk)}
        if tuple(p_order) != tuple(EQ_KEYS) or tuple(b_order) != tuple(pk):
            cfg.update(eq_params_order=list(p_order), batch_order=list(b_order))

        def go(pk=pk, p_order=p_order, b_order=b_order):
            params = E.params({k: Pm(k) for k in p_order})
            bd0 = E.param_batch(pk)
            bd = {k: bd0[k] for k in b_order}
            fr = freeze(params)
            r = up(fr, freeze(bd))
            if not isinstance(r, Inst) or r.cls is not params.cls:
                raise Violation("result", repr(r), "a Params object")
            if r.fields['nn_params'] != params.fields['nn_params']:
                raise Violation("nn_params", repr(r.fields['nn_params']), "unchanged")
            for k in EQ_KEYS:
                v = to_at(r.fields['eq_params'][k])
                if k in pk:
                    if "B" not in v.deps() or v.axes != ("B", 1):
                        raise Violation(k, repr(v), "the batch rows")
                else:
                    if v.axes != () or v.deps():
                        raise Violation(k, repr(v), "the caller's value")
                names = {a_[1] for e_ in v.entries() for a_ in e_.atoms() if a_[0] == 'P'}
                if names != {k}:
                    raise Violation(k, f"eq_params[{k!r}] holds the values of {sorted(names)}", f"the {'batch rows' if k in pk else 'value'} of {k!r} itself")
            for k in EQ_KEYS:
                if to_at(fr.fields['eq_params'][k]).deps():
                    raise Violation("purity", "the caller's parameters were modified", "unchanged")
            return "overrides exactly " + str(list(pk))
        chk.run("C12.R3", f"{P}:_update_eq_params_dict", cfg, go, construct="update")

    # the caller's value of a batched key may itself have the shape of a batch (e.g. parameters initialised from a first
    # batch): the override does not depend on what the current value looks like
    def go_stale():
        import numpy as np
        stale = AT(("B", 1), np.array([Poly.atom(('P', 'nu_previous_batch', (), frozenset({"B"}), False))], dtype=object))
        params = E.params({'nu': stale, 'th': Pm('th')})
        bd = E.param_batch(('nu',))
        r = up(freeze(params), freeze(bd))
        v = to_at(r.fields['eq_params']['nu'])
        if not (v.axes == ("B", 1) and v.data[0] == to_at(bd['nu']).data[0]):
            raise Violation("nu", f"eq_params['nu'] after the update is {v}", f"the rows of the current batch {to_at(bd['nu'])}")
        return "a value that already has the batch shape is replaced by the current batch"
    chk.run("C12.R3", f"{P}:_update_eq_params_dict", {"params": "Params", "batched": ["nu"], "current_value": "an earlier batch of the same shape"},
            go_stale, construct="update")

    # ---------------- R7 heterogeneity
    for eq_type in ('ODE', 'statio_PDE', 'nonstatio_PDE'):
        maps = [("declared+None", {'nu': 'fn', 'th': None}), ("declared+missing", {'nu': 'fn'}), ("all", {'nu': 'fn', 'th': 'fn'}),
                ("none", None)]
        if thorough:
            maps.append(("other", {'th': 'fn'}))
        for label, hmap in maps:
            cfg = {"equation": eq_type, "heterogeneity": label}

            def go(eq_type=eq_type, hmap=hmap):
                d = 2
                rec, hrec = [], []
                u = Net('u', 'PINN', 1, eq_type, 0 if eq_type == 'ODE' else d)
                t, x = tm(), pt(d)
                pts = {'ODE': (t,), 'statio_PDE': (x,), 'nonstatio_PDE': (t, x)}[eq_type]

                def mk_fn(key):
                    def fn(*a):
                        hrec.append((key, a))
                        return to_at(Poly.atom(('F', 'het_' + key, None, frozenset())))
                    return fn
                het = None if hmap is None else {k: (mk_fn(k) if v == 'fn' else None) for k, v in hmap.items()}

                def equation(*a):
                    rec.append(a)
                    return AT((1,), np.array([Poly.const(0)], dtype=object))
                dyn = E.user_dynamic_loss(eq_type, 1, heterogeneity=het, equation=equation)
                params = freeze(E.params({k: Pm(k) for k in EQ_KEYS}))
                dyn.evaluate(*pts, u, params)
                if len(rec) != 1:
                    raise Violation("calls", f"equation called {len(rec)} times", "once")
                a = rec[0]
                if len(a) != len(pts) + 2:
                    raise Violation("arity", f"equation called with {len(a)} arguments", f"{len(pts) + 2}")
                for got, want, nm in zip(a[:len(pts)], pts, ('t', 'x') if eq_type == 'nonstatio_PDE' else ('pt',)):
                    if got is not want:
                        raise Violation(nm, f"point argument {nm} is {got!r}", repr(want))
                if a[-2] is not u:
                    raise Violation("u", repr(a[-2]), "the network passed to evaluate")
                pin = a[-1]
                if not isinstance(pin, Inst) or pin.fields.get('nn_params') != params.fields['nn_params']:
                    raise Violation("nn_params", repr(pin), "same network parameters")
                eq = pin.fields['eq_params']
                if set(eq.keys()) != set(EQ_KEYS):
                    raise Violation("keys", str(sorted(eq.keys())), str(sorted(EQ_KEYS)))
                declared = {k for k, v in (hmap or {}).items() if v == 'fn'}
                for k in EQ_KEYS:
                    v = to_at(eq[k]).data[()]
                    atm = v.single_atom()
                    if k in declared:
                        if not (atm and atm[0] == 'F' and atm[1] == 'het_' + k):
                            raise Violation(k, f"equation receives {v} for the heterogeneous parameter {k}", f"het_{k}(point)")
                    else:
                        if not (atm and atm[0] == 'P' and atm[1] == k):
                            raise Violation(k, f"equation receives {v} for the undeclared parameter {k}", f"the caller's {k}")
                # the user functions are called with the documented arguments
                for key, ha in hrec:
                    want = pts + (u, params)
                    if len(ha) != len(want) or any(g is not w for g, w in zip(ha, want)):
                        raise Violation(f"het_{key} arguments", f"called with {len(ha)} arguments {[type(z).__name__ for z in ha]}",
                                        "the point, the network(s) and the caller's parameters, in the documented order")
                if {k for k, _ in hrec} != declared:
                    raise Violation("het calls", str(sorted({k for k, _ in hrec})), str(sorted(declared)))
                return f"equation received heterogeneous {sorted(declared)}, others unchanged"
            chk.run("C12.R7", "jinns.loss._DynamicLossAbstract:_decorator_heteregeneous_params/_eval_heterogeneous_parameters",
                    cfg, go, construct=f"heterogeneity[{eq_type}]")

    # the losses evaluate their dynamic losses THROUGH the heterogeneity wrapper (`evaluate`, not the bare `equation`): single and
    # system losses, with and without a parameter batch on the heterogeneous key
    for eq_type in ('ODE', 'statio_PDE', 'nonstatio_PDE'):
        for system in (False, True):
            for pk in ((), ('nu',)):
                cfg = {"loss": ("system " if system else "") + eq_type, "heterogeneity": "nu", "batched": list(pk)}

                def go(eq_type=eq_type, system=system, pk=pk):
                    seen = []

                    def het_nu(*a):
                        return to_at(Poly.atom(('F', 'het_nu', None, frozenset())))

                    def equation(*a):
                        eqp = a[-1].fields['eq_params']
                        seen.append(to_at(eqp['nu']).data.flat[0])
                        return AT((1,), np.array([Poly.const(0)], dtype=object))
                    dyn = E.user_dynamic_loss(eq_type, 1, heterogeneity={'nu': het_nu}, equation=equation)
                    if system:
                        SL = SystemLoss(E, eq_type, 'PINN', terms=('dyn',), eq_keys=EQ_KEYS, equations=('e1',), dyn={'e1': dyn})
                        SL.evaluate(pk)
                    else:
                        S = SingleLoss(E, eq_type, 'PINN', d=2, m_u=1, terms=('dyn',), eq_keys=EQ_KEYS, dyn=dyn)
                        S.evaluate(param_keys=pk)
                    if not seen:
                        raise Violation("dynamic loss", "the equation is never called", "called once per evaluation")
                    for v in seen:
                        atm = v.single_atom()
                        if not (atm and atm[0] == 'F' and atm[1] == 'het_nu'):
                            raise Violation("nu", f"the equation of the loss receives {v} for the heterogeneous parameter nu",
                                            "het_nu(point): the loss goes through the heterogeneity wrapper")
                    return "the equation receives the heterogeneous value"
                chk.run("C12.R7", (SSITE if system else SITE)[eq_type] + " -> dynamic loss", cfg, go,
                        construct=f"heterogeneity through the loss[{'system ' if system else ''}{eq_type}]")

    run_hyper_input(chk, E)
    run_routing_with_batch(chk, E)


def run_hyper_input(chk, E):
    """R8: a hyper-network wrapper feeds the hyper-network with the designated parameters in their DECLARED order: inside a
    loss the parameter dictionary has been rebuilt by vmap / tree_map (sorted keys), so the network input of sample i must
    not depend on the order of the dictionary"""
    import numpy as np
    from ..alg import Fv, Sym
    from ..extern import OpaqueObj, same
    from .C10 import HYPER_MOD, vec, input_transform, output_transform
    chk.rule("C12.R8", "HYPERPINN.eval_nn: the hyper-network input holds the designated parameters in declared order whatever the "
                       "key order of the parameter dictionary (per-sample rows reach their own input slots)", floor=2)
    HYPER = E.w.get(HYPER_MOD, "HYPERPINN")
    Params = E.Params
    for declared in (('nu', 'D'), ('D', 'nu')):
        def go(declared=declared):
            leaves = [Fv('W0', (2, 3)), Fv('b0', (2,)), Fv('W1', (1, 2)), Fv('b1', (1,))]
            inner = {'layers': [{'weight': leaves[0], 'bias': leaves[1]}, {'weight': leaves[2], 'bias': leaves[3]}]}
            sizes = [2, 6, 1, 2]
            cum = list(np.cumsum(sizes))
            static = OpaqueObj('static', attrs={'n_out': 2})
            static_h = OpaqueObj('static_hyper', attrs={'n_out': int(cum[-1])})
            hp = HYPER.make(slice_solution=slice(0, 2), eq_type="statio_PDE", input_transform=input_transform,
                            output_transform=output_transform, output_slice=None, params=inner, static=static,
                            hyperparams=list(declared), hypernet_input_size=3, params_hyper=Sym('hyper_own'),
                            static_hyper=static_h, pinn_params_sum=int(cum[-1]), pinn_params_cumsum=[int(c) for c in cum])
            vals = {'nu': vec('nu', 1), 'D': Fv('D', (1, 2)), 'other': vec('other', 1)}
            x = vec('x', 2)
            outs = []
            for order in (('nu', 'D', 'other'), ('D', 'nu', 'other'), ('other', 'D', 'nu')):
                params = Params.make(nn_params=Sym('theta_h'), eq_params={k: vals[k] for k in order})
                outs.append((order, to_at(hp.eval_nn(x, params))))
            for order, o in outs[1:]:
                if not same(o, outs[0][1]):
                    raise Violation("HYPERPINN.eval_nn", f"with eq_params keys in order {list(order)}: {str(o)[:220]}",
                                    f"the value obtained with keys in order {list(outs[0][0])}: {str(outs[0][1])[:220]}")
            # the designated parameters reach the hyper-network as they are: no stop_gradient on the way (the gradient with
            # respect to a hyper-parameter flows through the generated weights)
            from ..alg import Pm as _Pm
            pr = Params.make(nn_params=Sym('theta_h'), eq_params={'nu': _Pm('nu', (1,)), 'D': _Pm('D', (2,)), 'other': _Pm('other', (1,))})
            o = to_at(hp.eval_nn(x, pr))
            txt = " ".join(str(e_) for e_ in o.entries())
            if 'sg:' in txt:
                raise Violation("HYPERPINN.eval_nn", "the hyper-network input is behind stop_gradient: " + txt[:200],
                                "the designated equation parameters themselves")
            return "independent of the dictionary's key order; no stop_gradient on the hyper-network input"
        chk.run("C12.R8", f"{HYPER_MOD}:HYPERPINN.eval_nn", {"hyperparams": list(declared)}, go, construct="hyper-network input order")


def run_routing_with_batch(chk, E):
    """R9: "in the derivative routing alike": with a per-sample parameter batch and a derivative specification whose mask dictionary
    is written in another key order than the parameters, every (term, parameter) pair is still routed as specified"""
    from .C06 import occurrences, TERMS, CONF, DK, GROUPS
    from ..lossenv import SingleLoss
    from .C03 import scalar_of
    chk.rule("C12.R9", "derivative routing with a per-sample parameter batch: each parameter of each term is behind stop_gradient "
                       "iff not selected, whatever the key order of the mask", floor=3)
    Params = E.Params
    for eq_type, terms in TERMS.items():
        def go(eq_type=eq_type, terms=terms):
            dkcls = E.cls(E.mod_dk, DK[eq_type])
            conf = tuple(CONF[t] for t in terms if t != 'norm_loss')
            used = [t for t in terms if t != 'norm_loss']
            n = 0
            for order in (('nu', 'th'), ('th', 'nu')):
                sel = {t: {'nn_params': True, 'nu': (i % 2 == 0), 'th': (i % 2 == 1)} for i, t in enumerate(terms)}
                masks = {t: Params.make(nn_params=sel[t]['nn_params'], eq_params={k: sel[t][k] for k in order}) for t in terms}
                S = SingleLoss(E, eq_type, 'PINN', d=2, m_u=1, m_res=1, terms=conf, eq_keys=('nu', 'th'), derivative_keys=dkcls(**masks))
                total, out = S.evaluate(param_keys=('nu',))
                for t in used:
                    occ = occurrences(scalar_of(out[t], t))
                    for g_, flags in occ.items():
                        if g_ not in GROUPS:
                            continue
                        want_sg = not sel[t][g_]
                        if flags != {want_sg}:
                            raise Violation(f"{t}/{g_}", f"mask keys in order {list(order)}, batched key nu: occurrences of {g_} in {t} have "
                                            f"stop_gradient marks {sorted(flags)}", f"all {'behind' if want_sg else 'outside'} stop_gradient")
                        n += 1
            return f"{n} (term, parameter) occurrences routed as specified for both key orders"
        chk.run("C12.R9", {"ODE": "jinns.loss._LossODE:LossODE.evaluate", "statio_PDE": "jinns.loss._LossPDE:LossPDEStatio.evaluate",
                           "nonstatio_PDE": "jinns.loss._LossPDE:LossPDENonStatio.evaluate"}[eq_type] + "->_set_derivatives",
                {"loss": eq_type, "param_batch": ["nu"]}, go, construct=f"routing with a parameter batch[{eq_type}]")
