"""C13 - a system loss is the weighted composition of its equations and unknowns.

Formula inference on SystemLossODE / SystemLossPDE (built through the repository's constructors, including
`set_loss_weights`) and `constraints_system_loss_apply`:
 R1 dynamic term == sum_e w_e * Mean[rows](sum_c R_ec^2), each equation called with (t, x, all networks, all
    parameters) in the documented argument order (the opaque networks check the roles of their arguments);
 R2 every other term == sum_u w_u * (that term of the single-network loss of unknown u);
 R3 weight specifications: scalar (broadcast), python float, per-key dictionary, missing (None -> 0);
 R4 any number of equations with any number of unknowns;
 R5 a one-equation one-unknown system equals the plain loss.
"""
from __future__ import annotations
import itertools

from ..alg import Poly, AT, to_at, Top, Finding
from ..lossenv import LossEnv, SingleLoss, SystemLoss
from ..report import Violation, Inconclusive
from ..specs import canon
from .C03 import scalar_of

SITE = {"ODE": "jinns.loss._LossODE:SystemLossODE.evaluate", "statio_PDE": "jinns.loss._LossPDE:SystemLossPDE.evaluate",
        "nonstatio_PDE": "jinns.loss._LossPDE:SystemLossPDE.evaluate"}


def compare_terms(found_terms, exp, what=""):
    msgs = []
    for n, e in exp.items():
        if n not in found_terms:
            raise Violation(n, "term missing from the returned dictionary", str(canon(e)))
        f = canon(scalar_of(found_terms[n], n))
        if f != canon(e):
            raise Violation(n, f"{n} = {f}", f"{n} = {canon(e)}")
        msgs.append(n)
    return f"{what}terms {msgs} match"


def run(chk):
    E = LossEnv(chk.repo)
    chk.files = E.w.files
    thorough = chk.full
    chk.rule("C13.R1", "system terms == weighted composition (dyn: sum over equations; others: sum over unknowns of the "
                       "single-network term) for every weight specification; total == sum of terms", floor=12)
    chk.rule("C13.R4", "any number of equations combined with any number of unknowns", floor=4)
    chk.rule("C13.R5", "a one-equation one-unknown system equals the plain loss", floor=3)

    all_terms = {'ODE': ('dyn', 'ic', 'obs'), 'statio_PDE': ('dyn', 'norm', 'bc', 'obs'),
                 'nonstatio_PDE': ('dyn', 'norm', 'bc', 'obs', 'ic')}

    def check(SL, pk=()):
        total, terms = SL.evaluate(pk)
        exp = SL.expected(pk)
        msg = compare_terms(terms, exp)
        t = scalar_of(total, 'total')
        s = Poly()
        for k, v in terms.items():
            s = s + scalar_of(v, k)
        if canon(t) != canon(s):
            raise Violation("total", f"total - sum(terms) = {canon(t) - canon(s)}", "0")
        return msg + "; total == sum(terms)"

    # R6: the stored weight table is what evaluate reads.  A system whose `_loss_weights` (a pytree field of the module, what a
    # weight-update scheme replaces with eqx.tree_at between two evaluations) was replaced after construction evaluates like
    # the system constructed with those weights: a copy of the weights taken at construction and kept elsewhere breaks this
    chk.rule("C13.R6", "a system whose stored weights are replaced after construction evaluates like the system constructed "
                       "with the new weights (every term, total)", floor=3)
    from ..lossenv import replaced_field_twin
    for eq_type, names in all_terms.items():
        for wk in ('dict', 'scalar'):
            def go(eq_type=eq_type, names=names, wk=wk):
                mk = lambda pre: (lambda: SystemLoss(E, eq_type, 'PINN', terms=names, weights=wk, wprefix=pre))
                if '_loss_weights' not in mk('w')().loss.fields:
                    raise Inconclusive("the system loss has no `_loss_weights` field any more: where the weights are stored has to be re-read")
                return replaced_field_twin(mk('w'), mk('v'), '_loss_weights')
            chk.run("C13.R6", SITE[eq_type], {"loss": eq_type, "weights": wk}, go, construct=f"{eq_type}: stored weights replaced")

    wkinds = ['scalar', 'dict', 'float', 'dict_rev']
    for eq_type, names in all_terms.items():
        fields = ('dyn_loss', 'initial_condition', 'observations') if eq_type == 'ODE' else \
            ('dyn_loss', 'norm_loss', 'boundary_loss', 'observations', 'initial_condition')
        wspecs = [{f: k for f in fields} for k in wkinds]
        # mixed specifications, and a missing (None) one for every field in turn
        wspecs.append({f: wkinds[i % 4] for i, f in enumerate(fields)})
        for f in fields:
            d = {g: 'scalar' for g in fields}
            d[f] = 'none'
            wspecs.append(d)
        kinds = ('PINN',) if eq_type == 'ODE' else ('PINN', 'SPINN')
        for kind in kinds:
            for ws in (wspecs if (kind == 'PINN' or thorough) else wspecs[:1]):
                for pk in (((), ('nu',)) if (kind == 'PINN' and (thorough or ws is wspecs[0])) else ((),)):
                    terms = tuple(t for t in names if not (kind == 'SPINN' and t == 'obs') and not (pk and t == 'norm'))
                    cfg = {"loss": eq_type, "net": kind, "weights": ws, "param_batch": list(pk), "terms": list(terms)}

                    def go(eq_type=eq_type, kind=kind, ws=ws, pk=pk, terms=terms):
                        SL = SystemLoss(E, eq_type, kind, terms=terms, weights=ws)
                        return check(SL, pk)
                    chk.run("C13.R1", SITE[eq_type], cfg, go, construct=f"system terms[{eq_type}]")

        # a system of hyper-network wrappers (PDE systems take the network kind from the first unknown)
        if eq_type != 'ODE':
            cfg = {"loss": eq_type, "net": "HYPERPINN", "weights": "scalar", "terms": ["dyn"]}
            chk.run("C13.R1", SITE[eq_type], cfg, (lambda eq_type=eq_type: check(SystemLoss(E, eq_type, 'HYPERPINN', terms=('dyn',)))),
                    construct=f"system terms[{eq_type}, HYPERPINN]")

        # the dictionaries of a system are keyed by name: the insertion order of any ONE of them (unknowns, equations, weights,
        # per-unknown specifications) is immaterial - pairing two of them by position is reported here
        for rev in (('u',), ('dyn',), ('weights',), ('specs',)):
            cfg = {"loss": eq_type, "net": "PINN", "weights": "dict", "reversed_insertion_order": list(rev), "terms": list(names)}

            def go_rev(eq_type=eq_type, names=names, rev=rev):
                return check(SystemLoss(E, eq_type, 'PINN', terms=names, weights='dict', reverse_dicts=rev))
            chk.run("C13.R1", SITE[eq_type], cfg, go_rev, construct=f"system terms with one dictionary in another order[{eq_type}]")

        # weights that are not passed at all take the declared default of the weights class: 1.0 for the PDE systems, like the
        # single-loss weights (the ODE class declares None for its fields: see DESIGN section 6)
        if eq_type != 'ODE':
            for f_ in fields:
                ws = {g: ('omitted' if g == f_ else 'scalar') for g in fields}
                cfg = {"loss": eq_type, "net": "PINN", "weights": ws, "terms": list(names)}

                def go_om(eq_type=eq_type, ws=ws, names=names):
                    SL = SystemLoss(E, eq_type, 'PINN', terms=names, weights=ws)
                    return check(SL)
                chk.run("C13.R1", SITE[eq_type], cfg, go_om, construct=f"system terms with an omitted weight[{eq_type}]")
            cfg = {"loss": eq_type, "net": "PINN", "weights": "all omitted", "terms": list(names)}
            chk.run("C13.R1", SITE[eq_type], cfg,
                    (lambda eq_type=eq_type, names=names: check(SystemLoss(E, eq_type, 'PINN', terms=names, weights={g: 'omitted' for g in fields}))),
                    construct=f"system terms with an omitted weight[{eq_type}]")

        # weights given as length-one arrays (set_loss_weights accepts exactly scalars and shape (1,)): same scalar terms
        for wk in ('len1', 'len1_dict'):
            cfg = {"loss": eq_type, "net": "PINN", "weights": wk, "terms": [t for t in names if t != 'norm'] + (['norm'] if eq_type != 'ODE' else [])}
            chk.run("C13.R1", SITE[eq_type], cfg,
                    (lambda eq_type=eq_type, names=names, wk=wk: check(SystemLoss(E, eq_type, 'PINN', terms=names, weights=wk))),
                    construct=f"system terms with length-one array weights[{eq_type}]")

        # two system losses built one after the other keep their own weights (no state shared between instances)
        def go_two(eq_type=eq_type, names=names):
            A = SystemLoss(E, eq_type, 'PINN', terms=names, weights='dict', wprefix='wA')
            B = SystemLoss(E, eq_type, 'PINN', terms=names, weights='scalar', wprefix='wB')
            return check(A) + " / " + check(B)
        chk.run("C13.R1", SITE[eq_type], {"loss": eq_type, "instances": "A (per-key weights) then B (scalar weights); A evaluated after B was built"},
                go_two, construct=f"two instances[{eq_type}]")

        # per-unknown specifications: unknown a has two outputs, a boundary condition / observations on a part of them; unknown b
        # is scalar - each internal single-network loss must receive ITS OWN selection (both orders of the unknowns)
        for unknowns in (('a', 'b'), ('b', 'a')):
            for kind in kinds:
                sp_a = dict(m_u=2, bc_dim=slice(1, 2), obs_slice=slice(0, 1))
                terms = tuple(t for t in names if t != 'norm' and not (kind == 'SPINN' and t == 'obs'))
                cfg = {"loss": eq_type, "net": kind, "unknowns": list(unknowns), "terms": list(terms),
                       "specs": {"a": "2 outputs, bc on [1:2], observed [0:1]", "b": "scalar"}}

                def go_specs(eq_type=eq_type, kind=kind, unknowns=unknowns, terms=terms, sp_a=sp_a):
                    SL = SystemLoss(E, eq_type, kind, unknowns=unknowns, terms=terms, specs={'a': sp_a})
                    return check(SL)
                chk.run("C13.R1", SITE[eq_type], cfg, go_specs, construct=f"system terms with per-unknown selections[{eq_type}]")

        # an unknown subject to ONE kind of constraint only (the other unknown has all of them): every constraint that is
        # configured for an unknown contributes its term, whatever else is or is not configured for that unknown
        single_kinds = [t for t in names if t not in ('dyn', 'obs')]
        for only in single_kinds:
            for who in ('a', 'b'):
                cfg = {"loss": eq_type, "net": "PINN", "terms": list(names), "specs": {who: f"only the {only} constraint"}}

                def go_only(eq_type=eq_type, names=names, only=only, who=who):
                    SL = SystemLoss(E, eq_type, 'PINN', terms=names, weights='dict', specs={who: {'terms': (only, 'obs')}})
                    return check(SL)
                chk.run("C13.R1", SITE[eq_type], cfg, go_only, construct=f"system terms, an unknown with one constraint kind[{eq_type}]")
                no_obs = tuple(t for t in names if t != 'obs')
                cfg = {"loss": eq_type, "net": "PINN", "terms": list(no_obs), "specs": {who: f"only the {only} constraint"}}

                def go_only2(eq_type=eq_type, no_obs=no_obs, only=only, who=who):
                    SL = SystemLoss(E, eq_type, 'PINN', terms=no_obs, weights='dict', specs={who: {'terms': (only,)}})
                    return check(SL)
                chk.run("C13.R1", SITE[eq_type], cfg, go_only2,
                        construct=f"system terms without observations, an unknown with one constraint kind[{eq_type}]")

        # R4: numbers of equations / unknowns
        shapes = [(1, 2), (2, 1), (3, 2), (2, 3)] if thorough else [(1, 2), (3, 2)]
        for ne, nu in shapes:
            cfg = {"loss": eq_type, "equations": ne, "unknowns": nu}

            def go(eq_type=eq_type, ne=ne, nu=nu, names=names):
                SL = SystemLoss(E, eq_type, 'PINN', unknowns=tuple("abc"[:nu]), equations=tuple(f"e{i}" for i in range(ne)),
                                terms=tuple(t for t in names if t != 'obs'), weights='scalar')
                return check(SL)
            chk.run("C13.R4", SITE[eq_type], cfg, go, construct=f"{eq_type}: #equations != #unknowns")

        # names are only names: equations called like the equation parameters, or like the unknowns, are still given ALL parameters
        for label, eqs, unk in (("equation names == parameter names", ('nu', 'th'), ('a', 'b')),
                                ("equation names == unknown names", ('a', 'b'), ('a', 'b'))):
            cfg = {"loss": eq_type, "names": label}

            def go(eq_type=eq_type, eqs=eqs, unk=unk, names=names):
                SL = SystemLoss(E, eq_type, 'PINN', unknowns=unk, equations=eqs, eq_keys=('nu', 'th'),
                                terms=tuple(t for t in names if t != 'obs'), weights='scalar')
                return check(SL)
            chk.run("C13.R4", SITE[eq_type], cfg, go, construct=f"{eq_type}: coinciding names")

        # R5: 1x1 system == plain loss
        for pk in ((), ('nu',)):
            cfg = {"loss": eq_type, "param_batch": list(pk)}

            def go(eq_type=eq_type, names=names, pk=pk):
                terms = tuple(t for t in names if not (pk and t == 'norm'))
                SL = SystemLoss(E, eq_type, 'PINN', unknowns=('a',), equations=('e1',), terms=terms, weights='scalar', m_res={'e1': 2})
                total, st = SL.evaluate(pk)
                dyn = E.user_dynamic_loss(eq_type, 2, name='R_e1')
                S = SingleLoss(E, eq_type, 'PINN', d=2, m_u=1, m_res=2, terms=terms, net_name='a', dyn=dyn)
                ptotal, pt = S.evaluate(param_keys=pk)
                # same weight symbols: w_<term> in both
                for n, v in pt.items():
                    if n not in st:
                        raise Violation(n, "term missing in the system result", "present")
                    a, b = canon(scalar_of(st[n], n)), canon(scalar_of(v, n))
                    if a != b:
                        raise Violation(n, f"system {n} = {a}", f"plain {n} = {b}")
                if canon(scalar_of(total, 'total')) != canon(scalar_of(ptotal, 'total')):
                    raise Violation("total", "system total differs from the plain loss total", "equal")
                return "1x1 system == plain loss term by term"
            chk.run("C13.R5", SITE[eq_type], cfg, go, construct=f"1x1 system == plain loss[{eq_type}]")
