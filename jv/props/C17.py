"""C17 - refinement adds the highest-residual candidates and keeps active points (one-step structure).

Symbolic evaluation of a refinement step (see _rar_common):
 R1 candidates come from the generator's own samplers with the requested candidate counts (in the domain by C08) - the
    real samplers are also run for dim 1 and 2 to check that they accept the keys the step hands them;
 R2 the points added are gather(candidates, indices of the `selected` largest scores) where the score of a candidate is
    the squared residual of the current network at that candidate (sum over residual components and equations);
    ODE / stationary: the tail of an ascending argsort; non-stationary: top-k of the time-major (times x points) grid of
    squared residuals, row / column indices recovered with the grid's own shape;
 R3 the new points are written with dynamic_update_slice at offset start + J * selected of the store's OWN family
    (nt_start, selected_times for times; n_start, selected_omega for space), i.e. into the first inactive slots, so
    that active points are preserved whether or not time and space start with the same number of points;
 R4 the other store and every index / batch-size field are unchanged.
"""
from __future__ import annotations
import numpy as np

from ..alg import Poly, AT, Sym, SymDim, K, Pred, lift, to_at, Top, Finding, jnp_sum, at_key
from ..extern import same, fz, prepend
from ..interp import freeze, Inst, AbstractRaise
from ..report import Violation, Inconclusive
from ._rar_common import (RarSetup, RAR, unchanged_except, as_sym, is_sym, stub_time, make_stub_omega, S_T, S_X, SEL_T, SEL_X)


def store_update(new_store, old_store, what):
    """returns (written points, offset tuple) of new = dynamic_update_slice(old, points, offset)"""
    v = as_sym(new_store)
    if not is_sym(v, 'dynamic_update_slice', 3):
        raise Inconclusive(f"{what}: store update idiom outside the rule's vocabulary: {str(v)[:200]}")
    base, pts, off = v.args
    if not same(as_sym(base), as_sym(old_store)):
        raise Violation(f"{what}: base", str(base)[:100], f"the previous store {old_store}")
    return pts, off


def check_offset(off, start, J, sel, what):
    e = lift(start) + lift(J) * lift(sel)
    if not (isinstance(off, tuple) and len(off) >= 1 and lift(off[0]) == e):
        raise Violation(f"{what}: write offset", f"new points written at {off}", f"row {e} (= first inactive slot: start + J * selected of this store)")


def tail_argsort_idx(score_at, count, sel):
    return norm_sel(Sym('dynamic_slice', Sym('argsort', at_key(score_at)), (fz(lift(count) - lift(sel)),), (fz(sel),)))


def _score_len(score):
    if isinstance(score, tuple) and score and score[0] == 'AT' and len(score[1]) == 1:
        ax = score[1][0]
        return lift(ax) if isinstance(ax, int) else lift(SymDim(ax))
    return None


def norm_sel(v):
    """canonical form of "the indices of the k largest entries of a score vector" (as a set): the tail of an ascending
    argsort written with dynamic_slice or with a negative slice, and the index output of lax.top_k, all become
    topk_idx(score, k)"""
    if isinstance(v, Poly):
        return v.map_atoms(lambda a: ('S', norm_sel(a[1])) if a[0] == 'S' else a)
    if isinstance(v, tuple):
        return tuple(norm_sel(x) for x in v)
    if not isinstance(v, Sym):
        return v
    args = tuple(norm_sel(a) for a in v.args)
    v = Sym(v.op, *args)
    if v.op == 'dynamic_slice' and len(args) == 3 and isinstance(args[0], Sym) and args[0].op == 'argsort' and len(args[0].args) == 1:
        score = args[0].args[0]
        n = _score_len(score)
        start, size = args[1], args[2]
        if n is not None and isinstance(start, tuple) and len(start) == 1 and isinstance(size, tuple) and len(size) == 1 \
                and lift(start[0]) == n - lift(size[0]):
            return Sym('topk_idx', score, size[0])
    if v.op == 'getitem' and len(args) == 2 and isinstance(args[0], Sym) and args[0].op == 'argsort' and len(args[0].args) == 1:
        sl = args[1]
        if isinstance(sl, tuple) and len(sl) == 4 and sl[0] == 'slice' and sl[2] is None and sl[3] is None and sl[1] is not None:
            k = -lift(sl[1])
            return Sym('topk_idx', args[0].args[0], fz(k))
    if v.op == 'top_k.idx' and len(args) == 2 and not (isinstance(args[1], Sym) and args[1].op == 'max'):
        return Sym('topk_idx', args[0], args[1])
    return v


def run(chk):
    chk.rule("C17.R1", "candidates: own samplers, requested counts; real samplers accept the keys of the step (dim 1 and 2)", floor=5)
    chk.rule("C17.R2", "added points = candidates with the `selected` largest squared residuals of the current network", floor=4)
    chk.rule("C17.R3", "new points written at start + J * selected of the store's own family (first inactive slots)", floor=4)
    thorough = chk.full
    J = K('J')

    def setup(kind, **kw):
        s = RarSetup(chk.repo, kind, **kw)
        chk.files.update(s.w.files)
        return s

    # ---------------- ODE and stationary (argsort tail)
    for kind, system, het in (('ode', False, False), ('ode', True, False), ('statio', False, False), ('statio', True, False),
                              ('ode', False, True), ('statio', False, True)):
        cfg = {"generator": kind, "loss": "system" if system else "single"}
        if het:
            cfg["heterogeneous_parameter"] = "nu"
        holder = {}

        def get(kind=kind, system=system, holder=holder, het=het):
            if 's' not in holder:
                s = setup(kind, system=system, het=het)
                holder['s'] = s
                holder['new'] = s.step_true()
            return holder['s'], holder['new']

        def expected_score(s, kind, system):
            if kind == 'ode':
                ax, pts = 'S_t', (AT((), np.array(Poly.atom(('T', frozenset({'S_t'}))), dtype=object)),)
            else:
                ax, pts = 'S_x', (AT((s.d,), np.array([Poly.atom(('X', j, frozenset({'S_x'}))) for j in range(s.d)], dtype=object)),)
            if not system:
                return s.score_rows(pts, (ax,)), ax
            tot = Poly()
            for e, dyn in s.loss.fields['dynamic_loss_dict'].items():
                R = dyn.evaluate(*pts, s.loss.fields['u_dict'], s.params)
                tot = tot + jnp_sum(to_at(R) * to_at(R), axis=-1).data[()]
            return AT((ax,), np.array(tot, dtype=object)), ax

        def go_sel(get=get, kind=kind, system=system):
            s, new = get()
            store, count, sel, start = (('times', S_T, SEL_T, K('nt_start')) if kind == 'ode' else ('omega', S_X, SEL_X, K('n_start')))
            pts, off = store_update(new.fields[store], Sym(store), store)
            score, ax = expected_score(s, kind, system)
            cand = stub_time(None, count) if kind == 'ode' else make_stub_omega(s.d)(None, count)
            exp = Sym('gather', at_key(cand), tail_argsort_idx(score, count, sel))
            if not same(norm_sel(as_sym(pts)), exp):
                from .C09 import first_diff
                raise Violation(f"{store}: added points", str(pts)[:260] + " [" + str(first_diff(fz(norm_sel(as_sym(pts))), fz(exp)))[:300] + "]",
                                f"candidates gathered at the {sel} largest squared residuals: {str(exp)[:200]}")
            return f"added = gather(candidates[{ax}], argsort(sum_c R_c^2)[-{sel}:])"
        chk.run("C17.R2", f"{RAR}:_rar_step_init.rar_step_true", cfg, go_sel, construct=f"selection[{kind},{'system' if system else 'single'}]")

        if not system and not het:
            def go_off(get=get, kind=kind):
                s, new = get()
                store, sel, start = (('times', SEL_T, K('nt_start')) if kind == 'ode' else ('omega', SEL_X, K('n_start')))
                pts, off = store_update(new.fields[store], Sym(store), store)
                check_offset(off, start, J, sel, store)
                return f"{store} written at {start} + J * {sel}"
            chk.run("C17.R3", f"{RAR}:_rar_step_init.rar_step_true", cfg, go_off, construct=f"write offset[{kind}]")

    # ---------------- non-stationary (top-k of the time-major grid)
    holder = {}

    def get_ns(holder=holder):
        if 's' not in holder:
            s = setup('nonstatio')
            holder['s'] = s
            holder['new'] = s.step_true()
        return holder['s'], holder['new']

    holder_het = {}

    def get_ns_het(holder=holder_het):
        if 's' not in holder:
            s = setup('nonstatio', het=True)
            holder['s'] = s
            holder['new'] = s.step_true()
        return holder['s'], holder['new']

    holder_sys = {}

    def get_ns_sys(holder=holder_sys):
        if 's' not in holder:
            s = setup('nonstatio', system=True)
            holder['s'] = s
            holder['new'] = s.step_true()
        return holder['s'], holder['new']

    def go_ns_sel(system=False, het=False):
        s, new = get_ns_sys() if system else (get_ns_het() if het else get_ns())
        d = s.d
        tpt = AT((1,), np.array([Poly.atom(('T', frozenset({'S_t'})))], dtype=object))
        xpt = AT((d,), np.array([Poly.atom(('X', j, frozenset({'S_x'}))) for j in range(d)], dtype=object))
        if system:
            # a system of equations: the pairs are ranked by the sum over the equations of the squared residuals (as for the
            # ODE and stationary generators)
            sq = Poly()
            for e, dyn in s.loss.fields['dynamic_loss_dict'].items():
                R = to_at(dyn.evaluate(tpt, xpt, s.loss.fields['u_dict'], s.params))
                sq = sq + jnp_sum(R * R, axis=-1).data[()] if R.axes != () else sq + (R * R).data[()]
        else:
            dyn = s.loss.fields['dynamic_loss']
            R = to_at(dyn.evaluate(tpt, xpt, s.loss.fields['u'], s.params))
            sq = (R * R).data[0]
        grid_flat = AT(("Prod(S_t,S_x)",), np.array(sq, dtype=object))
        k = Sym('max', *sorted((fz(SEL_T), fz(SEL_X)), key=repr))
        idx = Sym('top_k.idx', at_key(grid_flat), k)
        shape = (SymDim('S_t'), SymDim('S_x'))
        for store, axis_i, sel, cand in (('times', 0, SEL_T, stub_time(None, S_T)), ('omega', 1, SEL_X, make_stub_omega(d)(None, S_X))):
            pts, off = store_update(new.fields[store], Sym(store), store)
            sub = Sym('getitem', Sym('floordiv' if axis_i == 0 else 'mod', idx, fz(S_X)), ('slice', None, fz(sel), None))
            exp = Sym('gather', at_key(cand), sub)
            if not same(as_sym(pts), exp):
                from .C09 import first_diff
                raise Violation(f"{store}: added points", str(pts)[:260] + " [" + str(first_diff(fz(as_sym(pts)), fz(exp)))[:300] + "]",
                                f"{str(exp)[:260]}")
        return "added times / points = rows / columns of the top-k squared residuals of the time-major candidate grid"
    chk.run("C17.R2", f"{RAR}:_rar_step_init.rar_step_true", {"generator": "nonstatio", "loss": "single"}, go_ns_sel,
            construct="selection[nonstatio,single]")
    chk.run("C17.R2", f"{RAR}:_rar_step_init.rar_step_true", {"generator": "nonstatio", "loss": "system"}, (lambda: go_ns_sel(system=True)),
            construct="selection[nonstatio,system]")
    chk.run("C17.R2", f"{RAR}:_rar_step_init.rar_step_true", {"generator": "nonstatio", "loss": "single", "heterogeneous_parameter": "nu"},
            (lambda: go_ns_sel(het=True)), construct="selection[nonstatio,single,heterogeneous]")

    def go_ns_off():
        s, new = get_ns()
        for store, sel, start in (('times', SEL_T, K('nt_start')), ('omega', SEL_X, K('n_start'))):
            pts, off = store_update(new.fields[store], Sym(store), store)
            check_offset(off, start, J, sel, store)
        return "times written at nt_start + J * sel_t, points at n_start + J * sel_x"
    chk.run("C17.R3", f"{RAR}:_rar_step_init.rar_step_true", {"generator": "nonstatio"}, go_ns_off, construct="write offset[nonstatio]")
    chk.counts["C17.R3"] += 1

    # ---------------- R4 a step is only taken when every store it writes still has `selected` inactive slots
    chk.rule("C17.R4", "the step predicate requires room (inactive slots >= selected) in EVERY store the step writes, so that only "
                       "inactive slots are overwritten", floor=3)
    for kind in ('ode', 'statio', 'nonstatio'):
        def go_room(kind=kind):
            s = setup(kind)
            new = s.step_true()
            pred = s.fn('_proceed_to_rar')(freeze(s.data), K('i'))
            parts = pred.arg if isinstance(pred, Pred) and pred.kind == 'and' else (pred,)
            written = [st for st in ('times', 'omega') if st in new.fields and not same(new.fields[st], s.data.fields.get(st))]
            if not written:
                raise Inconclusive("the step writes no store")
            for st in written:
                mask, sel = (('p_times', SEL_T) if st == 'times' else ('p_omega', SEL_X))
                free = Poly.atom(('S', Sym('count_nonzero', Pred.compare(Poly.atom(('S', Sym(mask))), 0, '=='))))
                want = Pred.compare(free, sel, '>=')
                if want not in parts:
                    raise Violation(f"room in {st}", f"step predicate {pred} has no capacity condition for the store `{st}` that the step writes",
                                    f"a conjunct {want}")
            return f"capacity conditions present for {written}"
        chk.run("C17.R4", f"{RAR}:_proceed_to_rar / rar_step_true", {"generator": kind}, go_room, construct=f"room before writing[{kind}]")

    # ---------------- R1 real samplers
    for kind in ('ode', 'statio', 'nonstatio'):
        for d in ((1, 2) if kind != 'ode' else (1,)):
            cfg = {"generator": kind, "dim": d}

            def go(kind=kind, d=d):
                s = setup(kind, d=d, real_samplers=True)
                try:
                    new = s.step_true()
                except Finding as f:
                    # the real samplers return draw atoms, which the opaque network rejects as non-canonical points: the
                    # sampling itself went through when the finding comes from the network call
                    if "slot" in str(f) or "time argument" in str(f) or "space argument" in str(f):
                        return "samplers accept the step's keys and counts"
                    raise
                return "samplers accept the step's keys and counts"
            chk.run("C17.R1", f"{RAR}:_rar_step_init.rar_step_true (candidate sampling)", cfg, go, construct=f"candidate sampling[{kind},dim {d}]")

    # ---------------- R5 active set after a step: the previously active entries stay active and exactly the written slice of the
    # store's own family is added (time counted with the time start count, space with the space start count)
    chk.rule("C17.R5", "after a step the active entries of each mask are the first start + (J + 1) * selected of ITS OWN family "
                       "(previously active points stay active; never-written slots stay inactive)", floor=3)
    from ._rar_common import check_mask_activation
    for kind in ('ode', 'statio', 'nonstatio'):
        def go_active(kind=kind):
            s = setup(kind)
            new = s.step_true()
            msgs = []
            if kind in ('ode', 'nonstatio'):
                msgs.append(check_mask_activation(new.fields['p_times'], Sym('p_times'), K('nt_start'), SEL_T, K('J'), "p_times"))
            if kind in ('statio', 'nonstatio'):
                msgs.append(check_mask_activation(new.fields['p_omega'], Sym('p_omega'), K('n_start'), SEL_X, K('J'), "p_omega"))
            return "; ".join(msgs)
        chk.run("C17.R5", f"{RAR}:_rar_step_init.rar_step_true", {"generator": kind}, go_active, construct=f"active set after the step[{kind}]")

    # ---------------- R6 the step functions are built with the generator's own sizes, per family
    chk.rule("C17.R6", "init_rar builds the step with (candidate, selected) sizes of the right family (time sizes for the time store, "
                       "space sizes for the space store)", floor=3)
    for kind in ('ode', 'statio', 'nonstatio'):
        def go_sizes(kind=kind):
            s = setup(kind)
            seen = {}
            orig = s.rar.env.local['_rar_step_init']
            names = [a.arg for a in orig.node.args.args][:2] if getattr(orig, 'node', None) is not None else ['a', 'b']

            def stub(*a, names=names, **k):
                vals = list(a) + [k[n] for n in names[len(a):]]
                seen.update(a=vals[0], b=vals[1])
                return (lambda o: o[2], lambda o: o[2])
            s.rar.env.local['_rar_step_init'] = stub
            try:
                s.fn('init_rar')(freeze(s.data))
            finally:
                s.rar.env.local['_rar_step_init'] = orig
            exp = {'ode': (S_T, SEL_T), 'statio': (S_X, SEL_X), 'nonstatio': ((S_T, S_X), (SEL_T, SEL_X))}[kind]
            got = (seen.get('a'), seen.get('b'))
            if fz(got) != fz(exp):
                raise Violation(f"init_rar sizes[{kind}]", str(got), str(exp))
            return "candidate / selected sizes of the right family"
        chk.run("C17.R6", f"{RAR}:init_rar", {"generator": kind}, go_sizes, construct=f"init_rar sizes[{kind}]")

    # ---------------- R7 the candidates are ranked with the current network: what the training loop hands to the trigger
    from .C16 import run_solve_trigger
    run_solve_trigger(chk, "C17.R7")

    # ---------------- R1 (continued) the candidates drawn by the generator's own samplers lie in the generator's own domain
    for kind in ('ode', 'statio', 'nonstatio'):
        for d in ((1, 2) if kind != 'ode' else (1,)):
            def go_dom(kind=kind, d=d):
                s = setup(kind, d=d, real_samplers='checked')
                s.step_true()
                return "candidate times in [tmin, tmax], candidate coordinate j in [min_j, max_j]"
            chk.run("C17.R1", f"{RAR}:_rar_step_init.rar_step_true (candidate domain)", {"generator": kind, "dim": d}, go_dom,
                    construct=f"candidate domain[{kind},dim {d}]")

    # ---------------- R8 draws interleaved with refinement steps serve the active points of the store's own family: the epoch
    # length of every store is start + J * selected of ITS family (the one-draw step decided under C09, on refined generators)
    chk.rule("C17.R8", "a draw from a refined generator: epoch length start + J * selected of the store's own family, weighted "
                       "permutation with the store's own mask", floor=4)
    from .C09 import check_draw
    from ..genenv import GenEnv, MOD as DG_MOD
    G8 = GenEnv(chk.repo)
    chk.files.update(G8.w.files)
    cases8 = [
        ("DataGeneratorODE.temporal_batch", lambda: G8.ode(rar=True), 'temporal_batch', ('key', 'times', 'curr_time_idx'), K('bt'),
         K('nt_start') + J * K('sel_t'), Sym('p_times'), (K('bt'),)),
        ("CubicMeshPDEStatio.inside_batch", lambda: G8.statio(2, rar=True), 'inside_batch', ('key', 'omega', 'curr_omega_idx'), K('bx'),
         K('n_start') + J * K('sel_x'), Sym('p_omega'), (K('bx'), 2)),
        ("CubicMeshPDENonStatio.temporal_batch", lambda: G8.nonstatio(2, rar=True), 'temporal_batch', ('key', 'times', 'curr_time_idx'),
         K('bt'), K('nt_start') + J * K('sel_t'), Sym('p_times'), (K('bt'),)),
        ("CubicMeshPDENonStatio.inside_batch", lambda: G8.nonstatio(2, rar=True), 'inside_batch', ('key', 'omega', 'curr_omega_idx'),
         K('bx'), K('n_start') + J * K('sel_x'), Sym('p_omega'), (K('bx'), 2)),
    ]
    for name, mk, meth, fields, b, n_eff, p_, sizes in cases8:
        chk.run("C17.R8", f"{DG_MOD}:{name}", {"refined": True},
                (lambda mk=mk, meth=meth, fields=fields, b=b, n_eff=n_eff, p_=p_, sizes=sizes, name=name:
                 check_draw(mk(), meth, fields, b, n_eff, p_, sizes, name)), construct=f"{name} on a refined generator")
