"""C10 - network wrappers honour their calling and output conventions.

Symbolic evaluation of the wrapper classes of jinns/utils (instances with opaque networks and transforms):
 R1 PINN / HYPERPINN.eval_nn == output_transform(inputs, net(input_transform(inputs, params)).squeeze(), params),
    restricted to output_slice, with a trailing component axis (0-d results get one); bare network parameters are
    accepted in place of the parameter object;
 R2 __call__ dispatch: ODE (t, params) - a 0-d time gets the missing axis -, stationary (x, params), non-stationary
    (t, x, params) with the network input [t, x] (time first);
 R3 SPINN.eval_nn on small concrete tensors == sum_r prod_d f_d(x_d)[r-th column of slot s], one slot per declared
    output, slots stacked on the last axis, trailing axis for a single output;
 R4 HYPERPINN: the hyper-network input is the concatenation of eq_params[k].flatten() in `hyperparams` order; its output
    is split at the cumulative leaf sizes and leaf l of the inner parameter tree (tree_leaves order) receives slice l
    reshaped to that leaf's shape; the inner network is evaluated with those weights;
 R5 create_PINN with shared outputs: every returned wrapper is built on the SAME network object with its own slice.
"""
from __future__ import annotations
import itertools
import numpy as np

from ..alg import Poly, AT, Sym, K, to_at, Top, Finding, Fv
from ..extern import make_world, same, fz, OpaqueObj, ModelToken
from ..interp import Inst, freeze
from ..report import Violation, Inconclusive

PINN_MOD, SPINN_MOD, HYPER_MOD = "jinns.utils._pinn", "jinns.utils._spinn", "jinns.utils._hyperpinn"


def S(*a):
    return Poly.atom(('S', Sym(*a)))


def vec(name, n):
    return AT((n,), np.array([Poly.atom(('F', name, k, frozenset())) for k in range(n)], dtype=object))


def input_transform(inputs, params):
    x = to_at(inputs)
    return x.map(lambda p: S('IT', fz(p), fz(inputs), fz(params)))


def output_transform(inputs, out, params):
    o = to_at(out)
    return o.map(lambda p: S('OT', fz(p), fz(inputs), fz(out), fz(params)))


def run(chk):
    w = make_world(chk.repo)
    chk.files = w.files
    thorough = chk.full
    chk.rule("C10.R1", "eval_nn == output_transform(inputs, net(input_transform(inputs, params)).squeeze(), params)[output_slice] "
                       "with a trailing component axis; bare network parameters accepted", floor=8)
    chk.rule("C10.R2", "__call__ dispatch per equation type; 0-d time gets an axis (ODE); network input [t, x]", floor=4)
    chk.rule("C10.R3", "SPINN.eval_nn == tensor grid of sum_r prod_d f_d(x_d), one slot per output, stacked last", floor=4)
    chk.rule("C10.R4", "HYPERPINN: hyper input order, split in parameter-leaf order, reshape to the leaf, inner evaluation", floor=2)
    chk.rule("C10.R5", "shared outputs: wrappers are slices of one common network", floor=1)
    PINN = w.get(PINN_MOD, "PINN")
    Params = w.get("jinns.parameters._params", "Params")

    def mk_pinn(cls, eq_type, m, output_slice=None, **extra):
        static = OpaqueObj('static', attrs={'n_out': m})
        return cls.make(slice_solution=slice(0, m), eq_type=eq_type, input_transform=input_transform,
                        output_transform=output_transform, output_slice=output_slice, params=Sym('own_params'), static=static,
                        **extra), static

    def expected_eval(inputs, params, nn, static, m, output_slice):
        net = ModelToken((nn, static))(input_transform(inputs, params))
        res = output_transform(inputs, net.squeeze(), params)
        if output_slice is not None:
            res = res[output_slice]
        if res.axes == ():
            res = res[None]
        return res

    # ---------------- R1
    for m, sl in ((1, None), (3, None), (3, slice(1, 2)), (3, slice(0, 2)), (3, -1)) + (((3, 2), (3, 0), (2, slice(1, 2))) if thorough else ()):
        for bare in (False, True):
            cfg = {"outputs": m, "output_slice": str(sl), "bare_nn_params": bare}

            def go(m=m, sl=sl, bare=bare):
                net, static = mk_pinn(PINN, "statio_PDE", m, sl)
                x = vec('x', 2)
                params = Sym('theta') if bare else Params.make(nn_params=Sym('theta'), eq_params={'nu': Sym('nu')})
                r = to_at(net.eval_nn(x, params))
                e = expected_eval(x, params, Sym('theta'), static, m, sl)
                if not same(r, e):
                    raise Violation("eval_nn", str(r)[:300], str(e)[:300])
                if len(r.axes) != 1:
                    raise Violation("trailing axis", f"axes {r.axes}", "a vector of components")
                return f"axes {r.axes}"
            chk.run("C10.R1", f"{PINN_MOD}:PINN.eval_nn", cfg, go, construct="PINN.eval_nn")

    # the wrapper is differentiable with respect to its inputs wherever its value depends on them (the residuals differentiate
    # through eval_nn, transforms included): no stop_gradient on the inputs
    def go_diff():
        from ..alg import jax_jac, pt
        net, static = mk_pinn(PINN, "statio_PDE", 2, None)
        params = Params.make(nn_params=Sym('theta'), eq_params={'nu': Sym('nu')})
        jax_jac(lambda x_: net.eval_nn(x_, params))(pt(2))
        return "eval_nn can be differentiated with respect to its inputs"
    chk.run("C10.R1", f"{PINN_MOD}:PINN.eval_nn", {"differentiated_wrt": "inputs"}, go_diff, construct="PINN.eval_nn under differentiation")

    # ---------------- R2 dispatch
    for eq_type in ("ODE", "statio_PDE", "nonstatio_PDE"):
        for scalar_t in ((False, True) if eq_type != "statio_PDE" else (False,)):
            cfg = {"eq_type": eq_type, "scalar_time": scalar_t}

            def go(eq_type=eq_type, scalar_t=scalar_t):
                net, static = mk_pinn(PINN, eq_type, 2)
                params = Params.make(nn_params=Sym('theta'), eq_params={'nu': Sym('nu')})
                t1 = vec('t', 1)
                t = t1[0] if scalar_t else t1
                x = vec('x', 2)
                if eq_type == "ODE":
                    r, inputs = net(t, params), t1
                elif eq_type == "statio_PDE":
                    r, inputs = net(x, params), x
                else:
                    from ..alg import jnp_concatenate
                    r, inputs = net(t, x, params), jnp_concatenate([t1, x], axis=-1)
                e = expected_eval(inputs, params, Sym('theta'), static, 2, None)
                if not same(to_at(r), e):
                    raise Violation("__call__", str(r)[:300], str(e)[:300])
                return "dispatch and network input as specified"
            chk.run("C10.R2", f"{PINN_MOD}:PINN.__call__", cfg, go, construct=f"PINN.__call__[{eq_type}]")

    # ---------------- R3 SPINN
    SPINN = w.get(SPINN_MOD, "SPINN")
    for d, r, m, B in ((2, 2, 1, 2), (2, 2, 2, 2), (3, 2, 2, 2), (1, 2, 2, 2)) + (((3, 1, 3, 2), (2, 3, 2, 1)) if thorough else ()):
        cfg = {"d": d, "r": r, "m": m, "rows": B}

        def go(d=d, r=r, m=m, B=B):
            sp = SPINN.make(d=d, r=r, eq_type="statio_PDE", m=m, params=Sym('p'), static=Sym('s'))
            res = AT((B, d, r * m), np.array([[[Poly.atom(('F', 'f', (b, dd, z), frozenset())) for z in range(r * m)]
                                               for dd in range(d)] for b in range(B)], dtype=object))
            out = to_at(sp.eval_nn(res))
            exp_axes = (B,) * d + (m,)
            if tuple(out.axes) != exp_axes:
                raise Violation("shape", f"axes {out.axes}", f"{exp_axes}")
            for idx in itertools.product(range(B), repeat=d):
                for s in range(m):
                    e = Poly()
                    for z in range(s * r, (s + 1) * r):
                        t_ = Poly.const(1)
                        for dd in range(d):
                            t_ = t_ * res.data[idx[dd], dd, z]
                        e = e + t_
                    if out.data[idx + (s,)] != e:
                        raise Violation(f"entry {idx + (s,)}", str(out.data[idx + (s,)]), str(e))
            return f"grid {exp_axes}: sum_r prod_d f_d(x_d) per output slot"
        chk.run("C10.R3", f"{SPINN_MOD}:SPINN.eval_nn", cfg, go, construct="SPINN.eval_nn")

    # ---------------- R3b SPINN.__call__: the separable network is evaluated row by row on (t_i, x_i) and combined
    for eq_type, d_sp in (("statio_PDE", 2), ("nonstatio_PDE", 2), ("statio_PDE", 1), ("nonstatio_PDE", 1), ("statio_PDE", 3)):
        for bare in ((False, True) if d_sp == 2 else (False,)):
            cfg = {"eq_type": eq_type, "bare_nn_params": bare, "d_space": d_sp}

            def go(eq_type=eq_type, bare=bare, d_sp=d_sp):
                r, m, B = 2, 2, 2
                d = d_sp + (1 if eq_type == "nonstatio_PDE" else 0)
                # the inner separable module is called as module(t, x): its parameter names are read from the repository
                inner_call = w.find_function_node(SPINN_MOD, "_SPINN.__call__")
                names = tuple(a.arg for a in inner_call.args.args[1:]) if inner_call is not None else ('t', 'x')
                static = OpaqueObj('spinn_static', attrs={'out_shape': (d, r * m), 'call_params': names})
                sp = SPINN.make(d=d, r=r, eq_type=eq_type, m=m, params=Sym('p'), static=static)
                x = AT((B, d_sp), np.array([[Poly.atom(('F', 'x', (b, j), frozenset())) for j in range(d_sp)] for b in range(B)], dtype=object))
                t = AT((B, 1), np.array([[Poly.atom(('F', 't', (b,), frozenset()))] for b in range(B)], dtype=object))
                params = Sym('theta') if bare else Params.make(nn_params=Sym('theta'), eq_params={})
                out = to_at(sp(x, params) if eq_type == "statio_PDE" else sp(t, x, params))
                model = ModelToken((Sym('theta'), static))
                rows = []
                for b in range(B):
                    rows.append(model(t=None, x=x[b]) if eq_type == "statio_PDE" else model(t[b], x[b]))
                exp_axes = (B,) * d + (m,)
                if tuple(out.axes) != exp_axes:
                    raise Violation("shape", f"axes {out.axes}", f"{exp_axes}")
                for idx in itertools.product(range(B), repeat=d):
                    for s_ in range(m):
                        e = Poly()
                        for z in range(s_ * r, (s_ + 1) * r):
                            t_ = Poly.const(1)
                            for dd in range(d):
                                t_ = t_ * rows[idx[dd]].data[dd, z]
                            e = e + t_
                        if out.data[idx + (s_,)] != e:
                            raise Violation(f"entry {idx + (s_,)}", str(out.data[idx + (s_,)])[:200], str(e)[:200])
                return f"grid {exp_axes} from the row-wise separable evaluations"
            chk.run("C10.R3", f"{SPINN_MOD}:SPINN.__call__", cfg, go, construct=f"SPINN.__call__[{eq_type}]")

    # ---------------- R4 HYPERPINN
    HYPER = w.get(HYPER_MOD, "HYPERPINN")
    for order in (('nu', 'D'), ('D', 'nu')):
        for sl in (None, slice(0, 1)):
            cfg = {"hyperparams": list(order), "output_slice": str(sl)}

            def go(order=order, sl=sl):
                leaves = [Fv('W0', (2, 3)), Fv('b0', (2,)), Fv('W1', (1, 2)), Fv('b1', (1,))]
                inner = {'layers': [{'weight': leaves[0], 'bias': leaves[1]}, {'weight': leaves[2], 'bias': leaves[3]}]}
                # tree_leaves order of `inner`: dict keys sorted -> bias before weight
                flat = [leaves[1], leaves[0], leaves[3], leaves[2]]
                sizes = [l.size for l in flat]
                cum = list(np.cumsum(sizes))
                m = 2
                static = OpaqueObj('static', attrs={'n_out': m})
                static_h = OpaqueObj('static_hyper', attrs={'n_out': int(cum[-1])})
                hp = HYPER.make(slice_solution=slice(0, m), eq_type="statio_PDE", input_transform=input_transform,
                                output_transform=output_transform, output_slice=sl, params=inner, static=static,
                                hyperparams=list(order), hypernet_input_size=3, params_hyper=Sym('hyper_own'),
                                static_hyper=static_h, pinn_params_sum=int(cum[-1]), pinn_params_cumsum=[int(c) for c in cum])
                eqp = {'nu': vec('nu', 1), 'D': Fv('D', (1, 2)), 'other': vec('other', 1)}
                params = Params.make(nn_params=Sym('theta_h'), eq_params=eqp)
                x = vec('x', 2)
                r = to_at(hp.eval_nn(x, params))
                # specification
                from ..alg import jnp_concatenate
                hin = jnp_concatenate([to_at(eqp[k]).flatten() for k in order], axis=0)
                H = ModelToken((Sym('theta_h'), static_h))(hin)
                pieces, start = [], 0
                for l, n in zip(flat, sizes):
                    pieces.append(H[start:start + n].reshape(l.shape if isinstance(l.shape, tuple) else tuple(l.shape)))
                    start += n
                new_inner = {'layers': [{'weight': pieces[1], 'bias': pieces[0]}, {'weight': pieces[3], 'bias': pieces[2]}]}
                net = ModelToken((new_inner, static))(input_transform(x, params))
                e = output_transform(x, net.squeeze(), params)
                if sl is not None:
                    e = e[sl]
                if e.axes == ():
                    e = e[None]
                if not same(r, e):
                    from .C09 import first_diff
                    raise Violation("HYPERPINN.eval_nn", str(r)[:300] + " [" + str(first_diff(fz(r), fz(e)))[:300] + "]", str(e)[:300])
                return "hyper input order, leaf-order split, reshape and inner evaluation as specified"
            chk.run("C10.R4", f"{HYPER_MOD}:HYPERPINN.eval_nn/_hyper_to_pinn", cfg, go, construct="HYPERPINN.eval_nn")

    # ---------------- R4b parameter counting of the inner network (split points of the hyper-network output)
    def go_nb():
        f = w.get(HYPER_MOD, "_get_param_nb")
        tree = {'layers': [{'weight': Fv('W0', (2, 3)), 'bias': Fv('b0', (2,))}, {'weight': Fv('W1', (1, 2)), 'bias': Fv('b1', (1,))}]}
        total, cum = f(tree)
        sizes = [2, 6, 1, 2]      # tree_leaves order: bias before weight in every layer
        exp_cum = [2, 8, 9, 11]
        if int(total) != 11 or [int(c) for c in cum] != exp_cum:
            raise Violation("_get_param_nb", f"({total}, {cum})", f"(11, {exp_cum}) = total and cumulative leaf sizes in tree_leaves order")
        return "total and cumulative leaf sizes in parameter-leaf order"
    chk.run("C10.R4", f"{HYPER_MOD}:_get_param_nb", {}, go_nb, construct="_get_param_nb")

    # ---------------- R3c the separable MLPs: coordinate d (time first) goes through its own network
    _SP = w.get(SPINN_MOD, "_SPINN")
    for has_t in (False, True):
        def go_sep(has_t=has_t):
            d_sp = 2
            d = d_sp + (1 if has_t else 0)

            def layer(dd):
                def f(v):
                    v = to_at(v)
                    return AT((3,), np.array([S('mlp', dd, z, fz(v)) for z in range(3)], dtype=object))
                return f
            sp = _SP.make(d=d, layers=None, separated_mlp=[[layer(dd)] for dd in range(d)])
            x = vec('x', d_sp)
            t = vec('t', 1) if has_t else None
            out = to_at(sp(t, x))
            coords = ([t[0]] if has_t else []) + [x[j] for j in range(d_sp)]
            if tuple(out.axes) != (d, 3):
                raise Violation("shape", f"axes {out.axes}", f"({d}, 3)")
            for dd in range(d):
                e = layer(dd)(coords[dd][None])
                for z in range(3):
                    if out.data[dd, z] != e.data[z]:
                        raise Violation(f"row {dd}", str(out.data[dd, z])[:160], str(e.data[z])[:160])
            return "row d = network d applied to coordinate d (time first)"
        chk.run("C10.R3", f"{SPINN_MOD}:_SPINN.__call__", {"time": has_t}, go_sep, construct="_SPINN.__call__")

    # ---------------- R5 shared outputs
    for modname, fname in ((PINN_MOD, "create_PINN"),):
        def go(modname=modname, fname=fname):
            create = w.get(modname, fname)
            layer = lambda *a, **k: OpaqueObj(f"layer{a}")
            act = lambda x: x
            eqx_list = ((layer, 2, 8), (act,), (layer, 8, 3))
            slices = (slice(0, 1), slice(1, 3))
            nets = create(Sym('key'), eqx_list, "statio_PDE", 2, shared_pinn_outputs=slices)
            if not isinstance(nets, list) or len(nets) != 2:
                raise Violation("shared outputs", f"{type(nets).__name__}", "a list with one wrapper per slice")
            for n_, sl in zip(nets, slices):
                if n_.fields['output_slice'] != sl:
                    raise Violation("output_slice", str(n_.fields['output_slice']), str(sl))
            # slices with a step / default bounds / the whole range select the same outputs as on a list
            for sl2 in ((slice(None, None, 2), slice(1, None)), (slice(None, None, -1), slice(None, 3)), (slice(0, 3, 3), slice(None, 2))):
                nets2 = create(Sym('key'), eqx_list, "statio_PDE", 2, shared_pinn_outputs=sl2)
                for n_, sl in zip(nets2, sl2):
                    got = n_.fields['output_slice']
                    sel = list(range(3))[got] if isinstance(got, slice) else (list(range(3)) if got is None else got)
                    if sel != list(range(3))[sl]:
                        raise Violation("output_slice", f"{got} selects outputs {sel}", f"{sl} selects outputs {list(range(3))[sl]}")
            if not same(fz(nets[0].fields['params']), fz(nets[1].fields['params'])) or \
                    not same(fz(nets[0].fields['static']), fz(nets[1].fields['static'])):
                raise Violation("common network", "the wrappers are built on different networks", "one common network")
            single = create(Sym('key'), eqx_list, "statio_PDE", 2)
            if single.fields['output_slice'] is not None:
                raise Violation("single wrapper", str(single.fields['output_slice']), "no output slice")
            if single.fields['slice_solution'] != slice(0, 3):
                raise Violation("default slice_solution", str(single.fields['slice_solution']), "all declared outputs")
            return "one common network, one slice per wrapper"
        chk.run("C10.R5", f"{modname}:{fname}", {}, go, construct=f"{fname} shared outputs")

    chk.rule("C10.R6", "factories: slice_solution None = all declared outputs, integer k (0 and negative k included) = component k alone, slice kept; the "
                       "other specifications reach the wrapper unchanged", floor=6)
    factory_slice_rule(chk, "C10.R6", w)
    factory_transform_rule(chk, "C10.R6", w)


def factory_slice_rule(chk, rule_id, w=None):
    """the factories turn the caller's `slice_solution` into the wrapper's solution slice: None = all declared outputs, an
    integer k (0 included) = [k : k + 1] so that the component axis survives, a slice = itself; the other specifications
    (equation type, transforms, output slice) reach the wrapper unchanged"""
    w = w or make_world(chk.repo)
    chk.files.update(w.files)
    layer = lambda *a, **k: OpaqueObj(f"layer{a}")
    act = lambda x: x
    eqx_list = ((layer, 2, 8), (act,), (layer, 8, 3))
    # what is compared is the list of output components the stored slice selects (not how the slice is written)
    cases = [(None, [0, 1, 2]), (0, [0]), (1, [1]), (2, [2]), (-1, [2]), (-2, [1]), (slice(1, 3), [1, 2]), (slice(0, 1), [0])]
    for modname, fname, extra in ((PINN_MOD, "create_PINN", ()), ("jinns.utils._hyperpinn", "create_HYPERPINN", (["nu"], 1))):
        for given, want in cases:
            def go(modname=modname, fname=fname, given=given, want=want, extra=extra):
                create = w.get(modname, fname)
                it = lambda i, p: i
                ot = lambda i, o, p: o
                net = create(Sym('key'), eqx_list, "nonstatio_PDE", *extra, 1, input_transform=it, output_transform=ot,
                             slice_solution=given)
                got = net.fields['slice_solution']
                if not isinstance(got, slice):
                    raise Violation(f"{fname}(slice_solution={given!r})", f"the wrapper's solution slice is {got!r}: indexing with it "
                                    f"drops the component axis", "a slice")
                sel = list(range(3))[got]
                if sel != want:
                    raise Violation(f"{fname}(slice_solution={given!r})", f"the wrapper's solution slice is {got}: it selects the "
                                    f"components {sel} of 3 outputs", f"components {want}")
                if net.fields['eq_type'] != "nonstatio_PDE" or net.fields['input_transform'] is not it \
                        or net.fields['output_transform'] is not ot or net.fields['output_slice'] is not None:
                    raise Violation(f"{fname}", "equation type / transforms / output slice altered on the way to the wrapper", "unchanged")
                return f"slice_solution={given!r} -> {want}"
            chk.run(rule_id, f"{modname}:{fname}", {"slice_solution": str(given)}, go, construct=f"{fname} solution slice")


def factory_transform_rule(chk, rule_id, w=None):
    """a transform handed to a factory is the wrapper's transform; an omitted one is the identity - for each of the two transforms
    independently of the other, for both factories"""
    w = w or make_world(chk.repo)
    chk.files.update(w.files)
    layer = lambda *a, **k: OpaqueObj(f"layer{a}")
    act = lambda x: x
    eqx_list = ((layer, 2, 8), (act,), (layer, 8, 3))
    HYP_MOD = "jinns.utils._hyperpinn"
    for modname, fname, pre in ((PINN_MOD, "create_PINN", ()), (HYP_MOD, "create_HYPERPINN", (["nu"], 1))):
        for give_in in (False, True):
            for give_out in (False, True):
                cfg = {"input_transform": "given" if give_in else "omitted", "output_transform": "given" if give_out else "omitted"}

                def go(modname=modname, fname=fname, pre=pre, give_in=give_in, give_out=give_out):
                    create = w.get(modname, fname)
                    it = lambda i, p: i
                    ot = lambda i, o, p: o
                    kw = {}
                    if give_in:
                        kw['input_transform'] = it
                    if give_out:
                        kw['output_transform'] = ot
                    net = create(Sym('key'), eqx_list, "statio_PDE", *pre, 2, **kw)
                    for name, given, mine, probe in (('input_transform', give_in, it, (Sym('x_in'), Sym('prm'))),
                                                      ('output_transform', give_out, ot, (Sym('x_in'), Sym('y_out'), Sym('prm')))):
                        got = net.fields[name]
                        if given:
                            if got is not mine:
                                raise Violation(f"{fname}({name}=f)", f"the wrapper's {name} is not the function handed to the factory", "the caller's function")
                        else:
                            r = got(*probe)
                            want = probe[0] if name == 'input_transform' else probe[1]
                            if not same(r, want):
                                raise Violation(f"{fname}({name} omitted)", f"default {name} returns {r}", f"the identity ({want})")
                    return "given transforms kept, omitted ones are the identity"
                chk.run(rule_id, f"{modname}:{fname}", cfg, go, construct=f"{fname} transforms")
