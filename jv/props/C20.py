"""C20 - loss evaluation and batch drawing are pure and compilation-invariant.

 R1 (abstract interpretation with frozen arguments): evaluating each of the five loss classes, for every combination
    of optional batch parts, never writes into its parameters / batch / the loss object (any store into an argument's
    containers or an immutable module is a finding).
 R2 (effect analysis on the AST): in the call-graph closure of the entry points (evaluate / __call__ of the losses,
    get_batch and *_batch of the generators, the dynamic-loss wrappers, the network wrappers) no function stores into,
    deletes from, or calls a mutating method on an object reachable from one of its parameters; no global / nonlocal.
 R3 no wall-clock / host randomness / module-level mutable state is read in that closure (results repeatable, identical
    eagerly and under jit as far as Python-level state is concerned).
Numerical equality eager == jit == value_and_grad primal is JAX's contract for pure functions (trusted), not decided here.
"""
from __future__ import annotations
import ast
import os

from ..alg import Top, Finding, Sym
from ..lossenv import LossEnv, SingleLoss, SystemLoss
from ..report import Violation, Inconclusive
from .. import effects

ENTRY_NAMES = {"evaluate", "__call__", "get_batch", "temporal_batch", "inside_batch", "border_batch", "obs_batch", "param_batch",
               "_evaluate", "_eval_heterogeneous_parameters", "eval_nn", "equation",
               # the batch-composition helpers of the data module (called by solve and by the validation modules on drawn batches)
               "append_param_batch", "append_obs_batch"}
MODULES = ["jinns/loss/_LossODE.py", "jinns/loss/_LossPDE.py", "jinns/loss/_loss_utils.py", "jinns/loss/_boundary_conditions.py",
           "jinns/loss/_DynamicLossAbstract.py", "jinns/loss/_DynamicLoss.py", "jinns/loss/_operators.py",
           "jinns/parameters/_params.py", "jinns/parameters/_derivative_keys.py", "jinns/data/_DataGenerators.py",
           "jinns/data/_Batchs.py", "jinns/utils/_pinn.py", "jinns/utils/_spinn.py", "jinns/utils/_hyperpinn.py",
           "jinns/utils/_utils.py", "jinns/loss/_loss_weights.py"]
CONSTRUCTION = {"__post_init__", "__init__", "generate_data", "generate_time_data", "set_loss_weights"}
FORBIDDEN_IMPORTS = {"time", "random", "datetime", "secrets", "uuid"}


def run(chk):
    E = LossEnv(chk.repo)
    chk.files = E.w.files
    thorough = chk.full
    chk.rule("C20.R1", "evaluate() of every loss class with frozen arguments performs no write into its arguments", floor=10)
    chk.rule("C20.R2", "no store / delete / mutating call on parameter-reachable objects in the closure of the entry points", floor=60)
    chk.rule("C20.R3", "no wall-clock / host randomness / global state in the closure", floor=10)
    chk.rule("C20.R0", "self-check: the effect analysis reports every function of the impure fixture and not the pure one", floor=1)

    # ---- R1
    all_terms = {'ODE': ('dyn', 'ic', 'obs'), 'statio_PDE': ('dyn', 'bc', 'obs'), 'nonstatio_PDE': ('dyn', 'bc', 'obs', 'ic')}
    for eq_type, names in all_terms.items():
        for pk in ((), ('nu',)):
            for with_obs in (False, True):
                terms = tuple(t for t in names if with_obs or t != 'obs')
                if not pk and eq_type != 'ODE':
                    terms = terms + ('norm',)
                for system in (False, True):
                    cfg = {"loss": ("System:" if system else "") + eq_type, "param_batch": list(pk), "obs": with_obs}

                    def go(eq_type=eq_type, terms=terms, pk=pk, system=system):
                        if system:
                            SL = SystemLoss(E, eq_type, 'PINN', terms=terms)
                            SL.evaluate(pk)
                            SL.evaluate(pk)
                        else:
                            S = SingleLoss(E, eq_type, 'PINN', d=2, terms=terms)
                            S.evaluate(param_keys=pk)
                        return "no write into parameters, batch or loss object"
                    site = {"ODE": "jinns.loss._LossODE:", "statio_PDE": "jinns.loss._LossPDE:", "nonstatio_PDE": "jinns.loss._LossPDE:"}[eq_type]
                    cname = ("SystemLossODE" if eq_type == 'ODE' else "SystemLossPDE") if system else \
                        {"ODE": "LossODE", "statio_PDE": "LossPDEStatio", "nonstatio_PDE": "LossPDENonStatio"}[eq_type]
                    chk.run("C20.R1", site + cname + ".evaluate", cfg, go, construct=f"{cname}.evaluate purity")

    # ---- R1b: parameter batch together with observed parameters (two per-row dictionaries are merged)
    for eq_type in all_terms:
        def go(eq_type=eq_type):
            S = SingleLoss(E, eq_type, 'PINN', d=2, terms=('dyn', 'obs'), eq_keys=('nu', 'th'))
            S.evaluate(param_keys=('nu',), observed_params=('th',))
            return "no write into the batch dictionaries"
        chk.run("C20.R1", {"ODE": "jinns.loss._LossODE:LossODE", "statio_PDE": "jinns.loss._LossPDE:LossPDEStatio",
                           "nonstatio_PDE": "jinns.loss._LossPDE:LossPDENonStatio"}[eq_type] + ".evaluate",
                {"loss": eq_type, "param_batch": ["nu"], "observed": ["th"]}, go, construct="evaluate purity (param batch + observed params)")

    # ---- R5: dict insertion order (jit re-creates dictionaries with sorted keys: any dependence on the insertion order
    #          is an eager / jit discrepancy)
    chk.rule("C20.R5", "system-loss results do not depend on the insertion order of the user's dictionaries (networks, "
                       "equations, weights, boundary / initial specifications)", floor=3)
    from ..specs import canon
    from .C03 import scalar_of
    for eq_type, names in all_terms.items():
        def go(eq_type=eq_type, names=names):
            res = []
            for rev in ((), ('u',), ('dyn',), ('weights',), ('specs',), ('u', 'dyn', 'weights', 'specs')):
                SL = SystemLoss(E, eq_type, 'PINN', terms=names, weights='dict', reverse_dicts=rev)
                total, terms = SL.evaluate()
                res.append({k: canon(scalar_of(v, k)) for k, v in terms.items()})
            for other in res[1:]:
                for k in res[0]:
                    if res[0][k] != other[k]:
                        raise Violation(k, f"with another insertion order of one of the dictionaries: {other[k]}", f"{res[0][k]}")
            return "identical formulas for both insertion orders"
        site = "jinns.loss._LossODE:SystemLossODE.evaluate" if eq_type == 'ODE' else "jinns.loss._LossPDE:SystemLossPDE.evaluate"
        chk.run("C20.R5", site, {"loss": eq_type}, go, construct=f"insertion-order invariance[{eq_type}]")

    # ---- R7: a weight is a Python float eagerly (and when the loss is closed over) but a 0-d array when the loss object is an
    #          argument of a jitted function (solve passes it through the loop carry): both representations must give the
    #          same formulas, i.e. no branch may be decided by the Python type of a weight
    chk.rule("C20.R7", "loss values (and their scalar shape) do not depend on whether a weight is a Python float, a 0-d array (eager / "
                       "closed-over vs loss passed through jit) or a length-one array (accepted by the system losses)", floor=3)
    import numpy as np
    from ..alg import AT, Poly
    for eq_type, names in all_terms.items():
        if eq_type != 'ODE':
            names = tuple(names) + ('norm',)       # no parameter batch here: the normalisation term can be part of it

        def go(eq_type=eq_type, names=names):
            res, undecided = [], None
            for rep, wv in (("float", 2.0), ("int", 2), ("0-d array", AT((), np.array(Poly.const(2), dtype=object))),
                            ("length-one array", AT((1,), np.array([Poly.const(2)], dtype=object)))):
                S = SingleLoss(E, eq_type, 'PINN', d=2, m_u=2, m_res=2, terms=names, weight_value=wv)
                try:
                    total, terms = S.evaluate()
                except Top as ex:
                    if not res:
                        raise
                    undecided = undecided or ex    # a definite difference among the other representations is still reported
                    continue
                scalar_of(total, f"total (weights given as {rep})")       # the total is a scalar whatever the representation
                res.append((rep, {k: canon(scalar_of(v, f"{k} (weights given as {rep})")) for k, v in terms.items()}))
            for rep, other in res[1:]:
                for k in res[0][1]:
                    if res[0][1][k] != other[k]:
                        raise Violation(k, f"with the weight given as {rep}: {other[k]}", f"as a Python float: {res[0][1][k]}")
            if undecided is not None:
                raise undecided
            return "identical scalar formulas for float, int, 0-d and length-one array weights"
        site = {"ODE": "jinns.loss._LossODE:LossODE", "statio_PDE": "jinns.loss._LossPDE:LossPDEStatio",
                "nonstatio_PDE": "jinns.loss._LossPDE:LossPDENonStatio"}[eq_type] + ".evaluate"
        chk.run("C20.R7", site, {"loss": eq_type, "terms": list(names)}, go, construct=f"weight representation invariance[{eq_type}]")

    # ---- R4: generator indices cannot overflow int32 (eager python ints vs int32 under jit)
    chk.rule("C20.R4", "initial batch indices: index + batch size <= int32 max for every batch size (no eager / jit "
                       "discrepancy through integer wrap-around), first draw reshuffles", floor=20)
    from ..genenv import GenEnv
    from .C09 import run_initial_index
    run_initial_index(chk, GenEnv(chk.repo), "C20.R4")
    from .C09 import run_first_draw
    run_first_draw(chk, chk.repo, "C20.R4")

    # ---- R8: an object that is passed THROUGH jit as an argument (solve passes the loss and the generators through the jitted
    #          step and the loop carry) may hold non-array data (slices, strings, functions, shapes) in STATIC fields only: such a
    #          value in a dynamic field makes the jitted call raise where the eager one works
    chk.rule("C20.R8", "objects that go through jit as arguments keep slices / strings / functions in static fields", floor=4)

    def dynamic_non_arrays(obj, path="", seen=None):
        from ..interp import Inst as _Inst, Closure as _Closure, BoundMethod as _BM
        seen = seen if seen is not None else set()
        out = []
        if id(obj) in seen:
            return out
        seen.add(id(obj))
        if isinstance(obj, _Inst):
            for name in obj.dynamic_field_names():
                out += dynamic_non_arrays(obj.fields[name], f"{path}.{name}" if path else name, seen)
        elif isinstance(obj, dict):
            for k_, v_ in obj.items():
                out += dynamic_non_arrays(v_, f"{path}[{k_!r}]", seen)
        elif isinstance(obj, (list, tuple)) and not hasattr(obj, '_fields'):
            for i_, v_ in enumerate(obj):
                out += dynamic_non_arrays(v_, f"{path}[{i_}]", seen)
        elif isinstance(obj, (slice, str)) or isinstance(obj, (_Closure, _BM)) or (callable(obj) and getattr(obj, '__name__', '') == '<lambda>'):
            out.append((path, type(obj).__name__ if not isinstance(obj, slice) else f"slice {obj}"))
        return out

    def go_static_nets():
        from ..extern import OpaqueObj, make_world
        w2 = make_world(chk.repo)
        layer = lambda *a, **k: OpaqueObj(f"layer{a}")
        eqx_list = ((layer, 2, 8), ((lambda x: x),), (layer, 8, 3))
        create = w2.get("jinns.utils._pinn", "create_PINN")
        nets = create(Sym('key'), eqx_list, "statio_PDE", 2, shared_pinn_outputs=(slice(0, 1), slice(1, 3)), slice_solution=slice(0, 2))
        bad = []
        for i_, n_ in enumerate(nets):
            bad += [(f"PINN[{i_}].{p_}", t_) for p_, t_ in dynamic_non_arrays(n_)]
        if bad:
            raise Violation("network wrappers", f"non-array data in dynamic fields: {bad[:4]}", "slices / strings / functions held in static fields")
        return f"{len(nets)} wrappers created with shared outputs: only arrays in their dynamic fields"
    chk.run("C20.R8", "jinns.utils._pinn:create_PINN", {"shared_pinn_outputs": "two slices"}, go_static_nets, construct="static fields of the wrappers")
    for eq_type, names in all_terms.items():
        def go_static_loss(eq_type=eq_type, names=names):
            S = SingleLoss(E, eq_type, 'PINN', d=2, m_u=2, terms=names, obs_slice=slice(0, 1),
                           **({'bc_dim': slice(0, 1)} if eq_type != 'ODE' else {}))
            bad = dynamic_non_arrays(S.loss)
            if bad:
                raise Violation("loss object", f"non-array data in dynamic fields: {bad[:4]}", "slices / strings / functions held in static fields")
            return "only arrays in the dynamic fields of the loss"
        chk.run("C20.R8", {"ODE": "jinns.loss._LossODE:LossODE", "statio_PDE": "jinns.loss._LossPDE:LossPDEStatio",
                           "nonstatio_PDE": "jinns.loss._LossPDE:LossPDENonStatio"}[eq_type], {"loss": eq_type}, go_static_loss,
                construct=f"static fields of the loss[{eq_type}]")

    # ---- R6: drawing a batch performs no write into the generator (frozen instances)
    chk.rule("C20.R6", "get_batch of every generator kind on a frozen generator performs no write into it", floor=6)
    from ..interp import freeze
    G6 = GenEnv(chk.repo)
    gens = {"DataGeneratorODE": lambda: G6.ode(rar=True), "CubicMeshPDEStatio": lambda: G6.statio(2, rar=True),
            "CubicMeshPDEStatio[1D]": lambda: G6.statio(1), "CubicMeshPDENonStatio[paired]": lambda: G6.nonstatio(2, cartesian=False),
            "DataGeneratorObservations": lambda: G6.obs(('nu',)), "DataGeneratorParameter": lambda: G6.param(('nu', 'th'))}
    for name, mk in gens.items():
        def go(mk=mk, name=name):
            g = freeze(mk())
            before = {k: v for k, v in g.fields.items()}
            if name.startswith("CubicMeshPDENonStatio"):
                for m_ in ("inside_batch", "border_batch", "temporal_batch"):
                    getattr(g, m_)()
            else:
                g.get_batch()
            for k, v in before.items():
                if g.fields.get(k) is not v:
                    raise Violation(f"{name}.{k}", "field rebound on the generator passed in", "untouched")
            return "no write into the generator"
        chk.run("C20.R6", f"jinns.data._DataGenerators:{name.split('[')[0]}.get_batch", {"generator": name}, go, construct=f"{name} purity")

    # ---- R2 / R3
    funcs = []
    imports = {}
    for rel in MODULES:
        path = os.path.join(chk.repo, rel)
        if not os.path.isfile(path):
            chk.run("C20.R2", rel, {}, lambda rel=rel: (_ for _ in ()).throw(Inconclusive(f"module {rel} vanished")))
            continue
        src = open(path).read()
        chk.files[rel] = src
        import warnings
        with warnings.catch_warnings():
            warnings.simplefilter('ignore')
            tree = ast.parse(src)
        funcs += effects.functions_of(tree, rel)
        imports[rel] = tree
    clo = effects.closure(funcs, lambda f: f[1].split(".")[-1] in ENTRY_NAMES and f[1].split(".")[-1] not in CONSTRUCTION)
    clo = [f for f in clo if f[1].split(".")[-1] not in CONSTRUCTION and not any(p in CONSTRUCTION for p in f[1].split("."))]
    for modname, qual, node, cls in sorted(clo, key=lambda f: (f[0], f[1])):
        def go(node=node, modname=modname, qual=qual):
            fs = effects.analyse_function(node)
            if fs:
                ln, what = fs[0]
                raise Violation(_norm(what), what + (f" (+{len(fs) - 1} more)" if len(fs) > 1 else ""),
                                "no effect on objects reachable from the parameters", where=f"{modname}:{ln}")
            return "no effect on parameter-reachable objects"
        chk.run("C20.R2", f"{modname}:{qual}", {}, go)
    for rel, tree in imports.items():
        def go(tree=tree, rel=rel):
            bad = []
            for n in ast.walk(tree):
                if isinstance(n, ast.Import):
                    bad += [a.name for a in n.names if a.name.split(".")[0] in FORBIDDEN_IMPORTS]
                elif isinstance(n, ast.ImportFrom) and n.module and n.module.split(".")[0] in FORBIDDEN_IMPORTS:
                    bad.append(n.module)
                elif isinstance(n, ast.Attribute) and isinstance(n.value, ast.Attribute) and \
                        ast.unparse(n.value) in ("np.random", "numpy.random", "onp.random"):
                    bad.append(ast.unparse(n))
            if bad:
                raise Violation("host state", f"uses {sorted(set(bad))}", "no wall-clock / host randomness")
            return "no wall-clock / host randomness"
        chk.run("C20.R3", rel, {}, go, construct="host state")

    # ---- R0 self-check on the fixture
    def selfcheck():
        p = os.path.join(os.path.dirname(os.path.dirname(os.path.abspath(__file__))), "fixtures", "impure_example.py")
        tree = ast.parse(open(p).read())
        res = {q: effects.analyse_function(n) for _, q, n, _ in effects.functions_of(tree, "fixture")}
        for q in ("writes_item", "appends", "deletes", "writes_after_alias_in_branch", "writes_in_closure", "merges_in_place"):
            if not res.get(q):
                raise Inconclusive(f"effect analysis missed the impure fixture function {q}")
        for q in ("pure", "pure_fresh_in_one_branch", "pure_rebound", "pure_merge"):
            if res.get(q):
                raise Inconclusive(f"effect analysis reported the pure fixture function {q}: {res[q]}")
        return "fixture: 6 impure functions reported, 4 pure ones silent"
    chk.run("C20.R0", "jv/fixtures/impure_example.py", {}, selfcheck, nontrivial=False)


def _norm(s):
    return " ".join(s.split())[:120]
