"""C02 - built-in dynamic losses equal the residual of their documented equation.

Decided statically: the residual *polynomial* returned by `evaluate()` (through the heterogeneity wrapper
and the `_evaluate` dispatch) of every built-in equation, PINN (reverse-mode) and SPINN (forward-mode)
branch, compared with the documented differential expression (including Tmax and the role of every
equation parameter and of every network / parameter key).
"""
from __future__ import annotations

from ..alg import Poly, to_at, pt, tm, batch_x, batch_t, NNLabel, Top, Finding, K, Pm
from ..extern import make_world, Net
from ..report import Violation, Inconclusive
from ..specs import canon_at, U, X, P, Kc, fmt_list
from fractions import Fraction

MOD = "jinns.loss._DynamicLoss"
TMAX = Kc("Tmax")


def compare(found, expected, axes_expected, what):
    axes, ents = canon_at(found)
    if list(ents) != list(expected) or tuple(axes) != tuple(axes_expected):
        raise Violation(what, f"axes={axes} residual={fmt_list(ents)}",
                        f"axes={tuple(axes_expected)} residual={fmt_list(expected)}")
    return f"axes={axes} residual={fmt_list(ents)}"


# ---- documented equations (written from the class docstrings / the property statement) -------------
def spec_burgers(comp=0):
    u, ut, ux, uxx = U('u', comp), U('u', comp, 't'), U('u', comp, 0), U('u', comp, 0, 0)
    return [ut + TMAX * (u * ux - P('nu') * uxx)]


def spec_fisher(d):
    u, ut = U('u', 0), U('u', 0, 't')
    lap = sum((U('u', 0, i, i) for i in range(d)), Poly())
    return [ut - TMAX * (P('D') * lap + u * (P('r') - P('g') * u))]


def spec_ou():
    u, ut = U('u', 0), U('u', 0, 't')
    order1 = Poly()
    for i in range(2):
        # d_i [ alpha_i (mu_i - x_i) u ]
        order1 = order1 + (-P('alpha', i) * u + P('alpha', i) * (P('mu', i) - X(i)) * U('u', 0, i))
    order2 = Poly()
    for i in range(2):
        order2 = order2 + Poly.const(Fraction(1, 2)) * P('sigma', i) * P('sigma', i) * U('u', 0, i, i)
    return [-ut + TMAX * (-order1 + order2)]


def spec_mass():
    return [U('u', 0, 0) + U('u', 1, 1)]


def spec_ns():
    out = []
    for k in range(2):
        adv = sum((U('u', j) * U('u', k, j) for j in range(2)), Poly())
        lap = sum((U('u', k, i, i) for i in range(2)), Poly())
        out.append(adv + U('p', 0, k) / P('rho') - P('nu') * lap)
    return out


def spec_glv(main, others):
    n = U(f'n{main}', 0)
    nt = U(f'n{main}', 0, 't')
    allk = [main] + list(others)
    inter = sum((P(f'a{main}', j) * U(f'n{k}', 0) for j, k in enumerate(allk)), Poly())
    carry = P(f'c{main}') * sum((U(f'n{k}', 0) for k in allk), Poly())
    return [nt / n - TMAX * (P(f'r{main}') + inter - carry)]


def run(chk):
    w = make_world(chk.repo)
    m = w.module(MOD)
    chk.files = w.files
    Params = w.get("jinns.parameters._params", "Params")
    ParamsDict = w.get("jinns.parameters._params", "ParamsDict")
    chk.rule("C02.R1", "residual polynomial inferred through evaluate() (heterogeneity wrapper -> _evaluate -> equation) "
                       "equals the documented equation, including Tmax placement and parameter / key roles", floor=11)
    thorough = chk.full

    def cls(name):
        try:
            return m.env.get(name)
        except Exception as e:
            raise Inconclusive(f"class {name} not found in {MOD}: {e}")

    def params(eq, label='u'):
        return Params.make(nn_params=NNLabel(label), eq_params=eq)

    def inputs(kind, d, has_t=True):
        if kind == 'PINN':
            return (tm() if has_t else None), pt(d)
        return (batch_t() if has_t else None), batch_x(d)

    def gax(kind, d, has_t=True):
        if kind == 'PINN':
            return ()
        return (("Gt",) if has_t else ()) + tuple(f"G{j}" for j in range(d))

    kinds = ('PINN', 'SPINN')
    for kind in kinds:
        # Burgers (1 space dimension)
        def go(kind=kind):
            inst = cls("BurgerEquation").make(Tmax=K("Tmax"), eq_params_heterogeneity=None)
            t, x = inputs(kind, 1)
            u = Net('u', kind, 1, 'nonstatio_PDE', 1)
            r = inst.evaluate(t, x, u, params({"nu": Pm("nu")}))
            return compare(r, spec_burgers(), gax(kind, 1) + (1,), "BurgerEquation")
        chk.run("C02.R1", f"{MOD}:BurgerEquation.equation", {"kind": kind}, go, construct=f"BurgerEquation[{kind}]")

        # Burgers on a network with an auxiliary output: the solution is the component designated by slice_solution and the
        # residual is the documented scalar expression on that component alone
        if kind == 'PINN':
            def go_aux():
                inst = cls("BurgerEquation").make(Tmax=K("Tmax"), eq_params_heterogeneity=None)
                t, x = inputs('PINN', 1)
                u = Net('u', 'PINN', 2, 'nonstatio_PDE', 1, slice_solution=slice(1, 2))
                r = inst.evaluate(t, x, u, params({"nu": Pm("nu")}))
                return compare(r, spec_burgers(comp=1), (1,), "BurgerEquation")
            chk.run("C02.R1", f"{MOD}:BurgerEquation.equation", {"kind": kind, "outputs": 2, "slice_solution": "[1:2]"}, go_aux,
                    construct="BurgerEquation[PINN, auxiliary output]")

        # the time-rescaling factor as the CONSTRUCTOR stores it (field converters / defaults included): a non-integer Tmax
        if kind == 'PINN':
            def go_tmax(kind=kind):
                from fractions import Fraction
                inst = cls("BurgerEquation")(Tmax=2.5)
                t, x = inputs(kind, 1)
                u = Net('u', kind, 1, 'nonstatio_PDE', 1)
                r = inst.evaluate(t, x, u, params({"nu": Pm("nu")}))
                exp = [q.map_atoms(lambda a_: Poly.const(Fraction(5, 2)) if a_ == ('K', 'Tmax') else a_) for q in spec_burgers()]
                return compare(r, exp, (1,), "BurgerEquation")
            chk.run("C02.R1", f"{MOD}:BurgerEquation.equation", {"kind": kind, "Tmax": 2.5, "built_by": "constructor"}, go_tmax,
                    construct="BurgerEquation[PINN, Tmax = 2.5 through the constructor]")

        # Fisher-KPP, arbitrary dimension
        for d in ((1, 2, 3) if thorough else (1, 2)):
            def go(kind=kind, d=d):
                inst = cls("FisherKPP").make(Tmax=K("Tmax"), eq_params_heterogeneity=None)
                t, x = inputs(kind, d)
                u = Net('u', kind, 1, 'nonstatio_PDE', d)
                r = inst.evaluate(t, x, u, params({"D": Pm("D"), "r": Pm("r"), "g": Pm("g")}))
                return compare(r, spec_fisher(d), gax(kind, d) + (1,), "FisherKPP")
            chk.run("C02.R1", f"{MOD}:FisherKPP.equation", {"kind": kind, "d": d}, go, construct=f"FisherKPP[{kind}]")

        # Fisher-KPP with ONE parameter declared heterogeneous (the others omitted from the map): the residual is the documented
        # expression with that parameter replaced by the user function's value at (t, x), every other parameter as given
        if kind == 'PINN':
            for hkey in ('g', 'D'):
                def go_het(hkey=hkey):
                    from ..alg import Fv, to_at
                    from ..specs import F as Fs

                    def hfun(t, x, u_, params_):
                        for p_, tag in ((t, 'T'), (x, 'X')):
                            tags = {at_[0] for e_ in to_at(p_).entries() for at_ in e_.atoms()}
                            if tags != {tag}:
                                raise Finding(f"heterogeneity function called with a {sorted(tags)} argument where the "
                                              f"{'time' if tag == 'T' else 'space point'} is documented")
                        return Fv(f'h_{hkey}', ()).data[()]
                    inst = cls("FisherKPP").make(Tmax=K("Tmax"), eq_params_heterogeneity={hkey: hfun})
                    t, x = inputs('PINN', 1)
                    u = Net('u', 'PINN', 1, 'nonstatio_PDE', 1)
                    r = inst.evaluate(t, x, u, params({"D": Pm("D"), "r": Pm("r"), "g": Pm("g")}))
                    pk = ((P(hkey).single_atom(), 1),)
                    exp = []
                    for q in spec_fisher(1):
                        out = Poly()
                        for mono, c in q.t.items():
                            term_ = Poly.const(c)
                            for a_, e_ in mono:
                                base = Fs(f'h_{hkey}') if a_ == P(hkey).single_atom() else Poly({((a_, 1),): 1})
                                for _ in range(e_):
                                    term_ = term_ * base
                            out = out + term_
                        exp.append(out)
                    return compare(r, exp, (1,), "FisherKPP")
                chk.run("C02.R1", f"{MOD}:FisherKPP.equation", {"kind": kind, "d": 1, "heterogeneous": hkey, "other_keys": "omitted"},
                        go_het, construct="FisherKPP[PINN, heterogeneous parameter]")

        # Fisher-KPP on a separable network with a growth rate given ON THE GRID (one value per grid node, no component axis): it
        # multiplies the solution node by node
        if kind == 'SPINN':
            for d, gkey in ((1, 'r'), (2, 'r'), (1, 'g'), (2, 'g')):
                def go_grid_r(d=d, gkey=gkey):
                    import numpy as _np
                    from ..alg import AT as _AT
                    from ..specs import F as Fs
                    inst = cls("FisherKPP").make(Tmax=K("Tmax"), eq_params_heterogeneity=None)
                    t, x = inputs('SPINN', d)
                    u = Net('u', 'SPINN', 1, 'nonstatio_PDE', d)
                    axes = gax('SPINN', d)
                    r_grid = _AT(axes, _np.array(Poly.atom(('F', 'r_grid', None, frozenset(axes))), dtype=object))
                    pr = {"D": Pm("D"), "r": Pm("r"), "g": Pm("g")}
                    pr[gkey] = r_grid
                    r = inst.evaluate(t, x, u, params(pr))
                    exp = []
                    for q in spec_fisher(d):
                        out = Poly()
                        for mono, c in q.t.items():
                            term_ = Poly.const(c)
                            for a_, e_ in mono:
                                base = Fs('r_grid') if a_ == P(gkey).single_atom() else Poly({((a_, 1),): 1})
                                for _ in range(e_):
                                    term_ = term_ * base
                            out = out + term_
                        exp.append(out)
                    return compare(r, exp, axes + (1,), "FisherKPP")
                chk.run("C02.R1", f"{MOD}:FisherKPP.equation", {"kind": kind, "d": d, "on_the_grid": {"r": "r(x)", "g": "gamma(x)"}[gkey]}, go_grid_r,
                        construct=f"FisherKPP[SPINN, {gkey} given on the grid]")

        # Burgers on a separable network with a viscosity that varies in space, given per grid point of the x axis as a column
        # (n_x, 1) (what a heterogeneity function of x, or an array put in eq_params, produces): it multiplies u_xx point by point
        # along x, for every time
        if kind == 'SPINN':
            def go_nu_x():
                import numpy as _np
                from ..alg import AT as _AT
                from ..specs import F as Fs
                inst = cls("BurgerEquation").make(Tmax=K("Tmax"), eq_params_heterogeneity=None)
                t, x = inputs('SPINN', 1)
                u = Net('u', 'SPINN', 1, 'nonstatio_PDE', 1)
                nu_x = _AT(("G0", 1), _np.array([Poly.atom(('F', 'nu_x', None, frozenset({"G0"})))], dtype=object))
                r = inst.evaluate(t, x, u, params({"nu": nu_x}))
                exp = [q.map_atoms(lambda a_: Fs('nu_x') if a_ == P('nu').single_atom() else a_) for q in spec_burgers()]
                return compare(r, exp, gax('SPINN', 1) + (1,), "BurgerEquation")
            chk.run("C02.R1", f"{MOD}:BurgerEquation.equation", {"kind": kind, "nu": "nu(x) as a column over the x axis of the grid"}, go_nu_x,
                    construct="BurgerEquation[SPINN, nu given along x]")

        # Ornstein-Uhlenbeck Fokker-Planck 2D
        def go(kind=kind):
            inst = cls("OU_FPENonStatioLoss2D").make(Tmax=K("Tmax"), eq_params_heterogeneity=None)
            t, x = inputs(kind, 2)
            u = Net('u', kind, 1, 'nonstatio_PDE', 2)
            eq = {"alpha": Pm("alpha", (2,)), "mu": Pm("mu", (2,)), "sigma": Pm("sigma", (2,))}
            r = inst.evaluate(t, x, u, params(eq))
            return compare(r, spec_ou(), gax(kind, 2) + (1,), "OU_FPENonStatioLoss2D")
        chk.run("C02.R1", f"{MOD}:FPENonStatioLoss2D.equation", {"kind": kind}, go, construct=f"OU_FPENonStatioLoss2D[{kind}]")

        # mass conservation 2D (multi-network layout: nn_key selects the network and its parameters)
        def go(kind=kind):
            inst = cls("MassConservation2DStatio").make(Tmax=K("Tmax"), eq_params_heterogeneity=None, nn_key="u")
            _, x = inputs(kind, 2, False)
            ud = {"u": Net('u', kind, 2, 'statio_PDE', 2), "q": Net('q', kind, 2, 'statio_PDE', 2)}
            pd = ParamsDict.make(nn_params={"u": NNLabel('u'), "q": NNLabel('q')}, eq_params={"nu": Pm("nu")})
            r = inst.evaluate(x, ud, pd)
            return compare(r, spec_mass(), gax(kind, 2, False) + (1,), "MassConservation2DStatio")
        chk.run("C02.R1", f"{MOD}:MassConservation2DStatio.equation", {"kind": kind}, go, construct=f"MassConservation2DStatio[{kind}]")

        # Navier-Stokes 2D stationary (u_key: velocity network, p_key: pressure network)
        for ukey, pkey in ((("u", "p"), ("vel", "pre")) if thorough else (("u", "p"),)):
            def go(kind=kind, ukey=ukey, pkey=pkey):
                inst = cls("NavierStokes2DStatio").make(Tmax=K("Tmax"), eq_params_heterogeneity=None, u_key=ukey, p_key=pkey)
                _, x = inputs(kind, 2, False)
                ud = {ukey: Net('u', kind, 2, 'statio_PDE', 2), pkey: Net('p', kind, 1, 'statio_PDE', 2)}
                pd = ParamsDict.make(nn_params={ukey: NNLabel('u'), pkey: NNLabel('p')},
                                     eq_params={"rho": Pm("rho"), "nu": Pm("nu")})
                r = inst.evaluate(x, ud, pd)
                return compare(r, spec_ns(), gax(kind, 2, False) + (2,), "NavierStokes2DStatio")
            chk.run("C02.R1", f"{MOD}:NavierStokes2DStatio.equation", {"kind": kind, "keys": [ukey, pkey]}, go,
                    construct=f"NavierStokes2DStatio[{kind}]")

    # a population's own entries are the ones the equation reads, also when the dictionary holds further top-level entries
    # with the same names next to the per-population sub-dictionaries
    def go_glv_extra():
        keys = ["0", "1", "2"]
        inst = cls("GeneralizedLotkaVolterra").make(Tmax=K("Tmax"), eq_params_heterogeneity=None, key_main="0", keys_other=["1", "2"])
        ud = {k: Net(f"n{k}", 'PINN', 1, 'ODE', 0) for k in keys}
        eq = {k: {"carrying_capacity": Pm(f"c{k}"), "growth_rate": Pm(f"r{k}"), "interactions": Pm(f"a{k}", (len(keys),))} for k in keys}
        eq["growth_rate"], eq["carrying_capacity"] = Pm("r_toplevel"), Pm("c_toplevel")
        pd = ParamsDict.make(nn_params={k: NNLabel(f"n{k}") for k in keys}, eq_params=eq)
        r = inst.evaluate(tm(), ud, pd)
        return compare(r, spec_glv("0", ("1", "2")), (1,), "GeneralizedLotkaVolterra")
    chk.run("C02.R1", f"{MOD}:GeneralizedLotkaVolterra.equation", {"key_main": "0", "keys_other": ["1", "2"],
            "extra_top_level_entries": ["growth_rate", "carrying_capacity"]}, go_glv_extra, construct="GeneralizedLotkaVolterra (extra top-level entries)")

    # generalized Lotka-Volterra (ODE, PINN only), every key layout with 0..3 other populations
    for nother in ((0, 1, 2, 3) if thorough else (0, 2)):
        keys = [str(i) for i in range(nother + 1)]
        mains = keys if thorough else keys[:1] + keys[-1:]
        for main in sorted(set(mains)):
            others = [k for k in keys if k != main]
            for order in ((others, others[::-1]) if len(others) > 1 else (others,)):
                def go(main=main, order=tuple(order), keys=keys):
                    inst = cls("GeneralizedLotkaVolterra").make(Tmax=K("Tmax"), eq_params_heterogeneity=None,
                                                                key_main=main, keys_other=list(order))
                    ud = {k: Net(f"n{k}", 'PINN', 1, 'ODE', 0) for k in keys}
                    eq = {k: {"carrying_capacity": Pm(f"c{k}"), "growth_rate": Pm(f"r{k}"),
                              "interactions": Pm(f"a{k}", (len(keys),))} for k in keys}
                    pd = ParamsDict.make(nn_params={k: NNLabel(f"n{k}") for k in keys}, eq_params=eq)
                    r = inst.evaluate(tm(), ud, pd)
                    return compare(r, spec_glv(main, order), (1,), "GeneralizedLotkaVolterra")
                chk.run("C02.R1", f"{MOD}:GeneralizedLotkaVolterra.equation",
                        {"key_main": main, "keys_other": list(order)}, go, construct="GeneralizedLotkaVolterra")
