"""Model of the JAX pytree utilities over abstract values (no jax import).

Nodes: dict (children in sorted-key order, like JAX), list, tuple, None (a node without children),
instances of analysed eqx.Module classes (children = non-static fields in declaration order).
Everything else is a leaf.  `OpaqueNode` marks values that real JAX would traverse but that the
analyser keeps opaque: reaching one without an `is_leaf` guard is INCONCLUSIVE (Top).
"""
from __future__ import annotations
from .alg import Top, Finding


class OpaqueNode:
    """mixin: a pytree node in real JAX that the analyser does not open"""


def _is_inst(x):
    return hasattr(x, 'cls') and hasattr(x, 'fields') and hasattr(x, 'dynamic_field_names')


def node_kind(x):
    if x is None: return 'none'
    if isinstance(x, dict): return 'dict'
    if isinstance(x, list): return 'list'
    if isinstance(x, tuple): return 'tuple'
    if _is_inst(x): return 'inst'
    return None


def children(x):
    """list of (key, child)"""
    k = node_kind(x)
    if k == 'none': return []
    if k == 'dict':
        try:
            keys = sorted(x.keys())
        except TypeError:
            raise Top("dict with unsortable keys as pytree")
        return [(kk, x[kk]) for kk in keys]
    if k in ('list', 'tuple'): return list(enumerate(x))
    if k == 'inst': return [(n, x.fields.get(n)) for n in x.dynamic_field_names()]
    raise AssertionError


def rebuild(x, new_children):
    k = node_kind(x)
    if k == 'none': return None
    if k == 'dict':
        keys = sorted(x.keys())
        # keep the original insertion order of the dict
        m = dict(zip(keys, new_children))
        return {kk: m[kk] for kk in x.keys()}
    if k == 'list': return list(new_children)
    if k == 'tuple':
        if hasattr(x, '_fields'):
            return type(x)(*new_children)
        return tuple(new_children)
    if k == 'inst':
        return x.replace_fields(dict(zip(x.dynamic_field_names(), new_children)))
    raise AssertionError


def _leafp(x, is_leaf):
    if is_leaf is not None:
        r = is_leaf(x)
        if not isinstance(r, bool):
            try:
                r = bool(r)
            except Exception:
                raise Top("is_leaf returned a non-boolean")
        if r:
            return True
    if node_kind(x) is None:
        if isinstance(x, OpaqueNode):
            raise Top(f"pytree traversal reaches an opaque module ({type(x).__name__}) without an is_leaf guard")
        return True
    return False


def same_node(a, b):
    ka, kb = node_kind(a), node_kind(b)
    if ka != kb:
        return False
    if ka == 'dict':
        return set(a.keys()) == set(b.keys())
    if ka in ('list', 'tuple'):
        return len(a) == len(b)
    if ka == 'inst':
        return a.cls is b.cls
    return True


def tree_map(f, tree, *rest, is_leaf=None):
    if _leafp(tree, is_leaf):
        return f(tree, *rest)
    for r in rest:
        if not same_node(tree, r):
            raise Finding(f"pytree structure mismatch in tree_map: {_describe(tree)} vs {_describe(r)}")
    ch = children(tree)
    rch = [dict_children(r) for r in rest]
    out = []
    for key, c in ch:
        out.append(tree_map(f, c, *[rc[key] for rc in rch], is_leaf=is_leaf))
    return rebuild(tree, out)


def dict_children(x):
    return dict(children(x))


def _describe(x):
    k = node_kind(x)
    if k == 'dict': return f"dict{sorted(x.keys())}"
    if k in ('list', 'tuple'): return f"{k}[{len(x)}]"
    if k == 'inst': return f"{x.cls.name}"
    if k == 'none': return "None"
    return f"leaf:{type(x).__name__}"


def tree_leaves(tree, is_leaf=None):
    out = []

    def rec(x):
        if _leafp(x, is_leaf):
            out.append(x)
            return
        for _, c in children(x):
            rec(c)
    rec(tree)
    return out


_NOINIT = object()


def tree_reduce(f, tree, *init, is_leaf=None, initializer=_NOINIT):
    leaves = tree_leaves(tree, is_leaf=is_leaf)
    if initializer is not _NOINIT:
        init = (initializer,)
    if init:
        acc = init[0]
    else:
        if not leaves:
            raise Finding("tree_reduce of an empty pytree without initializer")
        acc, leaves = leaves[0], leaves[1:]
    for l in leaves:
        acc = f(acc, l)
    return acc


class TreeDef:
    """structure of a pytree: the tree itself with leaves replaced by a marker"""
    LEAF = "*"

    def __init__(self, skeleton, n):
        self.skeleton, self.num_leaves = skeleton, n

    def unflatten(self, leaves):
        leaves = list(leaves)
        if len(leaves) != self.num_leaves:
            raise Finding(f"unflatten: {len(leaves)} leaves for a structure with {self.num_leaves}")
        it = iter(leaves)

        def rec(s):
            if s is TreeDef.LEAF:
                return next(it)
            return rebuild(s, [rec(c) for _, c in children(s)])
        return rec(self.skeleton)

    def flatten_up_to(self, tree):
        return tree_flatten_upto(self, tree)

    def __eq__(self, o):
        return isinstance(o, TreeDef) and _describe_deep(self.skeleton) == _describe_deep(o.skeleton)

    def __hash__(self):
        return hash(_describe_deep(self.skeleton))


def _describe_deep(s):
    if s is TreeDef.LEAF: return "*"
    return _describe(s) + "(" + ",".join(_describe_deep(c) for _, c in children(s)) + ")"


def tree_structure(tree, is_leaf=None):
    n = [0]

    def rec(x):
        if _leafp(x, is_leaf):
            n[0] += 1
            return TreeDef.LEAF
        return rebuild(x, [rec(c) for _, c in children(x)])
    sk = rec(tree)
    return TreeDef(sk, n[0])


def tree_flatten(tree, is_leaf=None):
    return tree_leaves(tree, is_leaf=is_leaf), tree_structure(tree, is_leaf=is_leaf)


def tree_unflatten(treedef, leaves):
    return treedef.unflatten(leaves)


def tree_flatten_upto(treedef, tree):
    out = []

    def rec(s, x):
        if s is TreeDef.LEAF:
            out.append(x)
            return
        if not same_node(s, x):
            raise Finding(f"pytree structure mismatch: expected {_describe(s)}, got {_describe(x)}")
        xc = dict_children(x)
        for key, c in children(s):
            rec(c, xc[key])
    rec(treedef.skeleton, tree)
    return out


def tree_transpose(outer, inner, tree):
    """jax.tree_util.tree_transpose: the tree is flattened completely; only the NUMBER of leaves is checked
    against outer x inner (as JAX does), then leaves are regrouped by position"""
    from .interp import AbstractRaise
    no, ni = outer.num_leaves, inner.num_leaves
    flat = tree_leaves(tree)
    if len(flat) != no * ni:
        raise AbstractRaise(TypeError(f"tree_transpose: Mismatch, {len(flat)} leaves for an outer structure with {no} "
                                      f"and an inner structure with {ni} leaves"))
    lol = [[flat[i * ni + j] for j in range(ni)] for i in range(no)]
    cols = [[lol[i][j] for i in range(no)] for j in range(ni)]
    return inner.unflatten([outer.unflatten(c) for c in cols])
