"""Models of the external libraries the analysed package uses (jax, jax.numpy, equinox, optax, stdlib).

These models are the trusted base of the analysis.  They operate on the abstract values of `alg.py`;
when a function receives opaque (`Sym`) arguments it returns an opaque term named after itself, so the
same interpreter serves the algebraic (formula) and the dataflow (term) analyses.
"""
from __future__ import annotations

import functools
import numpy as np
from fractions import Fraction

from . import alg
from .alg import (Top, Finding, Poly, AT, Sym, SymDim, Pred, as_pred, lift, _dim, to_at, NNLabel, _freeze,
                  stop_gradient_value, _box)
from . import pytree
from .pytree import OpaqueNode
from .interp import (NS, Closure, BoundMethod, ClassModel, Inst, ExternalClass, FieldSpec, PathProxy, set_path,
                     get_path, get_attr, ClassMethodW, StaticMethodW, PropertyW, AbstractRaise, FrozenDict)


# --------------------------------------------------------------------------------------
# opaque-argument detection
# --------------------------------------------------------------------------------------
def _is_opaque(v, depth=2):
    if isinstance(v, Sym):
        return True
    if isinstance(v, Poly):
        return any(a[0] == 'S' for a in v.atoms()) or not v.is_const() and False
    if depth and isinstance(v, (list, tuple)):
        return any(_is_opaque(x, depth - 1) for x in v)
    return False


def fz(v):
    """hashable, canonical form of an argument for an opaque term"""
    if isinstance(v, (list, tuple)):
        return tuple(fz(x) for x in v)
    if isinstance(v, dict):
        return tuple(sorted(((k, fz(x)) for k, x in v.items()), key=repr))
    if isinstance(v, slice):
        return ('slice', fz(v.start), fz(v.stop), fz(v.step))
    if isinstance(v, Inst):
        return ('inst', v.cls.name, tuple(sorted(((k, fz(x)) for k, x in v.fields.items()), key=repr)))
    if isinstance(v, SymDim):
        return fz(v.poly())
    if isinstance(v, Poly):
        if v.is_const() and v.cval().denominator == 1:
            return int(v.cval())
        a = v.single_atom()
        if a is not None and a[0] == 'S':
            return a[1]
        return v
    if isinstance(v, AT):
        return alg.at_key(v)
    if isinstance(v, (bool, np.bool_)):
        return bool(v)
    if isinstance(v, (np.integer,)):
        return int(v)
    if isinstance(v, float) and v == int(v):
        return int(v)
    if v is Ellipsis:
        return '...'
    return v


def term(op, *args, **kw):
    items = tuple(fz(a) for a in args)
    if kw:
        items = items + tuple(sorted(((k, fz(v)) for k, v in kw.items() if v is not None), key=repr))
    return Sym(op, *items)


def symaware(name, fn, always=False):
    @functools.wraps(fn)
    def w(*a, **k):
        if always or any(_is_opaque(x) for x in a) or any(_is_opaque(x) for x in k.values()):
            return term(name, *a, **k)
        return fn(*a, **k)
    w.__name__ = name
    return w


def opaque_fn(name):
    def w(*a, **k):
        return term(name, *a, **k)
    w.__name__ = name
    return w


# --------------------------------------------------------------------------------------
# Sym conveniences (attribute protocol of arrays)
# --------------------------------------------------------------------------------------
class SymShape:
    def __init__(self, s):
        self.s = s

    def __getitem__(self, i):
        if isinstance(i, slice):
            return Sym('shape_slice', self.s, fz(i))
        return Sym('dim', self.s, fz(i))

    # (no __len__: list(*shape) would call it as a length hint; len(shape) is answered by the `len` model)

    def __eq__(self, o):
        raise Top(f"shape comparison of opaque array {self.s}")

    def __hash__(self):
        return hash(self.s)

    def __iter__(self):
        # unpacking `*shape` into a longer shape tuple: the unknown extents travel as one marker, exactly like (n,) + shape
        yield Sym('shape_rest', self.s)

    def __add__(self, o):
        if isinstance(o, tuple):
            return (Sym('shape_rest', self.s),) + o
        return NotImplemented

    def __radd__(self, o):
        if isinstance(o, tuple):
            return o + (Sym('shape_rest', self.s),)
        return NotImplemented


class AtProxy:
    def __init__(self, s, idx=None):
        self.s, self.idx = s, idx

    def __getitem__(self, i):
        return AtProxy(self.s, _norm_index(i))

    def set(self, v, **k):
        return term('at_set', self.s, self.idx, v)

    def add(self, v, **k):
        return term('at_add', self.s, self.idx, v)

    def get(self, **k):
        return self.s[self.idx]            # x.at[i].get() == x[i]


_SYM_METHODS = ('reshape', 'flatten', 'astype', 'squeeze', 'mean', 'sum', 'min', 'max', 'ravel', 'transpose', 'item',
                'any', 'all')


def _sym_getattr(self, k):
    if k.startswith('_'):
        raise AttributeError(k)
    if k == 'shape':
        return SymShape(self)
    if k == 'at':
        return AtProxy(self)
    if k in ('ndim', 'size', 'T', 'dtype'):
        return Sym('.' + k, self)
    if k in _SYM_METHOD_AS_FUNCTION:
        # x.any() == jnp.any(x) etc.: one canonical form for both spellings
        fn = globals()[_SYM_METHOD_AS_FUNCTION[k]]
        return lambda *a, **kw: fn(self, *a, **kw)
    if k == 'ravel':
        return lambda *a, **kw: term('.flatten', self)
    if k == 'reshape':
        def _reshape(*a, **kw):
            shp = a[0] if len(a) == 1 else a
            if shp in (-1, (-1,), [-1]) and not kw:
                return term('.flatten', self)
            return term('.reshape', self, *a, **kw)
        return _reshape
    if k in _SYM_METHODS:
        return lambda *a, **kw: term('.' + k, self, *a, **kw)
    raise AttributeError(k)


_SYM_METHOD_AS_FUNCTION = {'any': '_jnp_any', 'all': '_jnp_all', 'sum': '_jnp_sum_model'}


Sym.__getattr__ = _sym_getattr


def _norm_index(i):
    """one spelling for equivalent index expressions: [0:k] == [:k], [a:b:1] == [a:b], (i,) == i, (i, ...) == i"""
    if isinstance(i, tuple) and len(i) > 1 and i[-1] is Ellipsis:
        return _norm_index(i[:-1])
    if isinstance(i, tuple) and len(i) == 1:
        return _norm_index(i[0])
    if isinstance(i, slice):
        start = None if (isinstance(i.start, int) and not isinstance(i.start, bool) and i.start == 0) else i.start
        step = None if (isinstance(i.step, int) and i.step == 1) else i.step
        return slice(start, i.stop, step)
    if isinstance(i, tuple):
        return tuple(_norm_index(x) for x in i)
    return i


class _ATAt:
    def __init__(self, a, idx=None):
        self.a, self.idx = a, idx

    def __getitem__(self, i):
        return _ATAt(self.a, _norm_index(i))

    def _concrete(self, v, add=False):
        """x.at[idx].set(v) evaluated entry by entry when idx addresses the concrete axes only (full slices on the named ones) with
        concrete integers / slices and v is a scalar or matches the selected block; None when that does not apply"""
        a = self.a
        if not isinstance(a, AT) or _is_opaque(v):
            return None
        idx = self.idx if isinstance(self.idx, tuple) else (self.idx,)
        if any(x is Ellipsis or x is None for x in idx) or len(idx) > len(a.axes):
            return None
        idx = idx + (slice(None),) * (len(a.axes) - len(idx))
        cidx = []
        for ax, x in zip(a.axes, idx):
            if isinstance(x, slice):
                parts = [x.start, x.stop, x.step]
                if not isinstance(ax, int):
                    if parts != [None, None, None]:
                        return None
                    continue
                try:
                    parts = [None if q is None else int(_dim(q)) for q in parts]
                except Exception:
                    return None
                cidx.append(slice(*parts))
            else:
                if not isinstance(ax, int):
                    return None
                try:
                    cidx.append(int(_dim(x)))
                except Exception:
                    return None
        vv = to_at(v)
        if any(not isinstance(x, int) for x in vv.axes):
            return None
        data = a.data.copy()
        try:
            block = data[tuple(cidx)]
            val = vv.data if vv.axes else vv.data[()]
            if isinstance(block, np.ndarray):
                upd = np.empty(block.shape, dtype=object)
                upd[...] = val
                if add:
                    upd = block + upd
                data[tuple(cidx)] = upd
            else:
                data[tuple(cidx)] = (block + val) if add else val
        except (ValueError, IndexError):
            return None
        return AT(a.axes, data)

    def set(self, v, **k):
        r = self._concrete(v)
        if r is not None:
            return r
        return term('at_set', self.a, self.idx, v)

    def get(self, **k):
        return self.a[self.idx]

    def add(self, v, **k):
        r = self._concrete(v, add=True)
        if r is not None:
            return r
        if isinstance(self.a, AT) and all(p.is_zero() for p in self.a.entries()):
            return term('at_set', self.a, self.idx, v)      # adding to zeros == setting
        return term('at_add', self.a, self.idx, v)


AT.at = property(lambda self: _ATAt(self))


# --------------------------------------------------------------------------------------
# isinstance / type
# --------------------------------------------------------------------------------------
class OpaqueObj(OpaqueNode):
    """an opaque object with a name; attribute access and calls produce opaque terms"""
    _abstract_attrs = True

    def __init__(self, name, attrs=None, classes=()):
        self._name, self._attrs, self._classes = name, dict(attrs or {}), tuple(classes)

    def __getattr__(self, k):
        if k.startswith('_'):
            raise AttributeError(k)
        if k in self._attrs:
            return self._attrs[k]
        return OpaqueObj(f"{self._name}.{k}")

    def __call__(self, *a, **k):
        return term('call', self._sym(), *a, **k)

    def _sym(self):
        return Sym(self._name)

    def __repr__(self):
        return f"<{self._name}>"

    def __eq__(self, o):
        return isinstance(o, OpaqueObj) and o._name == self._name

    def __hash__(self):
        return hash(self._name)


def make_isinstance(world_ref):
    def isinstance_(v, cls):
        if isinstance(cls, tuple):
            return any(isinstance_(v, c) for c in cls)
        if isinstance(cls, ClassModel):
            if isinstance(v, Inst):
                return v.cls.is_subclass_of(cls)
            if isinstance(v, Net):
                return v.is_kind(cls.name)
            if isinstance(v, OpaqueObj):
                return cls.name in v._classes
            return False
        if isinstance(cls, ExternalClass):
            if cls.name == 'eqx.Module':
                return isinstance(v, (Net,)) or (isinstance(v, Inst) and v.cls.is_subclass_of(cls)) or \
                    (isinstance(v, OpaqueObj) and 'eqx.Module' in v._classes)
            if cls.name in ('jax.Array', 'jnp.ndarray'):
                return isinstance(v, (AT, Sym, Poly))
            if cls.pytypes:
                return isinstance(v, cls.pytypes)
            return False
        if cls is _int:
            cls = int
        elif cls is _float:
            cls = float
        if isinstance(cls, type):
            if cls in (int, float):
                if isinstance(v, bool):
                    return cls is int
                return isinstance(v, cls)
            return isinstance(v, cls)
        raise Top(f"isinstance against {cls!r}")
    return isinstance_


def make_type(world_ref):
    def type_(v):
        if isinstance(v, Inst):
            return v.cls
        if isinstance(v, Net):
            return v.class_model(world_ref[0])
        if isinstance(v, bool):
            return bool
        if isinstance(v, int):
            return _int          # the objects the analysed code sees under the names `int` / `float`
        if isinstance(v, float):
            return _float
        return type(v)
    return type_


# --------------------------------------------------------------------------------------
# networks (specification-level model of a network wrapper)
# --------------------------------------------------------------------------------------
class Net(OpaqueNode):
    """opaque network honouring the calling convention of the wrappers:
       ODE u(t, params); statio_PDE u(x, params); nonstatio_PDE u(t, x, params) -> (m,) for a PINN,
       grid [Gt, G0.., m] for a SPINN"""
    _abstract_attrs = True

    def __init__(self, name, kind, m, eq_type, d, slice_solution=slice(None)):
        self.name, self.kind, self.m, self.eq_type, self.d = name, kind, m, eq_type, d
        self.slice_solution = slice_solution
        self.has_t = eq_type in ('ODE', 'nonstatio_PDE')

    def is_kind(self, clsname):
        if clsname == self.kind:
            return True
        return self.kind == 'HYPERPINN' and clsname == 'PINN'

    def class_model(self, world):
        mod = {'PINN': 'jinns.utils._pinn', 'SPINN': 'jinns.utils._spinn', 'HYPERPINN': 'jinns.utils._hyperpinn'}[self.kind]
        return world.get(mod, self.kind)

    def __repr__(self):
        return f"<{self.kind} {self.name}>"

    def _fp(self, p):
        fp = param_fingerprint(p, self.name)
        if fp[0].name != self.name:
            raise Finding(f"network {self.name} is called with the network parameters of {fp[0].name}")
        return fp

    def __call__(self, *args):
        if self.eq_type == 'ODE':
            if len(args) != 2:
                raise Finding(f"{self.name}: ODE network called with {len(args)} arguments (t, params expected)")
            t, p = args
            x = None
        elif self.eq_type == 'statio_PDE':
            if len(args) != 2:
                raise Finding(f"{self.name}: stationary network called with {len(args)} arguments (x, params expected)")
            (x, p), t = args, None
        else:
            if len(args) != 3:
                raise Finding(f"{self.name}: non-stationary network called with {len(args)} arguments (t, x, params expected)")
            t, x, p = args
        fp = self._fp(p)
        if self.kind in ('PINN', 'HYPERPINN'):
            slots, deps = [], set()
            if self.has_t:
                t = to_at(t)
                if t.axes not in ((1,), ()):
                    raise Finding(f"{self.name}: time argument has axes {t.axes}, expected (1,) or ()")
                pt_ = t.data[0] if t.axes == (1,) else t.data[()]
                a = pt_.single_atom()
                if pt_.is_const():
                    slots.append(f"t={pt_}")
                elif a is not None and a[0] in ('K', 'F', 'P', 'S'):
                    slots.append(f"t={pt_}")
                    deps |= pt_.deps()
                elif not (a is not None and a[0] == 'T'):
                    raise Finding(f"{self.name}: time slot receives `{pt_}`")
                deps |= pt_.deps()
            else:
                slots.append("t=absent")
            if x is not None:
                x = to_at(x)
                if x.axes != (self.d,):
                    raise Finding(f"{self.name}: space argument has axes {x.axes}, expected ({self.d},)")
                for j in range(self.d):
                    px = x.data[j]
                    a = px.single_atom()
                    if not (a is not None and alg.var_key(a) == ('X', j)):
                        raise Finding(f"{self.name}: space slot {j} receives `{px}`")
                    deps |= px.deps()
            deps |= fp_deps(fp)
            return AT((self.m,), np.array(
                [Poly.atom(('U', self.name, k, (), tuple(slots), fp, frozenset(deps))) for k in range(self.m)], dtype=object))
        # SPINN
        axes, slots = [], []
        deps = set()
        if self.has_t:
            t = to_at(t)
            if len(t.axes) != 2 or t.axes[1] != 1:
                raise Finding(f"{self.name}: SPINN time argument has axes {t.axes}, expected (rows, 1)")
            if isinstance(t.axes[0], int) and t.axes[0] != 1:
                raise Top("SPINN with several concrete rows")
            pt_ = t.data[0] if not isinstance(t.axes[0], int) else t.data[0, 0]
            a = pt_.single_atom()
            if pt_.is_const():
                slots.append(f"t={pt_}")
            elif not (a is not None and a[0] == 'T'):
                raise Finding(f"{self.name}: SPINN time slot receives `{pt_}`")
            if isinstance(t.axes[0], int):
                axes.append(1)
                deps |= pt_.deps()
            else:
                axes.append("Gt")
                if not pt_.is_const():
                    deps.add("Gt")
                deps |= {x_ for x_ in pt_.deps() if alg.is_ad_tag(x_)}
        else:
            slots.append("t=absent")
        x = to_at(x)
        if len(x.axes) != 2 or x.axes[1] != self.d:
            raise Finding(f"{self.name}: SPINN space argument has axes {x.axes}, expected (rows, {self.d})")
        if isinstance(x.axes[0], int) and x.axes[0] != 1:
            raise Top("SPINN with several concrete rows")
        for j in range(self.d):
            px = x.data[j] if not isinstance(x.axes[0], int) else x.data[0, j]
            a = px.single_atom()
            if not (a is not None and alg.var_key(a) == ('X', j)):
                raise Finding(f"{self.name}: SPINN space slot {j} receives `{px}`")
            if isinstance(x.axes[0], int):
                axes.append(1)
                deps |= px.deps()
            else:
                axes.append(f"G{j}")
                deps.add(f"G{j}")
                deps |= {x_ for x_ in px.deps() if alg.is_ad_tag(x_)}
        deps |= fp_deps(fp)
        shape = tuple(a for a in axes if isinstance(a, int)) + (self.m,)
        dat = np.empty(shape, dtype=object)
        for idx in np.ndindex(shape):
            dat[idx] = Poly.atom(('U', self.name, idx[-1], (), tuple(slots), fp, frozenset(deps)))
        return AT(tuple(axes) + (self.m,), dat)


def param_fingerprint(p, netname):
    """hashable description of the parameter object a network is called with"""
    if isinstance(p, NNLabel):
        return (p, ())
    if isinstance(p, Inst) and 'nn_params' in p.fields:
        nn = p.fields.get('nn_params')
        eq = p.fields.get('eq_params')
        if isinstance(nn, dict):
            raise Finding(f"{netname}: called with a dictionary of network parameters (keys {sorted(nn)}) instead of its own")
        if not isinstance(nn, NNLabel):
            raise Top(f"{netname}: network parameters of kind {type(nn).__name__}")
        items = []
        if isinstance(eq, dict):
            for k in sorted(eq, key=repr):
                items.append((k, _leaf_fp(eq[k], netname, k)))
        elif eq is not None:
            raise Top(f"{netname}: eq_params of kind {type(eq).__name__}")
        return (nn, tuple(items))
    raise Top(f"{netname}: called with parameters of kind {type(p).__name__}")


def _leaf_fp(v, netname, key):
    if isinstance(v, dict):
        return tuple((k, _leaf_fp(v[k], netname, key)) for k in sorted(v, key=repr))
    if isinstance(v, (int, float, Fraction)):
        return (Poly.const(v),)
    if isinstance(v, Poly):
        return (v,)
    if isinstance(v, AT):
        for a in v.axes:
            if not isinstance(a, int) and not (a == 'Gt' or (a[:1] == 'G' and a[1:].isdigit())):
                # (a value given on the GRID of a separable network is not a per-sample table: the network is called once
                # for the whole grid)
                raise Finding(f"per-sample parameter {key!r} reaches network {netname} with its row axis {a} not "
                              f"consumed by the vmap (row i is not paired with sample i)")
        return tuple(v.entries())
    if v is None:
        return ()
    raise Top(f"{netname}: parameter leaf of kind {type(v).__name__}")


def fp_deps(fp):
    d = set()

    def rec(x):
        if isinstance(x, Poly):
            d.update(x.deps())
        elif isinstance(x, tuple):
            for y in x:
                rec(y)
    rec(fp[1])
    return d


# --------------------------------------------------------------------------------------
# vmap
# --------------------------------------------------------------------------------------
class VMapped:
    def __init__(self, f, in_axes=0, out_axes=0, **kw):
        self.f, self.in_axes, self.out_axes = f, in_axes, out_axes
        if kw:
            raise Top(f"vmap keyword {sorted(kw)}")

    def __call__(self, *args, **kw):
        if kw:
            # keyword arguments of a vmapped function are always mapped along their leading axis
            keys = list(kw)
            f0, n_pos = self.f, len(args)
            in_axes = self.in_axes
            if isinstance(in_axes, list):
                in_axes = tuple(in_axes)
            if not isinstance(in_axes, tuple):
                in_axes = (in_axes,) * n_pos
            inner = VMapped(lambda *a: f0(*a[:n_pos], **dict(zip(keys, a[n_pos:]))),
                            tuple(in_axes) + tuple((None if kw[k] is None else 0) for k in keys), self.out_axes)
            return inner(*args, *[kw[k] for k in keys])
        in_axes = self.in_axes
        if isinstance(in_axes, list):
            in_axes = tuple(in_axes)
        if not isinstance(in_axes, tuple):
            in_axes = (in_axes,) * len(args)
        if len(in_axes) != len(args):
            raise Finding(f"vmap in_axes has {len(in_axes)} entries but the mapped function is applied to {len(args)} arguments")
        names = []
        try:
            new = [strip(a, ia, names) for a, ia in zip(args, in_axes)]
        except _ConcreteAxis as ca:
            return self._concrete(args, in_axes, ca.n)
        uniq = sorted(set(names))
        if len(uniq) == 0:
            raise Finding("vmap must have at least one non-None value in in_axes")
        if len(uniq) == 2:
            # rows built as repeat(A, |B|) and tile(B, |A|) are the two columns of the product A x B
            pa = [alg._parse_rep(n) for n in uniq]
            if all(pa) and {pa[0][0], pa[1][0]} == {'Rep', 'Tile'}:
                rep = pa[0] if pa[0][0] == 'Rep' else pa[1]
                til = pa[1] if pa[0][0] == 'Rep' else pa[0]
                if til == ('Tile', rep[2], rep[1]):
                    uniq = [f"Prod({rep[1]},{rep[2]})"]
        if len(uniq) != 1:
            raise Finding(f"vmapped inputs disagree on the mapped row axis: {uniq}")
        name = uniq[0]
        out = self.f(*new)
        if _dim(self.out_axes) != 0:
            raise Top("vmap out_axes != 0")
        return prepend(out, name)

    def _concrete(self, args, in_axes, n):
        """mapped axis of concrete size n: evaluate per index and stack"""
        outs = []
        for i in range(n):
            sizes = []
            new = [strip_concrete(a, ia, i, sizes) for a, ia in zip(args, in_axes)]
            if len(set(sizes)) != 1:
                raise Finding(f"vmapped inputs have different sizes along the mapped axis: {sorted(set(sizes))}")
            outs.append(self.f(*new))
        return stack_outputs(outs)


class _ConcreteAxis(Exception):
    def __init__(self, n):
        self.n = n


def strip_concrete(a, ia, i, sizes):
    if ia is None:
        return a
    if isinstance(ia, (Poly, int, np.integer)):
        if isinstance(a, AT):
            if not a.axes or not isinstance(a.axes[0], int):
                raise Finding(f"vmap mixes a concrete mapped axis with a row axis {a.axes}")
            sizes.append(a.axes[0])
            return a[i]
        if isinstance(a, dict):
            return {k: strip_concrete(v, ia, i, sizes) for k, v in a.items()}
        if isinstance(a, (tuple, list)):
            return type(a)(strip_concrete(v, ia, i, sizes) for v in a)
        if isinstance(a, Inst):
            return a.replace_fields({k: strip_concrete(a.fields[k], ia, i, sizes) for k in a.dynamic_field_names()})
        if a is None:
            return None
        raise Top(f"vmap over {type(a).__name__}")
    if isinstance(ia, Inst):
        return a.replace_fields({k: strip_concrete(a.fields.get(k), ia.fields.get(k), i, sizes) for k in ia.fields if k in a.fields})
    if isinstance(ia, dict):
        return {k: strip_concrete(v, ia.get(k), i, sizes) for k, v in a.items()}
    if isinstance(ia, (tuple, list)):
        return type(a)(strip_concrete(v, j, i, sizes) for v, j in zip(a, ia))
    raise Top(f"vmap in_axes entry {ia!r}")


def stack_outputs(outs):
    o0 = outs[0]
    if isinstance(o0, tuple):
        return tuple(stack_outputs([o[k] for o in outs]) for k in range(len(o0)))
    if isinstance(o0, dict):
        return {k: stack_outputs([o[k] for o in outs]) for k in o0}
    return alg.jnp_stack([to_at(o) for o in outs], 0)


def strip(a, ia, names):
    if ia is None:
        return a
    if isinstance(ia, Poly) or isinstance(ia, (int, np.integer)):
        if _dim(ia) != 0:
            raise Top("vmap axis != 0")
        if isinstance(a, AT):
            if not a.axes:
                raise Finding("vmap over a 0-d tensor")
            if isinstance(a.axes[0], int):
                raise _ConcreteAxis(a.axes[0])
            names.append(a.axes[0])
            return AT(a.axes[1:], a.data)
        if isinstance(a, (dict,)):
            return {k: strip(v, ia, names) for k, v in a.items()}
        if isinstance(a, (tuple, list)):
            return type(a)(strip(v, ia, names) for v in a)
        if isinstance(a, Inst):
            return a.replace_fields({k: strip(a.fields[k], ia, names) for k in a.dynamic_field_names()})
        if a is None:
            return None
        if isinstance(a, (int, float, Poly)):
            raise Finding("vmap over a scalar (in_axes=0 on a value without a leading axis)")
        raise Top(f"vmap over {type(a).__name__}")
    if isinstance(ia, Inst):
        if not isinstance(a, Inst):
            raise Finding(f"vmap in_axes is a {ia.cls.name} structure but the argument is {type(a).__name__}")
        return a.replace_fields({k: strip(a.fields.get(k), ia.fields.get(k), names) for k in ia.fields if k in a.fields})
    if isinstance(ia, dict):
        if not isinstance(a, dict):
            raise Finding(f"vmap in_axes is a dict but the argument is {type(a).__name__}")
        if set(ia.keys()) != set(a.keys()):
            raise Finding(f"vmap in_axes keys {sorted(ia)} differ from the argument's keys {sorted(a)}")
        return {k: strip(v, ia.get(k), names) for k, v in a.items()}
    if isinstance(ia, (tuple, list)):
        if not isinstance(a, (tuple, list)) or len(a) != len(ia):
            raise Finding("vmap in_axes tuple does not match the argument")
        return type(a)(strip(v, i, names) for v, i in zip(a, ia))
    raise Top(f"vmap in_axes entry {ia!r}")


def prepend(o, name):
    if isinstance(o, AT):
        if name in o.axes:
            # the mapped function's value already varies along the rows of this table: two independent indices i, j run over the
            # same rows (nested maps over two tables sharing their rows), i.e. row i of one is combined with row j of the other
            raise Finding(f"the row axis {name} is mapped twice independently (a map nested in a map over tables that share their "
                          f"rows): row i of one table is combined with every row j of the other instead of row i")
        return AT((name,) + o.axes, o.data)
    if isinstance(o, tuple):
        return tuple(prepend(x, name) for x in o)
    if isinstance(o, list):
        return [prepend(x, name) for x in o]
    if isinstance(o, dict):
        return {k: prepend(v, name) for k, v in o.items()}
    return prepend(to_at(o), name)


# --------------------------------------------------------------------------------------
# lax.cond and friends
# --------------------------------------------------------------------------------------
def same(a, b):
    if isinstance(a, AT) and isinstance(b, AT):
        return a.axes == b.axes and all(x == y for x, y in zip(a.entries(), b.entries()))
    if isinstance(a, AT) or isinstance(b, AT):
        try:
            return same(to_at(a), to_at(b))
        except Top:
            return False
    if isinstance(a, (Poly, Sym, int, float, Fraction)) and isinstance(b, (Poly, Sym, int, float, Fraction)) \
            and not isinstance(a, bool) and not isinstance(b, bool):
        return lift(a) == lift(b)
    if isinstance(a, Inst) and isinstance(b, Inst):
        return a.cls is b.cls and a.fields.keys() == b.fields.keys() and all(same(a.fields[k], b.fields[k]) for k in a.fields)
    if isinstance(a, dict) and isinstance(b, dict):
        return a.keys() == b.keys() and all(same(a[k], b[k]) for k in a)
    if isinstance(a, (tuple, list)) and isinstance(b, (tuple, list)):
        return len(a) == len(b) and all(same(x, y) for x, y in zip(a, b))
    try:
        return bool(a == b)
    except Exception:
        return a is b


def _as_max_min(pred, a, b):
    """cond(a >= b, a, b) (any of the equivalent comparisons) is max(a, b); cond(a >= b, b, a) is min(a, b)"""
    if not isinstance(pred, Pred) or pred.kind not in ('ge0', 'gt0'):
        return None
    try:
        pa, pb = lift(a), lift(b)
    except Exception:
        return None
    if isinstance(a, (dict, list, tuple, Inst)) or isinstance(b, (dict, list, tuple, Inst)):
        return None
    d = pred.arg
    if alg._real_valued(d):
        return None            # reals can be NaN: a selection on a comparison is then NOT jnp.minimum / maximum (which propagate NaN)
    hi_lo = None
    for shift in ((0, 1) if pred.kind == 'ge0' else (0,)):        # integer strict comparisons carry a shift of one
        if d + shift == pa - pb:
            hi_lo = 'max'
        elif d + shift == pb - pa:
            hi_lo = 'min'
        if hi_lo:
            break
    if hi_lo is None:
        return None
    return Sym(hi_lo, *sorted((fz(pa), fz(pb)), key=repr))


def _canonical_polarity(pred):
    """True if `pred` (rather than its negation) is the canonical one of the pair: cond(p, a, b) and cond(not p, b, a) get the
    same term"""
    try:
        n = pred.negate()
    except Exception:
        return True
    if isinstance(n, Pred) and n.kind == 'not':
        return True                      # pred is an atom whose negation is only expressible as not(pred)
    if pred.kind == 'not':
        return False
    return repr(pred) <= repr(n)


def merge_cond(pred, a, b):
    if same(a, b):
        return a
    if isinstance(pred, Pred) and not _canonical_polarity(pred):
        pred, a, b = pred.negate(), b, a
    mm = _as_max_min(pred, a, b)
    if mm is not None:
        return mm
    if isinstance(a, Inst) and isinstance(b, Inst) and a.cls is b.cls:
        keys = list(a.fields)
        return a.replace_fields({k: merge_cond(pred, a.fields[k], b.fields.get(k)) for k in keys})
    if isinstance(a, dict) and isinstance(b, dict) and a.keys() == b.keys():
        return {k: merge_cond(pred, a[k], b[k]) for k in a}
    if isinstance(a, (tuple, list)) and isinstance(b, (tuple, list)) and len(a) == len(b):
        return type(a)(merge_cond(pred, x, y) for x, y in zip(a, b))
    if isinstance(a, (bool, np.bool_)) and isinstance(b, (bool, np.bool_)):
        return pred if a else pred.negate()          # cond(p, True, False) = p ; cond(p, False, True) = not p
    return Sym('cond', pred, fz(a), fz(b))


_NO_OPERAND = object()


def lax_cond(pred, true_fun=None, false_fun=None, *operands, operand=_NO_OPERAND, **kw):
    if kw:
        raise Top(f"lax.cond keywords {sorted(kw)}")
    if operand is not _NO_OPERAND:
        operands = operands + (operand,)        # legacy spelling of a single operand
    try:
        p = as_pred(pred) if not isinstance(pred, (bool, np.bool_)) else bool(pred)
    except Top:
        if isinstance(pred, AT) and pred.axes != ():
            raise Finding("lax.cond predicate is not a scalar")
        raise
    if isinstance(p, (bool, np.bool_)):
        return (true_fun if p else false_fun)(*operands)
    a = true_fun(*operands)
    b = false_fun(*operands)
    return merge_cond(p, a, b)


def lax_fori_loop(lo, hi, body, init):
    lo_, hi_ = fz(lo), fz(hi)
    if isinstance(lo_, int) and isinstance(hi_, int):
        v = init
        for i in range(lo_, hi_):
            v = body(i, v)
        return v
    i_s, c_s = Sym('$i'), Sym('$carry')
    out = body(i_s, c_s)
    return Sym('fori_loop', lo_, hi_, fz(out), fz(init))


WHILE_HOOK = [None]


def lax_while_loop(cond_fun, body_fun, init):
    if WHILE_HOOK[0] is not None:
        return WHILE_HOOK[0](cond_fun, body_fun, init)
    raise Top("lax.while_loop (loops are analysed one iteration at a time by the property modules)")


# --------------------------------------------------------------------------------------
# eqx
# --------------------------------------------------------------------------------------
EQX_MODULE = ExternalClass('eqx.Module')


def eqx_field(**kw):
    return FieldSpec(**kw)


def eqx_tree_at(where, pytree_, replace=None, replace_fn=None, is_leaf=None):
    try:
        sel = where(PathProxy())
    except (Top, Finding):
        raise
    except Exception:
        sel = None
    if replace_fn is not None:
        if replace is not None:
            raise Finding("tree_at with both replace and replace_fn")
        from .interp import get_path as _get_path
        if isinstance(sel, PathProxy):
            replace = replace_fn(_get_path(pytree_, sel.path))
        elif isinstance(sel, (tuple, list)) and all(isinstance(s_, PathProxy) for s_ in sel):
            replace = type(sel)(replace_fn(_get_path(pytree_, s_.path)) for s_ in sel)
        else:
            raise Top("tree_at with replace_fn on an unresolved selection")
    if isinstance(sel, PathProxy):
        sels, reps, single = [sel], [replace], True
    elif isinstance(sel, (tuple, list)) and all(isinstance(s, PathProxy) for s in sel):
        sels = list(sel)
        if isinstance(replace, Sym):
            reps = [Sym('getitem', replace, i) for i in range(len(sels))]
        else:
            reps = list(replace)
        if len(reps) != len(sels):
            raise Finding(f"tree_at: {len(sels)} selected nodes but {len(reps)} replacements")
    else:
        return _tree_at_by_identity(where, pytree_, replace, is_leaf)
    out = pytree_
    seen = set()
    for s, r in zip(sels, reps):
        if s.path in seen:
            raise Finding("tree_at: the same node is selected twice")
        seen.add(s.path)
        # the selected node must exist
        try:
            cur = get_path(pytree_, s.path)
        except (AttributeError, KeyError, IndexError):
            raise Finding(f"tree_at selects a node that does not exist: {s.path}")
        if cur is None and is_leaf is None and _other_none_nodes(pytree_) >= 2:
            # equinox locates the node by identity: with a second None in the tree (network parameters hold None
            # placeholders for their non-array leaves) the selection is ambiguous and tree_at raises
            raise Finding(f"tree_at selects a node whose value is None ({s.path}) without `is_leaf` in a tree that holds "
                          f"other None nodes (network parameters keep None placeholders for non-array leaves)")
        out = set_path(out, s.path, r)
    return out


def _other_none_nodes(tree):
    """number of None nodes of a pytree; an abstract network-parameter label counts as one (eqx.partition leaves a None
    for every non-array leaf, e.g. each activation function of the network)"""
    n = 0

    def rec(x):
        nonlocal n
        if x is None or isinstance(x, alg.NNLabel):
            n += 1
            return
        k = pytree.node_kind(x)
        if k in (None, 'none') or isinstance(x, OpaqueNode):
            return
        for key, c in pytree.children(x):
            rec(c)
    rec(tree)
    return n


def _tree_at_by_identity(where, tree, replace, is_leaf):
    """selector that returns nodes of the actual tree (e.g. a list of its leaves): locate them by identity"""
    try:
        nodes = where(tree)
    except Exception as ex:
        raise Top(f"tree_at selector outside the modelled vocabulary ({ex})")
    single = not isinstance(nodes, (list, tuple))
    nodes = [nodes] if single else list(nodes)
    reps = [replace] if single else list(replace)
    if len(nodes) != len(reps):
        raise Finding(f"tree_at: {len(nodes)} selected nodes but {len(reps)} replacements")
    paths = {}

    def rec(x, path):
        for i, n in enumerate(nodes):
            if x is n and i not in paths:
                paths[i] = path
        k = pytree.node_kind(x)
        if k in (None, 'none') or isinstance(x, OpaqueNode):
            return
        for key, c in pytree.children(x):
            rec(c, path + ((('attr' if k == 'inst' else 'item'), key),))
    rec(tree, ())
    if len(paths) != len(nodes):
        raise Top("tree_at: selected nodes not found in the tree")
    out = tree
    for i, r in enumerate(reps):
        out = set_path(out, paths[i], r)
    return out


# --------------------------------------------------------------------------------------
# misc stubs
# --------------------------------------------------------------------------------------
class ModelToken(OpaqueNode):
    """eqx.combine(params, static): an opaque callable module; calling it on an input tensor x of m_out outputs gives
    a vector of opaque entries net(params, static, x)[k] (the number of outputs is taken from the static part when it
    declares one, else 1)"""
    _abstract_attrs = True

    def __init__(self, trees):
        self.trees = tuple(trees)

    def n_out(self):
        for t in self.trees:
            if isinstance(t, OpaqueObj) and 'n_out' in t._attrs:
                return t._attrs['n_out']
        return 1

    def out_shape(self):
        for t in self.trees:
            if isinstance(t, OpaqueObj) and 'out_shape' in t._attrs:
                return tuple(t._attrs['out_shape'])
        return (self.n_out(),)

    def call_params(self):
        for t in self.trees:
            if isinstance(t, OpaqueObj) and 'call_params' in t._attrs:
                return tuple(t._attrs['call_params'])
        return None

    def __call__(self, *args, **kw):
        shape = self.out_shape()
        names = self.call_params()
        if names is not None and kw:
            # the inner module's own signature is known: keyword arguments are bound to their positions
            bound = list(args)
            for n in names[len(args):]:
                if n in kw:
                    bound.append(kw.pop(n))
                elif kw:
                    raise Finding(f"call of the inner network without its argument `{n}`")
            if kw:
                raise Finding(f"call of the inner network with unknown keyword(s) {sorted(kw)}")
            args = tuple(bound)
        a = tuple(fz(t) for t in self.trees) + tuple(fz(x) for x in args) + tuple(sorted(((k, fz(v)) for k, v in kw.items()), key=repr))
        dat = np.empty(shape, dtype=object)
        for idx in np.ndindex(shape):
            dat[idx] = Poly.atom(('S', Sym('net', (idx[0] if len(idx) == 1 else idx), *a)))
        return AT(shape, dat)

    def __repr__(self):
        return f"<model {self.trees}>"


def _split_model(a, indices_or_sections, axis=0):
    indices = indices_or_sections
    if isinstance(a, AT) and a.axes:
        try:
            ax = int(_dim(axis)) % len(a.axes)
        except Exception:
            ax = None
        if ax is not None and isinstance(a.axes[ax], int):
            n = a.axes[ax]
            if isinstance(indices, (int, Poly)) and not isinstance(indices, bool):
                k = int(_dim(indices))                       # k equal sections
                if k <= 0 or n % k:
                    raise Finding(f"split of an axis of {n} entries into {k} equal sections")
                idx = [i * (n // k) for i in range(1, k)]
            else:
                idx = [int(_dim(i)) for i in (indices if not isinstance(indices, AT) else indices.entries())]
            bounds = [0] + idx + [n]
            sel = lambda lo, hi: a[(slice(None),) * ax + (slice(lo, hi),)]
            return [sel(bounds[i], bounds[i + 1]) for i in range(len(bounds) - 1)]
    return term('split_array', a, indices)


def _einsum_model(spec, *ops, **kw):
    """einsum over tensors of polynomials: explicit sum over the assignments of the concrete indices; a named (row / grid) axis
    is carried when its letter is in the output and becomes a Sum binder when it is contracted"""
    if not isinstance(spec, str) or not all(isinstance(o, AT) for o in ops) or '->' not in spec or '.' in spec:
        return term('einsum', spec, *ops)
    lhs, rhs = [x.strip() for x in spec.split('->')]
    ins = [x.strip() for x in lhs.split(',')]
    if len(ins) != len(ops):
        raise Finding(f"einsum: {len(ins)} operand specifications for {len(ops)} operands in {spec!r}")
    sizes = {}
    for sub, o in zip(ins, ops):
        if len(sub) != len(o.axes):
            raise Finding(f"einsum: operand with axes {o.axes} does not match subscripts {sub!r}")
        for ch, n in zip(sub, o.axes):
            if sizes.setdefault(ch, n) != n:
                raise Finding(f"einsum: inconsistent extents {sizes[ch]} / {n} for index {ch!r} in {spec!r}")
    for ch in rhs:
        if ch not in sizes:
            raise Finding(f"einsum: output index {ch!r} not among the inputs in {spec!r}")
    conc = [ch for ch in sizes if isinstance(sizes[ch], int)]
    contracted = [ch for ch in conc if ch not in rhs]
    named_contracted = [ch for ch in sizes if not isinstance(sizes[ch], int) and ch not in rhs]
    out_conc = [ch for ch in rhs if isinstance(sizes[ch], int)]
    out_shape = tuple(sizes[ch] for ch in out_conc)
    out = np.empty(out_shape, dtype=object)
    import itertools
    for oi in np.ndindex(out_shape):
        env = dict(zip(out_conc, oi))
        acc = Poly()
        for ci in itertools.product(*[range(sizes[ch]) for ch in contracted]):
            env.update(zip(contracted, ci))
            term_ = Poly.const(1)
            for sub, o in zip(ins, ops):
                term_ = term_ * o.data[tuple(env[ch] for ch in sub if isinstance(sizes[ch], int))]
            acc = acc + term_
        for ch in named_contracted:
            acc = alg.bind('Sum', sizes[ch], acc)
        out[oi] = acc
    return AT(tuple(sizes[ch] for ch in rhs), out)


class IndexExpr:
    def __getitem__(self, i):
        return i


class IInfo:
    def __init__(self, *_):
        self.max = 2 ** 31 - 1
        self.min = -2 ** 31


class Subscriptable:
    """typing-like object: subscripting / or-ing returns itself"""

    def __init__(self, name="T"):
        self.name = name

    def __getitem__(self, i): return self
    def __or__(self, o): return self
    def __ror__(self, o): return self
    def __call__(self, *a, **k): return self
    def __repr__(self): return f"<{self.name}>"


def dc_fields(obj):
    if isinstance(obj, Inst):
        return [f for f in obj.cls.all_fields() if not f.initvar]
    if isinstance(obj, ClassModel):
        return [f for f in obj.all_fields() if not f.initvar]
    raise Top(f"dataclasses.fields of {type(obj).__name__}")


def _identity_decorator(f=None, **kw):
    donated = {k_: v_ for k_, v_ in kw.items() if k_ in ('donate', 'donate_argnums', 'donate_argnames') and v_ not in (None, 'none', (), [])}

    def wrap(g):
        if not donated:
            return g

        def donating(*a, **k):
            # buffers donated to a jitted function are deleted after an eager call: the caller's objects are invalidated
            raise Finding(f"a function jitted with {donated} deletes (donates) the arrays of its arguments when it is called eagerly: "
                          f"the objects handed to it cannot be used again")
        return donating
    if f is None:
        return wrap
    return wrap(f)


def _jnp_filled_or_sym(c):
    def f(shape, dtype=None):
        try:
            return alg._filled(shape, c)
        except Top:
            return term('zeros' if c == 0 else 'ones', shape)
    return f


def _full_reduction_of_vector(x, k):
    """for a VECTOR of boolean scalars, axis=0 / axis=-1 is the full reduction; anything else (keepdims, where=) is another value"""
    rest = {k_: v_ for k_, v_ in k.items() if v_ is not None and v_ is not False}
    if not rest:
        return True
    if isinstance(x, (list, tuple)) and set(rest) == {'axis'}:
        try:
            return fz(rest['axis']) in (0, -1, (0,), (-1,))
        except Exception:
            return False
    return False


def _jnp_all(x, **k):
    if not _full_reduction_of_vector(x, k):
        return term('all', x, **k)                              # axis / keepdims / where: another reduction
    if isinstance(x, (list, tuple)):
        return Pred.conj([as_pred(v) for v in x])
    if isinstance(x, Pred):
        return x
    return term('all', x)


def _jnp_stack_model(arrays, axis=0, **k):
    if isinstance(arrays, (list, tuple)) and arrays and any(isinstance(v, (Pred, bool, np.bool_)) for v in arrays):
        return BoolVector(arrays)
    return _stack_sym(arrays, axis)


class BoolVector(list):
    """array of boolean scalars (predicates / Python booleans): a list with the reductions of an array"""

    def all(self, *a, **k):
        return _jnp_all(list(self))

    def any(self, *a, **k):
        return _jnp_any(list(self))

    def sum(self, *a, **k):
        raise Top("sum of a vector of predicates")


def _jnp_array(x, dtype=None):
    if isinstance(x, (list, tuple)) and any(isinstance(v, Pred) for v in x):
        return BoolVector(x)
    if isinstance(x, (Pred, bool, np.bool_)):
        return x
    if _is_opaque(x):
        if isinstance(x, Sym):
            return x
        return term('array', x)
    if isinstance(x, (list, tuple)) and any(isinstance(v, (bool, np.bool_)) for v in x):
        return BoolVector(x)
    return alg.jnp_array(x)


def _logical_and(a, b):
    return Pred.conj([a if isinstance(a, (bool, np.bool_)) else as_pred(a), b if isinstance(b, (bool, np.bool_)) else as_pred(b)])


def _logical_not(a):
    if isinstance(a, (bool, np.bool_)):
        return not a
    if isinstance(a, (list, tuple)):
        return BoolVector([_logical_not(v) for v in a])
    return as_pred(a).negate()


def _logical_or(a, b):
    from .interp import _disj
    return _disj([a, b])


_sum_sym = symaware('sum', alg.jnp_sum)


def _count_nonzero_model(a, *rest, **k):
    x, a = a, rest
    """count_nonzero of a comparison counts its true entries; count_nonzero of an ARRAY x is written through the count of its zero
    entries, size(x) - count_nonzero(x == 0), so that `x.size - count_nonzero(x)` and `count_nonzero(x == 0)` are the same term"""
    if a or {kk for kk, v in k.items() if v is not None}:
        return term('count_nonzero', x, *a, **k)
    if isinstance(x, Sym) and not isinstance(x, Pred) and x.op not in ('cond', 'where'):
        zeros = term('count_nonzero', Pred.compare(lift(x), 0, '=='))
        return lift(Sym('.size', x)) - lift(zeros)
    return term('count_nonzero', x)


def _jnp_sum_model(x, *a, **k):
    """the sum of a boolean comparison counts its true entries: canonical form count_nonzero(pred)"""
    if isinstance(x, Pred) and not a and not {kk for kk, v in k.items() if v is not None}:
        return term('count_nonzero', x)
    if isinstance(x, Sym) and x.op == 'cond' and len(x.args) == 3 and x.args[1:] in ((1, 0), (0, 1)) and not a and not k:
        m_ = x.args[0] if x.args[1:] == (1, 0) else x.args[0].negate()
        return term('count_nonzero', m_)       # sum(where(mask, 1, 0))
    return _sum_sym(x, *a, **k)


def _linalg_norm(x, ord=None, axis=None, keepdims=False):
    if ord not in (None, 2) or keepdims:
        raise Top("linalg.norm with ord / keepdims")
    return alg.jnp_linalg_norm(x, axis=axis)


def _attrgetter(*names):
    def one(o, n):
        for part in n.split('.'):
            o = getattr(o, part)
        return o
    if len(names) == 1:
        return lambda o: one(o, names[0])
    return lambda o: tuple(one(o, n) for n in names)


def _op_cmp(a, b, op):
    import operator as _o
    if any(isinstance(v, (Poly, AT, Sym, SymDim, Pred)) for v in (a, b)):
        if op == '!=':
            return Pred.compare(lift(a), lift(b), '==').negate()
        return Pred.compare(lift(a), lift(b), op)
    return {'>=': _o.ge, '<=': _o.le, '>': _o.gt, '<': _o.lt, '==': _o.eq, '!=': _o.ne}[op](a, b)


_stack_sym = symaware('stack', alg.jnp_stack)


def _isnan(x):
    return term('isnan', x)


def _jnp_any(x, **k):
    if not _full_reduction_of_vector(x, k):
        return term('any', x, **k)
    if isinstance(x, Sym) and x.op == 'isnan':
        return Sym('any_isnan', *x.args)
    # `any` over a collection of boolean scalars is their disjunction (one normal form with an or-accumulation over the same scalars)
    if isinstance(x, Sym) and x.op == 'array' and len(x.args) == 1 and isinstance(x.args[0], tuple):
        x = list(x.args[0])
    if isinstance(x, (list, tuple)) and x and all(isinstance(v, (Pred, bool, np.bool_, Sym)) for v in x):
        return Pred.disj([v if isinstance(v, (Pred, bool, np.bool_)) else as_pred(v) for v in x])
    if isinstance(x, (list, tuple)):
        return Sym('any', *[fz(v) for v in x])
    return term('any', x)


def _linspace(start, stop, num=50, endpoint=True, **kw):
    if kw.get('retstep') or kw.get('axis') not in (None, 0):
        raise Top(f"linspace with {sorted(k_ for k_ in kw if kw[k_] is not None)}")
    n = fz(num)
    if isinstance(n, int) and not isinstance(n, bool) and 0 < n <= 64 and not _is_opaque(start) and not _is_opaque(stop):
        # a concrete count: the points themselves, start + (stop - start) * k / (n or n - 1), as polynomials in the bounds
        den = (n - 1) if (endpoint and n > 1) else n
        sa, sb = to_at(start), to_at(stop)
        if sa.axes != () or sb.axes != ():
            # array-valued bounds (numpy semantics): the n points come first, the bounds' axes follow
            pts = [sa + (sb - sa) * Fraction(k, den) for k in range(n)]
            return alg.jnp_stack(pts, 0)
        a, b = lift(start), lift(stop)
        return AT((n,), np.array([a + (b - a) * Fraction(k, den) for k in range(n)], dtype=object))
    return Sym('linspace', fz(start), fz(stop), n, bool(fz(endpoint)))


def _sqrt_model(x):
    if isinstance(x, (int, float)) and not isinstance(x, bool) and x >= 0:
        import math
        return math.sqrt(x)
    return term('sqrt', x)


def _round(x, *a):
    if isinstance(x, (Poly, Sym, AT)):
        return x
    return round(x, *a)


def _meshgrid(*vecs, indexing="xy", **kw):
    if kw.get('sparse'):
        raise Top("meshgrid(sparse=True)")
    if any(_is_opaque(v) for v in vecs):
        return [Sym('meshgrid', tuple(fz(v) for v in vecs), fz(indexing), i) for i in range(len(vecs))]
    return alg.jnp_meshgrid(*vecs, indexing=indexing)


def _divmod_model(a, b):
    if isinstance(a, SymDim) and isinstance(b, (SymDim, int)):
        return a // b, a % b                     # extents: the same values as the two operators give
    try:
        ia, ib = _dim(a), _dim(b)
        if isinstance(ia, int) and isinstance(ib, int) and ib != 0:
            return divmod(ia, ib)                # concrete operands (e.g. the index of an unrolled scan)
    except Exception:
        pass
    return Sym('floordiv', fz(a), fz(b)), Sym('mod', fz(a), fz(b))


def _unravel_index(idx, shape):
    """for a 2-D shape (A, B): (idx // B, idx % B); otherwise opaque"""
    shape = tuple(shape)
    if len(shape) == 2:
        return _divmod_model(idx, shape[1])
    return tuple(Sym('unravel_index', fz(idx), fz(shape), i) for i in range(len(shape)))


def _where(c, a=None, b=None):
    if a is None:
        return term('where', c)
    if isinstance(c, (bool, np.bool_)):
        return a if c else b
    if isinstance(c, BoolVector) and all(isinstance(v, (bool, np.bool_)) for v in c):
        # a concrete boolean vector: entry-wise selection among (broadcast) concrete operands
        n = len(c)
        aa, bb = to_at(a), to_at(b)
        if all(isinstance(x, int) for x in aa.axes + bb.axes) and len(aa.axes) <= 1 and len(bb.axes) <= 1 \
                and (aa.axes in ((), (1,), (n,))) and (bb.axes in ((), (1,), (n,))):
            pick = lambda t, i: t.data[()] if t.axes == () else (t.data[0] if t.axes == (1,) else t.data[i])
            return AT((n,), np.array([pick(aa, i) if c[i] else pick(bb, i) for i in range(n)], dtype=object))
    try:
        return merge_cond(as_pred(c), a, b)
    except Top:
        return term('where', c, a, b)


def _elementwise(name, f):
    def g(*a, **k):
        if any(_is_opaque(x) for x in a):
            # the function form of an arithmetic operator: the same value as the operator on the same operands
            try:
                return f(*[(lift(x) if isinstance(x, Sym) else x) for x in a])
            except (Top, TypeError, AttributeError):
                return term(name, *a)
        return f(*a)
    g.__name__ = name
    return g


def _full(shape, value, dtype=None):
    return alg._filled(shape, 0) + value


def _eye(n, *a, **k):
    n = _dim(n)
    d = np.empty((n, n), dtype=object)
    for i in range(n):
        for j in range(n):
            d[i, j] = Poly.const(1 if i == j else 0)
    return AT((n, n), d)


def _outer(a, b):
    a, b = to_at(a), to_at(b)
    return a[:, None] * b[None, :]


def _ints(seq):
    out = []
    for x in seq:
        x = _dim(x)
        if not isinstance(x, int):
            return None
        out.append(x)
    return out


def _np_asarray(x, *a, **k):
    if isinstance(x, (int,)):
        return x
    if isinstance(x, (list, tuple)) and _ints(x) is not None:
        return list(_ints(x))
    if isinstance(x, (list, tuple)):
        return list(x)                 # a sequence of (opaque) scalars: still a sequence of those scalars
    return term('np.asarray', x)


def _np_cumsum(x, *a, **k):
    v = _ints(x) if isinstance(x, (list, tuple)) else None
    if v is None:
        return term('np.cumsum', x)
    out, acc = [], 0
    for t in v:
        acc += t
        out.append(acc)
    return out


def _math_prod(x, *a, **k):
    v = _ints(x) if isinstance(x, (list, tuple)) else None
    if v is None:
        return term('math.prod', x)
    r = 1
    for t in v:
        r *= t
    return r


def _take(a, indices, axis=None, **kw):
    extra = {k_: v_ for k_, v_ in kw.items() if k_ in ('mode', 'fill_value') and v_ is not None}
    if extra:
        return term('take', a, indices, axis=axis, **extra)      # the out-of-bounds mode is part of what is computed
    if axis is not None and fz(axis) == 0 and isinstance(indices, Sym):
        return Sym('gather', fz(a), indices)          # rows of `a` at the index vector: same as a[indices]
    if isinstance(a, AT) and axis is not None and isinstance(fz(axis), int) and isinstance(fz(indices), int):
        nd = len(a.axes)
        idx = [slice(None)] * nd
        idx[fz(axis) % nd] = fz(indices)
        return a[tuple(idx)]
    return term('take', a, indices, axis=axis)


def _einsum(spec, *ops, **kw):
    return term('einsum', spec, *ops)


def _random_split(key, num=2):
    n = fz(num)
    if not isinstance(n, int):
        return term('split', key, n)
    return tuple(Sym('split', fz(key), n, i) for i in range(n))


def _random_uniform(key, shape=(), dtype=None, minval=0.0, maxval=1.0):
    """tensor of independent draws: every entry is the atom uniform[key](minval, maxval) varying along the named axes"""
    if isinstance(key, (list, tuple, dict)):
        raise AbstractRaise(TypeError(f"unexpected PRNG key type {type(key).__name__} (a single key is required)"))
    try:
        axes = alg.shape_axes(shape)
    except Top:
        return term('uniform', key, shape, minval=minval, maxval=maxval)
    named = frozenset(a for a in axes if not isinstance(a, int))
    cs = tuple(a for a in axes if isinstance(a, int))
    dat = np.empty(cs, dtype=object)
    for i in np.ndindex(cs):
        dat[i] = Poly.atom(('R', fz(key), fz(minval), fz(maxval), named))
    return AT(axes, dat)


def _random_choice(key, a, shape=(), replace=True, p=None, axis=0):
    # choice(key, a, shape=(a.shape[0],), replace=False, p=p) is a (weighted) random permutation of the rows of a
    sh = fz(shape)
    if fz(replace) is False and fz(axis) == 0 and isinstance(sh, tuple) and len(sh) == 1 and sh[0] == Sym('dim', fz(a), 0):
        return Sym('row_permutation', fz(key), fz(a), fz(p))
    return term('choice', key, a, shape=shape, replace=replace, p=p, axis=axis)


def _random_permutation(key, x, axis=0, independent=False):
    if fz(axis) == 0 and fz(independent) is False:
        return Sym('row_permutation', fz(key), fz(x), None)
    return term('permutation', key, x, axis=axis, independent=independent)


def _dynamic_slice(operand, start_indices, slice_sizes):
    return term('dynamic_slice', operand, tuple(start_indices), tuple(slice_sizes))


def _dynamic_slice_in_dim(operand, start_index, slice_size, axis=0):
    if fz(axis) != 0:
        raise Top("dynamic_slice_in_dim along an axis other than 0")
    return term('dynamic_slice', operand, (start_index, alg.ROWS_REST), (slice_size, alg.ROWS_REST))


def _slice_in_dim(operand, start_index, limit_index, stride=1, axis=0):
    a = to_at(operand) if not _is_opaque(operand) else operand
    ax = int(_dim(axis))
    st = None if _dim(stride) == 1 else _dim(stride)
    if isinstance(a, AT):
        ax = ax % len(a.axes)
        return a[(slice(None),) * ax + (slice(start_index, limit_index, st),)]
    if ax != 0:
        raise Top("slice_in_dim of an opaque array along an axis other than 0")
    return a[slice(start_index, limit_index, st)]


def _lax_slice(operand, start_indices, limit_indices, strides=None):
    st = strides if strides is not None else (None,) * len(tuple(start_indices))
    idx = tuple(slice(s_, l_, (None if (k_ is None or _dim(k_) == 1) else _dim(k_))) for s_, l_, k_ in zip(start_indices, limit_indices, st))
    return (to_at(operand) if not _is_opaque(operand) else operand)[idx]


def _dynamic_update_slice_in_dim(operand, update, start_index, axis=0):
    if fz(axis) != 0:
        raise Top("dynamic_update_slice_in_dim along an axis other than 0")
    nd = None
    for v in (update, operand):
        if isinstance(v, AT):
            nd = len(v.axes)
            break
    if nd is None:
        raise Top("dynamic_update_slice_in_dim of arrays of unknown rank")
    return _dynamic_update_slice(operand, update, (start_index,) + (0,) * (nd - 1))


def _np_ndim(x):
    if isinstance(x, (bool, np.bool_, int, float)):
        return 0
    if isinstance(x, AT):
        return len(x.axes)
    if isinstance(x, (list, tuple)):
        return 1 + (_np_ndim(x[0]) if x else 0)
    if isinstance(x, Poly):
        return 0
    raise Top(f"ndim of {type(x).__name__}")


def _result_type(*xs):
    """dtype of Python scalars only (kind 'b' / 'i' / 'f'); arrays are outside the vocabulary"""
    kinds = []
    for x in xs:
        if isinstance(x, (bool, np.bool_)):
            kinds.append('b')
        elif isinstance(x, int):
            kinds.append('i')
        elif isinstance(x, float):
            kinds.append('f')
        else:
            raise Top(f"result_type of {type(x).__name__}")
    k = 'f' if 'f' in kinds else ('i' if 'i' in kinds else 'b')
    return NS("dtype", kind=k, name={'b': 'bool', 'i': 'int32', 'f': 'float32'}[k])


def _dstack(items):
    """numpy.dstack: arrays of rank <= 2 get a trailing axis ((n,) -> (1, n, 1), (m, n) -> (m, n, 1)), then concatenation along axis 2"""
    out = []
    for v in items:
        a = to_at(v)
        if len(a.axes) == 0:
            a = a[None, None, None]
        elif len(a.axes) == 1:
            a = a[None, :, None]
        elif len(a.axes) == 2:
            a = a[:, :, None]
        out.append(a)
    return alg.jnp_concatenate(out, 2)


def _roll(a, shift, axis=None):
    a = to_at(a)
    if axis is None:
        raise Top("roll of the flattened array")
    ax = int(_dim(axis)) % len(a.axes)
    if not isinstance(a.axes[ax], int):
        raise Top("roll along a named axis")
    return AT(a.axes, np.roll(a.data, int(_dim(shift)), axis=a.cidx(ax)))


def _swapaxes(a, i, j):
    a = to_at(a)
    n = len(a.axes)
    i, j = int(_dim(i)) % n, int(_dim(j)) % n
    perm = list(range(n))
    perm[i], perm[j] = perm[j], perm[i]
    return alg.jnp_transpose(a, perm)


def _linearize(f, *primals):
    """jax.linearize(f, x) = (f(x), v -> jvp(f, (x,), (v,))[1])"""
    y = f(*primals)

    def f_jvp(*tangents):
        return alg.jax_jvp(f, tuple(primals), tuple(tangents))[1]
    return y, f_jvp


def _dynamic_update_slice(operand, update, start_indices):
    return term('dynamic_update_slice', operand, update, tuple(start_indices))


def _top_k(x, k):
    return (term('top_k.values', x, k), term('top_k.idx', x, k))


def _value_and_grad(f, argnums=0, has_aux=False, **kw):
    """value_and_grad(f)(*args) = (f(*args), grad): f is really called (abstractly) so that the structure of its value
    (and auxiliary output) is available; the gradient is the opaque term grad(f, argnums, args)"""
    def g(*args, **kwargs):
        out = f(*args, **kwargs)
        if has_aux and not (isinstance(out, tuple) and len(out) == 2):
            raise Finding("value_and_grad(has_aux=True) of a function that does not return a (value, aux) pair")
        value = out[0] if has_aux else out
        k = fz(argnums)
        if isinstance(k, (tuple, list)):
            # a tuple of argument numbers gives a tuple of gradients, one per argument (each the same term as for a single number)
            for i in k:
                if not isinstance(i, int) or i >= len(args):
                    raise Finding(f"value_and_grad argnums={argnums!r} but the function is applied to {len(args)} positional arguments")
            return out, tuple(Sym('grad', fz(value), fz(args[i])) for i in k)
        else:
            if not isinstance(k, int) or k >= len(args):
                raise Finding(f"value_and_grad argnums={argnums!r} but the function is applied to {len(args)} positional arguments")
            wrt = fz(args[k])
        # the gradient of the VALUE EXPRESSION with respect to the argument object: the same term however the differentiated
        # function is packaged (the loss itself, a lambda closing over the batch, a partial, ...)
        grad = Sym('grad', fz(value), wrt)
        return out, grad
    return g


def apply_updates_model(params, updates):
    """optax.apply_updates keeps the pytree structure of params: leaf-wise apply_updates(leaf, updates[path])"""
    def rec(x, path):
        k = pytree.node_kind(x)
        if k is None or isinstance(x, OpaqueNode):
            return Sym('apply_updates', fz(x), Sym('proj', fz(updates), path))
        if k == 'none':
            return None
        ch = pytree.children(x)
        return pytree.rebuild(x, [rec(c, path + (key,)) for key, c in ch])
    return rec(params, ())


def _tree_map(f, tree, *rest, is_leaf=None):
    return pytree.tree_map(f, tree, *rest, is_leaf=is_leaf)


def _print(*a, **k):
    return None


def _sum_builtin(it, start=0):
    acc = start
    for v in it:
        acc = acc + v
    return acc


def _getattr(obj, name, *default):
    try:
        if isinstance(obj, (Inst, ClassModel)):
            return get_attr(obj, name)
        return getattr(obj, name)
    except AttributeError:
        if default:
            return default[0]
        raise


def _setattr(obj, name, value):
    if isinstance(obj, Inst):
        if not obj._mutable:
            raise Finding(f"in-place setattr of field {name!r} on an immutable module {obj.cls.name}")
        obj.fields[name] = value
        return None
    raise Top(f"setattr on {type(obj).__name__}")


def _issubclass(c, cls):
    if isinstance(cls, tuple):
        return any(_issubclass(c, x) for x in cls)
    if isinstance(c, ClassModel):
        return c.is_subclass_of(cls) if isinstance(cls, (ClassModel, ExternalClass)) else (cls is object)
    if isinstance(c, type) and isinstance(cls, type):
        return issubclass(c, cls)
    if isinstance(c, (ExternalClass, type)):
        return c is cls
    raise Top(f"issubclass on {c!r}")


def _hasattr(obj, name):
    try:
        _getattr(obj, name)
        return True
    except AttributeError:
        return False


def _vars(obj):
    """vars(instance): the instance's own attributes by name (dataclass / equinox fields in declaration order)"""
    from .interp import Inst
    if isinstance(obj, Inst):
        return dict(obj.fields)
    raise Top(f"vars() of {type(obj).__name__}")


def _len(x):
    if isinstance(x, SymShape):
        return Sym('.ndim', x.s)
    if isinstance(x, Sym):
        return x.shape[0]                      # len(a) == a.shape[0] for arrays
    if isinstance(x, AT) and x.axes and not isinstance(x.axes[0], int):
        return x.shape[0]
    return len(x)


def _abs(x):
    if isinstance(x, (Poly, AT)):
        return alg.jnp_abs(x)
    return abs(x)


def _float(x):
    if isinstance(x, (Poly, AT, Sym)):
        return x
    return float(x)


def _int(x):
    if isinstance(x, (Poly, AT)):
        try:
            return int(x)
        except Top:
            return x
    if isinstance(x, Sym):
        return x
    return int(x)


def _range(*a):
    vals = [_dim(x) for x in a]
    if any(isinstance(v, SymDim) for v in vals):
        raise Finding(f"range over the extent of a row axis {vals}")
    try:
        return range(*vals)
    except TypeError:
        raise Top(f"range over symbolic bounds {a}")


def _max(*a, **k):
    if len(a) == 1:
        a = tuple(a[0])
    try:
        vals = [lift(x) for x in a]
    except Top:
        return max(*a, **k)
    if all(v.is_const() for v in vals):
        return max(*a, **k)
    return term('max', *sorted((fz(v) for v in vals), key=repr))


def _tree_all(t, is_leaf=None):
    """jax.tree.all: all() over the leaves (None is not a leaf: an entry mapped to None does not count)"""
    ls = pytree.tree_leaves(t, is_leaf=is_leaf) if is_leaf is not None else pytree.tree_leaves(t)
    out = True
    for l in ls:
        if isinstance(l, (bool, int)):
            out = out and bool(l)
        else:
            raise Top(f"truth value of the leaf {str(l)[:60]}")
    return out


def _clip(x, *bounds, **k):
    """clip(x, lo, hi): an opaque elementwise function of x unless both bounds are absent (a value that was x and is now
    clip(x, ...) is a different value: equal to x only where x lies between the bounds)"""
    b = list(bounds) + [k.get(n) for n in ('min', 'max', 'a_min', 'a_max') if n in k]
    if all(v is None for v in b):
        return x
    if isinstance(x, AT) and all(isinstance(a_, int) for a_ in x.axes) is False:
        # a tensor with named axes: entry by entry
        import numpy as _np
        def one(p):
            return Poly.atom(('F', 'clip', (repr(fz(p)),) + tuple(repr(fz(v)) for v in b), frozenset(p.deps())))
        data = _np.empty(x.data.shape, dtype=object)
        for i in _np.ndindex(x.data.shape):
            data[i] = one(x.data[i])
        return AT(x.axes, data)
    return term('clip', x, *b)


def _min(*a, **k):
    if len(a) == 1:
        a = tuple(a[0])
    try:
        vals = [lift(x) for x in a]
    except Top:
        return min(*a, **k)
    if all(v.is_const() for v in vals):
        return min(*a, **k)
    return term('min', *sorted((fz(v) for v in vals), key=repr))


def api(fn, _drop=(), **rename):
    """adapter giving a model the keyword names of the real API: `rename` maps real keyword -> model keyword; keywords in
    `_drop` (dtype, precision, ... - immaterial to the abstraction) are discarded"""
    @functools.wraps(fn)
    def w(*a, **k):
        kk = {}
        for key, v in k.items():
            if key in _drop:
                continue
            kk[rename.get(key, key)] = v
        return fn(*a, **kk)
    return w


_IMMATERIAL = ('dtype', 'out', 'precision', 'preferred_element_type', 'device', 'out_sharding', 'copy', 'order',
               'allow_negative_indices', 'unroll', 'is_stable', 'holomorphic', 'allow_int')

# real keyword name -> model keyword name, per external function (kept in sync with dev/sig_audit.py)
_API_NAMES = {
    'jnp': {
        'array': dict(object='x'), 'asarray': dict(a='x'), 'concatenate': dict(arrays='items'),
        'hstack': dict(tup='items'), 'column_stack': dict(tup='items'), 'vstack': dict(tup='items'), 'broadcast_to': dict(array='a'),
        'sum': dict(a='x'), 'tile': dict(A='a'), 'reshape': dict(newshape='shape'),
        'diag': dict(v='a'), 'any': dict(a='x'), 'all': dict(a='x'), 'unravel_index': dict(indices='idx'),
        'split': dict(ary='a'), 'where': dict(condition='c', x='a', y='b'),
        'full': dict(fill_value='value'), 'full_like': dict(fill_value='v'), 'eye': dict(N='n'),
        'swapaxes': dict(axis1='i', axis2='j'), 'logical_and': dict(x1='a', x2='b'), 'logical_or': dict(x1='a', x2='b'),
    },
    'jax.lax': {
        'fori_loop': dict(lower='lo', upper='hi', body_fun='body', init_val='init'), 'while_loop': dict(init_val='init'),
        'select': dict(pred='c', on_true='a', on_false='b'), 'stop_gradient': dict(x='v'), 'top_k': dict(operand='x'),
        'with_sharding_constraint': dict(shardings='s'),
    },
    'jax.tree_util': {'tree_reduce': dict(function='f'), 'tree_transpose': dict(outer_treedef='outer', inner_treedef='inner',
                                                                               pytree_to_transpose='tree')},
    'jax.tree': {'reduce': dict(function='f'), 'transpose': dict(outer_treedef='outer', inner_treedef='inner',
                                                                 pytree_to_transpose='tree')},
    'jax.nn': {'one_hot': dict(x='i', num_classes='n')},
    'jax': {'grad': dict(fun='f'), 'hessian': dict(fun='f'), 'jacrev': dict(fun='f'), 'jacfwd': dict(fun='f'), 'jvp': dict(fun='f'),
            'vmap': dict(fun='f'), 'jit': dict(fun='f'), 'value_and_grad': dict(fun='f')},
    'eqx': {'tree_at': dict(pytree='pytree_'), 'is_array': dict(element='x'), 'is_inexact_array': dict(element='x'),
            'partition': dict(pytree='tree', filter_spec='spec'), 'filter_jit': dict(fun='f')},
}


def _apply_api_names(*spaces):
    for ns in spaces:
        table = _API_NAMES.get(ns._name, {})
        for name, v in list(vars(ns).items()):
            if name.startswith('_') or isinstance(v, NS) or not callable(v) or isinstance(v, (ExternalClass, type)):
                continue
            if not (hasattr(v, '__code__') or hasattr(v, '__wrapped__')):
                continue
            setattr(ns, name, api(v, _drop=_IMMATERIAL, **table.get(name, {})))


def make_world_externals(world_ref):
    """returns (externals, builtins) for a World"""
    isinstance_ = make_isinstance(world_ref)
    type_ = make_type(world_ref)

    jnp = NS("jnp",
             array=_jnp_array, asarray=_jnp_array, result_type=_result_type, minimum=(lambda a, b: _min(a, b)), maximum=(lambda a, b: _max(a, b)),
             clip=_clip, nan_to_num=(lambda x, **k: term('nan_to_num', x, **k)),
             stack=_jnp_stack_model, concatenate=symaware('concatenate', alg.jnp_concatenate),
             hstack=symaware('hstack', alg.jnp_hstack), column_stack=symaware('column_stack', alg.jnp_column_stack),
             vstack=symaware('vstack', alg.jnp_vstack), dstack=_dstack, roll=_roll,
             sum=_jnp_sum_model, mean=symaware('mean', alg.jnp_mean),
             trace=symaware('trace', alg.jnp_trace), abs=symaware('abs', alg.jnp_abs), log=symaware('log', alg.jnp_log),
             squeeze=symaware('squeeze', alg.jnp_squeeze), expand_dims=symaware('expand_dims', alg.jnp_expand_dims),
             atleast_1d=symaware('atleast_1d', alg.jnp_atleast_1d),
             atleast_2d=symaware('atleast_2d', alg.jnp_atleast_2d),
             repeat=symaware('repeat', alg.jnp_repeat), tile=symaware('tile', alg.jnp_tile), resize=symaware('resize', alg.jnp_resize),
             reshape=symaware('reshape', alg.jnp_reshape),
             ones_like=symaware('ones_like', alg.jnp_ones_like), zeros_like=symaware('zeros_like', alg.jnp_zeros_like),
             zeros=_jnp_filled_or_sym(0), ones=_jnp_filled_or_sym(1),
             arange=symaware('arange', alg.jnp_arange), moveaxis=symaware('moveaxis', alg.jnp_moveaxis),
             transpose=symaware('transpose', alg.jnp_transpose), diag=symaware('diag', alg.jnp_diag),
             matmul=symaware('matmul', alg.jnp_matmul), dot=symaware('dot', alg.jnp_dot),
             meshgrid=_meshgrid, linspace=_linspace,
             linalg=NS("jnp.linalg", norm=symaware('linalg.norm', _linalg_norm)),
             s_=IndexExpr(), ndarray=ExternalClass('jnp.ndarray'),
             iinfo=IInfo, finfo=(lambda dt=None: NS('finfo', eps=Poly.atom(('K', 'float_eps')), tiny=Poly.atom(('K', 'float_tiny')), max=Poly.atom(('K', 'float_max')), min=-Poly.atom(('K', 'float_max')))), int32='int32', float32='float32', float64='float64', int64='int64',
             inf=Poly.atom(('K', 'inf')), nan=Poly.atom(('K', 'nan')), pi=Poly.atom(('K', 'pi')),
             isnan=_isnan, isfinite=(lambda x: term('isfinite', x)), isinf=(lambda x: term('isinf', x)), any=_jnp_any, all=_jnp_all, logical_and=_logical_and, logical_not=_logical_not, logical_or=_logical_or,
             count_nonzero=_count_nonzero_model, argsort=opaque_fn('argsort'),
             unravel_index=_unravel_index, divmod=_divmod_model,
             take=_take, einsum=_einsum_model, split=_split_model, cumsum=opaque_fn('cumsum'),
             sqrt=_sqrt_model, exp=opaque_fn('exp'), where=_where, prod=opaque_fn('prod'),
             equal=lambda a, b: Pred.compare(lift(a), lift(b), '=='), not_equal=lambda a, b: Pred.compare(lift(a), lift(b), '==').negate(),
             remainder=lambda a, b: a % b, mod=lambda a, b: a % b, floor_divide=lambda a, b: a // b,
             broadcast_to=symaware('broadcast_to', alg.jnp_broadcast_to), broadcast_arrays=alg.jnp_broadcast_arrays, diagonal=symaware('diagonal', alg.jnp_diagonal),
             square=_elementwise('square', lambda x: x * x), power=_elementwise('power', lambda x, n: x ** n),
             multiply=_elementwise('multiply', lambda x, y: x * y), add=_elementwise('add', lambda x, y: x + y),
             subtract=_elementwise('subtract', lambda x, y: x - y), divide=_elementwise('divide', lambda x, y: x / y),
             true_divide=_elementwise('divide', lambda x, y: x / y), negative=_elementwise('negative', lambda x: -x),
             absolute=symaware('abs', alg.jnp_abs), full=_full, full_like=lambda a, v, **k: alg.jnp_zeros_like(a) + v,
             eye=_eye, identity=_eye, outer=_outer, inner=symaware('dot', alg.jnp_dot), vdot=symaware('dot', alg.jnp_dot),
             ravel=lambda a: to_at(a).flatten() if not _is_opaque(a) else term('.flatten', a),
             shape=lambda a: (a.shape if hasattr(a, 'shape') else ()), ndim=lambda a: (a.ndim if hasattr(a, 'ndim') else _np_ndim(a)), size=lambda a: a.size,
             swapaxes=_swapaxes,
             float_=_float, asarray_chkfinite=_jnp_array,
             max=opaque_fn('max'), min=opaque_fn('min'), greater=lambda a, b: lift(a) > lift(b),
             greater_equal=lambda a, b: lift(a) >= lift(b), less=lambda a, b: lift(a) < lift(b),
             less_equal=lambda a, b: lift(a) <= lift(b),
             )
    tree_util = NS("jax.tree_util", tree_map=_tree_map, tree_leaves=pytree.tree_leaves, tree_reduce=pytree.tree_reduce,
                   tree_structure=pytree.tree_structure, tree_transpose=pytree.tree_transpose,
                   tree_flatten=pytree.tree_flatten, tree_unflatten=pytree.tree_unflatten)
    tree = NS("jax.tree", map=_tree_map, leaves=pytree.tree_leaves, reduce=pytree.tree_reduce,
              structure=pytree.tree_structure, transpose=pytree.tree_transpose,
              flatten=pytree.tree_flatten, unflatten=pytree.tree_unflatten,
              all=(lambda t, **k: _tree_all(t, **k)))
    tree_util.tree_all = tree.all
    lax = NS("jax.lax", cond=lax_cond, scan=alg.lax_scan, fori_loop=lax_fori_loop, while_loop=lax_while_loop,
             dynamic_slice=_dynamic_slice, dynamic_slice_in_dim=_dynamic_slice_in_dim, slice_in_dim=_slice_in_dim, slice=_lax_slice,
             dynamic_update_slice_in_dim=_dynamic_update_slice_in_dim, dynamic_update_slice=_dynamic_update_slice, select=_where,
             stop_gradient=stop_gradient_value, top_k=_top_k,
             with_sharding_constraint=lambda x, s: x)
    random = NS("jax.random", split=_random_split, uniform=_random_uniform, choice=_random_choice,
                permutation=_random_permutation, PRNGKey=opaque_fn('PRNGKey'), key=opaque_fn('PRNGKey'))
    jax = NS("jax", numpy=jnp, lax=lax, random=random, tree_util=tree_util, tree=tree,
             nn=NS("jax.nn", one_hot=alg.one_hot),
             grad=alg.jax_grad, hessian=alg.jax_hessian, jacrev=alg.jax_jac, jacfwd=alg.jax_jac, jvp=alg.jax_jvp, linearize=_linearize,
             vmap=lambda f, in_axes=0, out_axes=0, **kw: VMapped(f, in_axes, out_axes, **kw),
             jit=_identity_decorator, value_and_grad=_value_and_grad,
             debug=NS("jax.debug", print=_print), device_put=lambda x, *a, **k: x,
             core=NS("jax.core", Tracer=ExternalClass('jax.core.Tracer')),      # nothing is traced here: isinstance is False
             Array=ExternalClass('jax.Array'),
             sharding=NS("jax.sharding", Sharding=Subscriptable("Sharding")))
    eqx = NS("eqx", Module=EQX_MODULE, field=eqx_field, tree_at=eqx_tree_at,
             AbstractVar=Subscriptable("AbstractVar"), AbstractClassVar=Subscriptable("AbstractClassVar"),
             is_array=lambda x: isinstance(x, (AT, Sym)), is_inexact_array=lambda x: isinstance(x, (AT, Sym)),
             partition=lambda tree, spec: (term('partition.params', tree), term('partition.static', tree)),
             filter=lambda tree, spec, inverse=False, **k: term('partition.static' if fz(inverse) else 'partition.params', tree),
             combine=lambda *trees: ModelToken(trees),
             filter_jit=_identity_decorator)
    optax = NS("optax", apply_updates=apply_updates_model,
               GradientTransformation=Subscriptable("GradientTransformation"), OptState=Subscriptable("OptState"))
    typing = NS("typing", TYPE_CHECKING=False, Callable=Subscriptable(), Dict=Subscriptable(), Union=Subscriptable(),
                Literal=Subscriptable(), ClassVar=Subscriptable(), NamedTuple=Subscriptable(), Any=Subscriptable(),
                Optional=Subscriptable(), List=Subscriptable(), Tuple=Subscriptable())
    jaxtyping = NS("jaxtyping", **{k: Subscriptable(k) for k in
                                   ("Float", "Int", "Bool", "Key", "PyTree", "Num", "Shaped")})
    jaxtyping.Array = jax.Array
    _apply_api_names(jnp, jnp.linalg, tree_util, tree, lax, random, jax, jax.nn, eqx, optax)
    externals = {
        'jax': jax, 'jax.numpy': jnp, 'equinox': eqx, 'optax': optax, 'typing': typing, 'jaxtyping': jaxtyping,
        'functools': NS("functools", partial=functools.partial, reduce=functools.reduce),
        'dataclasses': NS("dataclasses", fields=dc_fields, InitVar=Subscriptable("InitVar"), MISSING=FieldSpec.MISSING,
                          replace=lambda o, **k: o.replace_fields(k)),
        'abc': NS("abc", abstractmethod=lambda f: f, ABC=ExternalClass('ABC')),
        'warnings': NS("warnings", warn=_print, catch_warnings=lambda *a, **k: None, filterwarnings=_print),
        'operator': NS("operator", getitem=lambda a, b: a[b], add=lambda a, b: a + b, sub=lambda a, b: a - b, mul=lambda a, b: a * b,
                       truediv=lambda a, b: a / b, floordiv=lambda a, b: a // b, mod=lambda a, b: a % b, neg=lambda a: -a,
                       pow=lambda a, b: a ** b, matmul=lambda a, b: a @ b,
                       ge=lambda a, b: _op_cmp(a, b, '>='), le=lambda a, b: _op_cmp(a, b, '<='), gt=lambda a, b: _op_cmp(a, b, '>'),
                       lt=lambda a, b: _op_cmp(a, b, '<'), eq=lambda a, b: _op_cmp(a, b, '=='), ne=lambda a, b: _op_cmp(a, b, '!='),
                       is_=lambda a, b: a is b, is_not=lambda a, b: a is not b, contains=lambda a, b: b in a,
                       truth=lambda a: bool(a), index=lambda a: _dim(a), and_=lambda a, b: (as_pred(a) & as_pred(b)) if (isinstance(a, Pred) or isinstance(b, Pred)) else (a & b),
                       or_=lambda a, b: (as_pred(a) | as_pred(b)) if (isinstance(a, Pred) or isinstance(b, Pred)) else (a | b),
                       not_=lambda a: as_pred(a).negate() if isinstance(a, Pred) else (not a),
                       itemgetter=lambda *k: (lambda o: o[k[0]] if len(k) == 1 else tuple(o[x] for x in k)),
                       attrgetter=_attrgetter),
        'numpy': NS("numpy", asarray=_np_asarray, cumsum=_np_cumsum, ndarray=ExternalClass('np.ndarray'),
                    sum=lambda a, *x, **k: _sum_builtin(list(a)), prod=lambda a, *x, **k: _math_prod(list(a)), array=_np_asarray, ndim=_np_ndim,
                    bool_=np.bool_),
        'math': NS("math", prod=_math_prod),
        'copy': NS("copy", deepcopy=lambda x: x, copy=lambda x: x),
        'jax.flatten_util': NS("jax.flatten_util", ravel_pytree=lambda t: (term('ravel_pytree', *pytree.tree_leaves(t)), opaque_fn('unravel'))),
        'collections.abc': NS("collections.abc", Sequence=ExternalClass('Sequence', (list, tuple, range)), Mapping=ExternalClass('Mapping', (dict,)),
                              Iterable=ExternalClass('Iterable', (list, tuple, dict, set, frozenset, range)), Callable=ExternalClass('Callable'),
                              Hashable=ExternalClass('Hashable', (str, int, tuple, frozenset))),
        'itertools': NS("itertools", **{k: getattr(__import__('itertools'), k) for k in
                                        ('count', 'product', 'chain', 'repeat', 'zip_longest', 'accumulate', 'islice', 'starmap',
                                         'combinations', 'permutations', 'cycle', 'tee', 'takewhile', 'dropwhile')}),
    }
    builtins = dict(
        range=_range, len=_len, tuple=tuple, list=list, dict=dict, set=set, frozenset=frozenset, enumerate=enumerate,
        zip=zip, isinstance=isinstance_, type=type_, int=_int, float=_float, str=str, bool=bool,
        max=_max, min=_min, any=any, all=all, sum=_sum_builtin, abs=_abs, sorted=sorted, reversed=reversed,
        map=map, filter=filter, print=_print, getattr=_getattr, hasattr=_hasattr, vars=_vars, setattr=_setattr, issubclass=_issubclass, callable=callable, slice=slice,
        ValueError=ValueError, NotImplementedError=NotImplementedError, KeyError=KeyError, IndexError=IndexError,
        AttributeError=AttributeError, TypeError=TypeError, RuntimeError=RuntimeError, AssertionError=AssertionError,
        Exception=Exception, UserWarning=UserWarning, DeprecationWarning=DeprecationWarning,
        classmethod=ClassMethodW, staticmethod=StaticMethodW, property=PropertyW,
        Ellipsis=Ellipsis, NotImplemented=NotImplemented, object=object, repr=repr, id=id, chr=chr, ord=ord,
        round=_round, divmod=lambda a, b: _divmod_model(a, b) if not (isinstance(a, int) and isinstance(b, int)) else divmod(a, b), iter=iter, next=next, pow=lambda a, b, *m: a ** b,
    )
    builtins['None'] = None
    builtins['True'] = True
    builtins['False'] = False
    return externals, builtins


def make_world(repo="/repo", overrides=None):
    from .interp import World
    ref = [None]
    ext, bi = make_world_externals(ref)
    w = World(repo=repo, externals=ext, builtins=bi, overrides=overrides)
    ref[0] = w
    return w
