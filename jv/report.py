"""Obligation bookkeeping, three-valued verdicts, evidence files, known findings, exit codes."""
from __future__ import annotations

import hashlib
import json
import os
import sys
import time
import traceback

from .alg import Top, Finding
from .interp import AbstractRaise

VERIF = os.path.dirname(os.path.dirname(os.path.abspath(__file__)))
EVDIR = os.environ.get("JV_EVIDENCE_DIR", os.path.join(VERIF, "evidence"))
REPO = os.environ.get("JV_REPO", "/repo")


class Violation(Exception):
    """raised by a rule: the analysed construct positively contradicts the specified condition"""

    def __init__(self, construct, found, expected, where=None):
        super().__init__(f"{construct}: found {found}; expected {expected}")
        self.construct, self.found, self.expected, self.where = construct, found, expected, where


class Inconclusive(Exception):
    pass


class Obligation:
    __slots__ = ("rule", "site", "config", "verdict", "found", "expected", "construct", "where", "detail", "nontrivial")

    def key(self):
        return f"{self.rule}|{self.site}|{self.construct or ''}"

    def as_dict(self):
        return {"rule": self.rule, "site": self.site, "config": self.config, "verdict": self.verdict,
                "found": _s(self.found), "expected": _s(self.expected), "construct": self.construct,
                "where": self.where, "detail": _s(self.detail)}


def _s(x, n=600):
    if x is None:
        return None
    s = x if isinstance(x, str) else repr(x)
    return s if len(s) <= n else s[:n] + "..."


class Check:
    def __init__(self, pid, tier="quick", seed=0, verbose=False, repo=None, quiet=False):
        self.pid, self.tier, self.seed, self.verbose = pid, tier, seed, verbose
        self.repo = repo or REPO
        self.obls = []
        self.t0 = time.time()
        self.rules = {}
        self.floors = {}
        self.counts = {}
        self.notes = []
        self.assumptions = []
        self.quiet = quiet
        self.files = {}
        self.selftest = None
        # the quick tier runs the full configuration lattice except where it is expensive (C06: all per-term subsets,
        # C13: every weight specification for both network kinds); thorough = full lattice + checker self-test
        self.full = (tier == "thorough") or pid not in ("C06", "C13")

    # ---- declaring
    def rule(self, rid, text, floor=0):
        self.rules[rid] = text
        self.floors[rid] = floor
        self.counts.setdefault(rid, 0)

    # single-row twins: each obligation is evaluated again with the listed row axes declared to have exactly one row
    # (alg.unit_axes); the twin is recorded only when the evaluation met one of those axes (otherwise it is the same obligation)
    SINGLE_ROW_MODES = {
        "C03": (("B",), ("B", "Bb", "I", "S")),
        "C04": (("Bb",), ("B", "Bb", "I", "S")),
        "C05": (("B",), ("I",), ("S",), ("B", "Bb", "I", "S")),
        "C12": (("B",), ("I",), ("B", "Bb", "I", "S")),
        "C06": (("B", "Bb", "I", "S"),), "C13": (("B", "Bb", "I", "S"),),
    }

    def run(self, rule, site, config, fn, construct=None, nontrivial=True):
        o = self._run_one(rule, site, config, fn, construct, nontrivial)
        modes = self.SINGLE_ROW_MODES.get(self.pid, ())
        if self.pid in ("C06", "C13") and self.tier != "thorough":
            modes = ()
        from . import alg
        if alg.UNIT_AXES:          # the obligation sets its own single-row configuration
            modes = ()
        for names in modes:
            alg.UNIT_AXES.hits = 0
            hit = [0]

            def twin(names=names):
                with alg.unit_axes(*names):
                    try:
                        return fn()
                    finally:
                        hit[0] = alg.UNIT_AXES.hits
            cfg = dict(config) if isinstance(config, dict) else {"config": config}
            if "single_row_axes" in cfg or "batch_rows" in cfg:
                break
            cfg["single_row_axes"] = list(names)
            n0 = len(self.obls)
            self._run_one(rule, site, cfg, twin, construct, nontrivial)
            if not hit[0]:
                # no listed axis occurred: not a different obligation
                del self.obls[n0:]
                self.counts[rule] -= 1
        return o

    def _run_one(self, rule, site, config, fn, construct=None, nontrivial=True):
        """evaluate one obligation; fn() returns a short description of what was established"""
        o = Obligation()
        o.rule, o.site, o.config, o.construct = rule, site, config, construct
        o.found = o.expected = o.where = o.detail = None
        o.nontrivial = nontrivial
        try:
            r = fn()
            o.verdict = "PASS"
            o.detail = r
        except Violation as v:
            o.verdict = "VIOLATION"
            o.construct = v.construct if construct is None else f"{construct}:{v.construct}" if v.construct else construct
            o.found, o.expected, o.where = v.found, v.expected, v.where
        except Finding as f:
            o.verdict = "VIOLATION"
            o.found, o.expected = str(f), "no structural contradiction"
            o.construct = construct if construct is not None else _norm(str(f))
        except AbstractRaise as ar:
            o.verdict = "VIOLATION"
            o.found = f"the configuration raises {type(ar.exc).__name__}: {_s(str(ar.exc), 200)}" + \
                      (f" (in {ar.where[-1]})" if ar.where else "")
            o.expected = "a value (no exception) for this documented configuration"
            o.construct = construct if construct is not None else f"raises {type(ar.exc).__name__}"
        except Top as t:
            o.verdict = "INCONCLUSIVE"
            o.detail = f"outside the analyser's vocabulary: {t}"
        except Inconclusive as t:
            o.verdict = "INCONCLUSIVE"
            o.detail = str(t)
        except RecursionError:
            o.verdict = "INCONCLUSIVE"
            o.detail = "recursion limit"
        except Exception as ex:   # analyser failure: never a violation
            o.verdict = "INCONCLUSIVE"
            tb = traceback.extract_tb(sys.exc_info()[2])
            last = tb[-1]
            o.detail = f"analyser exception {type(ex).__name__}: {ex} at {os.path.basename(last.filename)}:{last.lineno}"
        self.obls.append(o)
        self.counts[rule] = self.counts.get(rule, 0) + 1
        if self.verbose:
            print(f"  [{o.verdict:12s}] {rule} {site} {json.dumps(config, default=str)} "
                  f"{_s(o.detail if o.verdict != 'VIOLATION' else o.found, 160)}")
        return o

    def note(self, s):
        self.notes.append(s)

    # ---- finishing
    def finish(self):
        kf = load_known()
        listed = {f["key"]: f for f in kf.get("findings", []) if f.get("property") == self.pid}
        viol = [o for o in self.obls if o.verdict == "VIOLATION"]
        inc = [o for o in self.obls if o.verdict == "INCONCLUSIVE"]
        # instance floors: a rule that matched fewer sites than were confirmed by hand is broken
        for rid, floor in self.floors.items():
            if self.counts.get(rid, 0) < floor:
                o = Obligation()
                o.rule, o.site, o.config, o.construct = rid, "<floor>", {}, None
                o.verdict = "INCONCLUSIVE"
                o.found = o.expected = o.where = None
                o.nontrivial = False
                o.detail = f"rule matched {self.counts.get(rid, 0)} instances, floor is {floor} (anchor vanished?)"
                self.obls.append(o)
                inc.append(o)
        known, new = [], []
        seen_known = set()
        for o in viol:
            if o.key() in listed:
                known.append(o)
            else:
                new.append(o)
        out_lines = []
        for o in known:
            if o.key() not in seen_known:
                seen_known.add(o.key())
                out_lines.append(f"KNOWN-FINDING: property={self.pid} {listed[o.key()].get('what', o.key())}")
        replay = None
        if new:
            vdir = os.path.join(EVDIR, "violations")
            os.makedirs(vdir, exist_ok=True)
            replay = os.path.join(vdir, f"{self.pid}.json")
            uniq = {}
            for o in new:
                uniq.setdefault(o.key(), o)
            with open(replay, "w") as f:
                json.dump({"property": self.pid, "tier": self.tier,
                           "violations": [dict(o.as_dict(), key=o.key()) for o in uniq.values()]}, f, indent=1, default=str)
            out_lines.append(f"VIOLATION property={self.pid} replay={replay}")
            for o in uniq.values():
                out_lines.append(f"  {o.where or o.site}  rule={o.rule}  instance={o.construct}  config={json.dumps(o.config, default=str)}")
                out_lines.append(f"      found:    {_s(o.found, 400)}")
                out_lines.append(f"      expected: {_s(o.expected, 400)}")
        uniq_inc = {}
        for o in inc:
            uniq_inc.setdefault((o.rule, o.site, o.detail), o)
        for o in uniq_inc.values():
            out_lines.append(f"ANALYSIS-ERROR property={self.pid} rule={o.rule} site={o.site} config={json.dumps(o.config, default=str)}: {_s(o.detail, 300)}")
        self.write_evidence(len(new), known)
        if not self.quiet:
            for l in out_lines:
                print(l)
            npass = sum(1 for o in self.obls if o.verdict == "PASS")
            print(f"{self.pid} [{self.tier}] obligations={len(self.obls)} pass={npass} violations={len(new)} "
                  f"known={len(known)} inconclusive={len(inc)} wall={time.time() - self.t0:.2f}s")
        if new:
            return 1
        if inc:
            return 2
        return 0

    def write_evidence(self, nviol, known):
        obls = self.obls
        distinct = set()
        for o in obls:
            if o.nontrivial and o.verdict in ("PASS", "VIOLATION"):
                distinct.add((o.rule, o.site, json.dumps(o.config, sort_keys=True, default=str)))
        samples = []
        per_rule = {}
        for o in obls:
            if per_rule.get(o.rule, 0) < 4 or o.verdict != "PASS":
                per_rule[o.rule] = per_rule.get(o.rule, 0) + 1
                samples.append(o.as_dict())
            if len(samples) >= 60:
                break
        digests = {}
        for rel, src in sorted(self.files.items()):
            digests[rel] = hashlib.sha256(src.encode()).hexdigest()[:16]
        ev = {
            "property_id": self.pid,
            "tier": self.tier,
            "seed": int(self.seed),
            "level": "other",
            "coverage": {
                "explanation": ("Static analysis of /repo's working tree (ast only; nothing imported or executed). "
                                "Each obligation is one rule instance (site) evaluated under one static configuration; "
                                "the verdict is PASS (necessary condition holds), VIOLATION (construct positively "
                                "contradicts it) or INCONCLUSIVE (outside the analyser's vocabulary)."),
                "evaluations": len(obls),
                "distinct_nontrivial": len(distinct),
                "rule": ("obligations are enumerated (not sampled) as rule x site x static configuration; an obligation is "
                         "non-trivial when its anchor was resolved in the source and the verdict required running the "
                         "analysis (abstract interpretation / dataflow), distinct by (rule, site, configuration)"),
                "obligations": len(obls),
                "discharged": sum(1 for o in obls if o.verdict == "PASS"),
                "exhaustive": True,
                "rules": self.rules,
                "instances_per_rule": self.counts,
                "instance_floors": self.floors,
                "samples": samples,
                "inconclusive": sum(1 for o in obls if o.verdict == "INCONCLUSIVE"),
                "known_findings_matched": sorted({o.key() for o in known}),
                "files_consulted": digests,
                "notes": self.notes,
                "selftest": self.selftest,
            },
            "assumptions": self.assumptions or [
                "the primitive models of jax/jax.numpy/equinox in jv/extern.py and jv/alg.py are faithful",
                "user-supplied callables are opaque and well-shaped as documented"],
            "wall_s": round(time.time() - self.t0, 3),
            "violations": int(nviol),
        }
        os.makedirs(EVDIR, exist_ok=True)
        with open(os.path.join(EVDIR, f"{self.pid}.json"), "w") as f:
            json.dump(ev, f, indent=1, default=str)


def _norm(s):
    return " ".join(s.split())[:160]


def load_known():
    p = os.path.join(VERIF, "known_findings.json")
    try:
        with open(p) as f:
            return json.load(f)
    except Exception:
        return {"findings": [], "fixed": []}


def where_of(world, modname, node):
    m = world.modules.get(modname)
    path = os.path.relpath(m.path, world.repo) if m else modname
    return f"{path}:{getattr(node, 'lineno', '?')}"
