"""Helpers to write specification formulas (oracles) and to canonicalise inferred ones."""
from __future__ import annotations
from fractions import Fraction
import numpy as np
from .alg import Poly, AT, to_at, map_deps, _key


def _depf(keep_deps):
    if keep_deps is True:
        return lambda s: s
    if not keep_deps:
        return lambda s: set()
    return lambda s: {x for x in s if keep_deps(x)}


def canon_atom(a, keep_fp=False, keep_deps=False, keep_sg=False):
    """keep_deps: False (strip), True (keep) or a predicate on dependency labels (e.g. keep facet tags)"""
    tag = a[0]
    if tag == 'P' and not keep_sg and a[4]:
        a = a[:4] + (False,)
    if tag == 'U':
        slots = tuple(s for s in a[4] if not s.endswith('=absent'))
        return ('U', a[1], a[2], a[3], slots, a[5] if keep_fp else (), frozenset(_depf(keep_deps)(set(a[6]))))
    if tag in ('X', 'T', 'P', 'F'):
        return map_deps(a, _depf(keep_deps))
    if tag in ('Mean', 'Sum'):
        return (tag, a[1], canon(a[2], keep_fp, keep_deps, keep_sg))
    if tag in ('Abs', 'Inv'):
        return (tag, canon(a[1], keep_fp, keep_deps, keep_sg))
    if tag == 'Log':
        return ('Log', canon_atom(a[1], keep_fp, keep_deps, keep_sg))
    return a


def canon(p, keep_fp=False, keep_deps=False, keep_sg=False):
    return p.map_atoms(lambda a: canon_atom(a, keep_fp, keep_deps, keep_sg))


def canon_at(v, **kw):
    v = to_at(v)
    return v.axes, [canon(x, **kw) for x in v.entries()]


def U(net, k, *alpha, slots=()):
    """spec atom: component k of `net` differentiated along alpha (items 't' or int j)"""
    al = tuple(sorted((('T' if x == 't' else ('X', x)) for x in alpha), key=_key))
    return Poly.atom(('U', net, k, al, tuple(slots), (), frozenset()))


def X(j):
    return Poly.atom(('X', j, frozenset()))


def T():
    return Poly.atom(('T', frozenset()))


def P(name, *idx):
    return Poly.atom(('P', name, tuple(idx), frozenset(), False))


def Kc(name):
    return Poly.atom(('K', name))


def F(name, k=None):
    return Poly.atom(('F', name, k, frozenset()))


def Mean(axis, p):
    from .alg import bind
    return bind('Mean', axis, p)


def fmt_list(ps):
    return "[" + "; ".join(str(p) for p in ps) + "]"
