"""Construction of abstract loss configurations (networks, parameters, batches, user equations) for the
formula-inference checks.  Everything here is *input* to the analysed code; the analysed classes and
functions themselves are interpreted from /repo's source."""
from __future__ import annotations

import numpy as np
from fractions import Fraction

from .alg import (Poly, AT, to_at, pt, tm, batch_x, batch_t, NNLabel, Top, Finding, K, Pm, Fv, bind, jnp_sum,
                  jnp_stack, SymDim)
from .extern import make_world, Net, prepend
from .interp import freeze, Inst


class LossEnv:
    def __init__(self, repo, world=None):
        self.w = world if world is not None else make_world(repo)
        g = self.w.get
        P = "jinns.parameters._params"
        self.Params, self.ParamsDict = g(P, "Params"), g(P, "ParamsDict")
        B = "jinns.data._Batchs"
        self.ODEBatch, self.PDEStatioBatch, self.PDENonStatioBatch = g(B, "ODEBatch"), g(B, "PDEStatioBatch"), g(B, "PDENonStatioBatch")
        self.mod_ode = self.w.module("jinns.loss._LossODE")
        self.mod_pde = self.w.module("jinns.loss._LossPDE")
        self.mod_lu = self.w.module("jinns.loss._loss_utils")
        self.mod_bc = self.w.module("jinns.loss._boundary_conditions")
        self.mod_dk = self.w.module("jinns.parameters._derivative_keys")
        self.mod_lw = self.w.module("jinns.loss._loss_weights")
        self.mod_dla = self.w.module("jinns.loss._DynamicLossAbstract")

    def cls(self, mod, name):
        return mod.env.get(name)

    # ---- parameters
    def params(self, eq=None, label='u'):
        return self.Params.make(nn_params=NNLabel(label), eq_params=dict(eq or {}))

    def params_dict(self, labels, eq=None):
        return self.ParamsDict.make(nn_params={k: NNLabel(v) for k, v in labels.items()}, eq_params=dict(eq or {}))

    # ---- batches (row axis names: B rows, Bb border rows, I observation rows)
    def ode_batch(self, rows="B", param_batch=None, obs=None):
        return self.ODEBatch.make(temporal_batch=AT((rows,), np.array(Poly.atom(('T', frozenset({rows}))), dtype=object)),
                                  param_batch_dict=param_batch, obs_batch_dict=obs)

    def statio_batch(self, d, rows="B", brows="Bb", border=True, param_batch=None, obs=None):
        return self.PDEStatioBatch.make(inside_batch=batch_x(d, rows),
                                        border_batch=self.border(d, brows) if border else None,
                                        param_batch_dict=param_batch, obs_batch_dict=obs)

    def nonstatio_batch(self, d, rows="B", brows="Bb", border=True, param_batch=None, obs=None):
        tx = AT((rows, 1 + d), np.array([Poly.atom(('T', frozenset({rows})))] +
                                        [Poly.atom(('X', j, frozenset({rows}))) for j in range(d)], dtype=object))
        return self.PDENonStatioBatch.make(times_x_inside_batch=tx,
                                           times_x_border_batch=self.border(d, brows, time=True) if border else None,
                                           param_batch_dict=param_batch, obs_batch_dict=obs)

    @staticmethod
    def border(d, rows="Bb", time=False):
        """border batch [rows, (1+)d, 2d]: entry [c, f] is coordinate c of a point of facet f (tagged `facet<f>`).
        Stationary 1-D borders are the pair of end points served with shape (1, 1, 2) (one concrete row)."""
        nf = 2 * d
        nc = d + (1 if time else 0)
        concrete_rows = (d == 1 and not time)
        shape = ((1,) if concrete_rows else ()) + (nc, nf)
        dat = np.empty(shape, dtype=object)
        for f in range(nf):
            tags = frozenset({f"facet{f}"} | (set() if concrete_rows else {rows}))
            for c in range(nc):
                if time and c == 0:
                    a = Poly.atom(('T', tags))
                else:
                    a = Poly.atom(('X', c - (1 if time else 0), tags))
                if concrete_rows:
                    dat[0, c, f] = a
                else:
                    dat[c, f] = a
        return AT(((1,) if concrete_rows else (rows,)) + (nc, nf), dat)

    def obs_batch(self, eq_type, d, m, rows="I", observed_params=None, name='obs'):
        ncol = {'ODE': 1, 'statio_PDE': d, 'nonstatio_PDE': 1 + d}[eq_type]
        ents = []
        if eq_type in ('ODE', 'nonstatio_PDE'):
            ents.append(Poly.atom(('T', frozenset({rows}))))
        if eq_type != 'ODE':
            ents += [Poly.atom(('X', j, frozenset({rows}))) for j in range(d)]
        pin = AT((rows, ncol), np.array(ents, dtype=object))
        val = AT((rows, m), np.array([Poly.atom(('F', name, k, frozenset({rows}))) for k in range(m)], dtype=object))
        # the OBSERVED value of a parameter is a different quantity from the generated (parameter-batch) value of the same key even
        # when both tables have the same rows: its index path carries the mark 'observed'
        eqp = {k: AT((rows, 1), np.array([Poly.atom(('P', k, ('observed',), frozenset({rows}), False))], dtype=object))
               for k in (observed_params or [])}
        return {"pinn_in": pin, "val": val, "eq_params": eqp}

    @staticmethod
    def param_batch(keys, rows="B"):
        return {k: AT((rows, 1), np.array([Poly.atom(('P', k, (), frozenset({rows}), False))], dtype=object)) for k in keys}

    # ---- user equations
    def user_dynamic_loss(self, eq_type, m, name='R', multi=None, heterogeneity=None, equation=None, scalar=False):
        """instance of the repo's ODE / PDEStatio / PDENonStatio class whose `equation` is an opaque user
        residual R_c = F_c(point) + u_{c mod m_u}(point; params) + sum of the scalar equation parameters"""
        base = {'ODE': 'ODE', 'statio_PDE': 'PDEStatio', 'nonstatio_PDE': 'PDENonStatio'}[eq_type]
        cls = self.mod_dla.env.get(base)
        eqf = equation if equation is not None else make_user_equation(m, name, multi)
        if scalar:
            vec = eqf
            eqf = lambda *a: to_at(vec(*a))[..., 0]      # a scalar (float) residual per point
        return cls.make(Tmax=K("Tmax"), eq_params_heterogeneity=heterogeneity, equation=eqf)


def make_user_equation(m, name='R', multi=None):
    def equation(*args):
        pts, u, params = args[:-2], args[-2], args[-1]
        if isinstance(u, dict):
            keys = multi or sorted(u.keys())
            uvals = [u[k](*pts, params.extract_params(k)) for k in keys]
            eq = params.eq_params
        else:
            uvals = [u(*pts, params)]
            eq = params.eq_params
        first = to_at(uvals[0])
        grid = tuple(a for a in first.axes[:-1])
        deps = set()
        for p in pts:
            deps |= to_at(p).deps()
        if grid:
            deps = set(grid)
        comps = []
        for c in range(m):
            r = Fv(name, (), deps).data[()].map_atoms(lambda a: a[:2] + (c,) + a[3:])
            acc = AT(grid, _filled_obj(grid, r))
            for uv in uvals:
                uv = to_at(uv)
                mu = uv.axes[-1]
                acc = acc + uv[..., c % mu]
            for k in sorted(eq or {}, key=repr):
                leaf = eq[k]
                if isinstance(leaf, dict):
                    continue
                leaf = to_at(leaf)
                if leaf.axes == ():
                    acc = acc + leaf
                elif leaf.axes == (1,):
                    acc = acc + leaf[0]
                else:
                    for e in np.ndindex(leaf.data.shape):
                        pass
                    if all(isinstance(a, int) for a in leaf.axes):
                        acc = acc + jnp_sum(leaf)
                    else:
                        # a per-sample leaf whose row axis was not consumed: use it so the defect is visible
                        acc = acc + leaf
            comps.append(acc)
        return jnp_stack(comps, axis=-1)
    return equation


def _filled_obj(axes, p):
    cs = tuple(a for a in axes if isinstance(a, int))
    d = np.empty(cs, dtype=object)
    for i in np.ndindex(cs):
        d[i] = p
    return d


def weight(kind, m, name='w'):
    if kind == 'scalar':
        return K(name)
    return AT((m,), np.array([K(f"{name}{c}") for c in range(m)], dtype=object))


def weighted_sq_sum(w, R):
    """sum_c w_c R_c^2 for a residual AT(..., m) -> list of entries over the leading axes"""
    R = to_at(R)
    return jnp_sum(to_at(w) * R * R, axis=-1)


def mean_over(axes, v):
    """Mean over the named axes of a tensor whose remaining axes are none"""
    v = to_at(v)
    for ax in axes:
        k = v.axes.index(ax)
        v = AT(v.axes[:k] + v.axes[k + 1:], v.data).map(lambda p, ax=ax: bind('Mean', ax, p))
    return v


# ======================================================================================
# user functions and loss builders
# ======================================================================================
def user_fn(name, m, ret='vector'):
    """opaque user function of points: returns F atoms depending on the rows / grid axes of its inputs.
    ret: 'vector' -> shape (m,) [grid: (..., m)]; 'scalar0d' -> 0-d array; 'pyscalar' -> python float"""
    def f(*pts):
        if ret == 'pyscalar':
            return 1.5
        ats = [to_at(p) for p in pts]
        grid = ()
        grids = []
        for a in ats:
            g = tuple(x for x in a.axes[:-1] if not isinstance(x, int))
            grids.append(g)
            if len(g) > len(grid):
                grid = g
        if len(grid) > 1 and any(g != grid for g in grids):
            # on a separable network the user's function is evaluated on the whole grid: every point argument (time, space)
            # must be given at every grid node
            raise Finding(f"user function {name} is called on a grid with arguments of different grid axes {grids} "
                          f"(one of them is not the grid of points)")
        deps = set(grid)
        if not grid:
            for a in ats:
                deps |= a.deps()
        if ret == 'scalar0d':
            return AT(grid, _filled_obj(grid, Poly.atom(('F', name, None, frozenset(deps)))))
        comps = [AT(grid, _filled_obj(grid, Poly.atom(('F', name, (k if m > 1 else None), frozenset(deps))))) for k in range(m)]
        return jnp_stack(comps, axis=-1)
    f.__name__ = name
    return f


def row_point(eq_type, d, rows="B"):
    """the abstract point a vmapped function sees for one row"""
    t = x = None
    if eq_type == 'ODE':
        return (AT((), np.array(Poly.atom(('T', frozenset({rows}))), dtype=object)),)
    x = pt(d, {rows})
    if eq_type == 'statio_PDE':
        return (x,)
    return (tm({rows}), x)


def row_params(E, params, batched_keys, rows="B"):
    eq = dict(params.fields['eq_params'])
    for k in batched_keys:
        eq[k] = AT((1,), np.array([Poly.atom(('P', k, (), frozenset({rows}), False))], dtype=object))
    return params.replace_fields({'eq_params': eq})


class SingleLoss:
    """one abstract LossODE / LossPDEStatio / LossPDENonStatio configuration built through the repository's
    own constructor (so __post_init__ defaults are part of what is analysed)"""

    def __init__(self, E, eq_type, net_kind='PINN', d=2, m_u=1, m_res=1, terms=('dyn',), wkind='scalar',
                 eq_keys=('nu',), derivative_keys=None, bc='dirichlet', bc_ret='vector', bc_dim=None,
                 per_facet=None, obs_slice=None, ic_t0=None, net_name='u', unit_weights=False, dyn=None, params=None,
                 weight_value=None, wkind_terms=('dyn_loss',), norm_rows="S"):
        self.E, self.eq_type, self.net_kind, self.d, self.m_u, self.m_res = E, eq_type, net_kind, d, m_u, m_res
        self.terms = set(terms)
        d_net = 0 if eq_type == 'ODE' else d
        nn = net_name
        self.net_name = nn
        self.u = Net(nn, net_kind, m_u, eq_type, d_net)
        self.params = params if params is not None else E.params({k: Pm(k) for k in eq_keys}, label=nn)
        self.dyn = (dyn if dyn is not None else E.user_dynamic_loss(eq_type, m_res)) if 'dyn' in self.terms else None
        self.w = {}
        kw = {}
        if eq_type == 'ODE':
            LW = E.cls(E.mod_lw, 'LossWeightsODE')
            names = ('dyn_loss', 'initial_condition', 'observations')
        elif eq_type == 'statio_PDE':
            LW = E.cls(E.mod_lw, 'LossWeightsPDEStatio')
            names = ('dyn_loss', 'norm_loss', 'boundary_loss', 'observations')
        else:
            LW = E.cls(E.mod_lw, 'LossWeightsPDENonStatio')
            names = ('dyn_loss', 'norm_loss', 'boundary_loss', 'observations', 'initial_condition')
        for n in names:
            mm = {'dyn_loss': m_res}.get(n, m_u)
            self.w[n] = weight(wkind if n in wkind_terms else 'scalar', mm, name='w_' + n) if not unit_weights else 1.0
            if weight_value is not None:
                self.w[n] = weight_value        # the same concrete weight for every term, in the representation under test
        self.weights = LW(**self.w)
        self._LW, self._wspec = LW, {n: (wkind if n in wkind_terms else 'scalar', {'dyn_loss': m_res}.get(n, m_u)) for n in names}
        kw['loss_weights'] = self.weights
        if derivative_keys is not None:
            kw['derivative_keys'] = derivative_keys
        if obs_slice is not None:
            kw['obs_slice'] = obs_slice
        if eq_type == 'ODE':
            cls = E.cls(E.mod_ode, 'LossODE')
            if 'ic' in self.terms:
                self.t0 = K('t0') if ic_t0 is None else ic_t0
                self.u0 = AT((m_u,), np.array([K(f'{nn}0_{c}') for c in range(m_u)], dtype=object))
                kw['initial_condition'] = (self.t0, self.u0)
        else:
            cls = E.cls(E.mod_pde, 'LossPDEStatio' if eq_type == 'statio_PDE' else 'LossPDENonStatio')
            if 'norm' in self.terms:
                kw['norm_samples'] = batch_x(d, norm_rows)
                kw['norm_int_length'] = K('L')
            if 'bc' in self.terms:
                if per_facet is not None:
                    kw['omega_boundary_fun'] = {k: (user_fn(f'f{nn}_' + k, 1, bc_ret) if v is not None else None) for k, v in per_facet.items()}
                    kw['omega_boundary_condition'] = dict(per_facet)
                    if bc_dim is not None:
                        kw['omega_boundary_dim'] = {k: bc_dim for k in per_facet}
                else:
                    ncomp = m_u if bc_dim is None else (len(list(range(m_u))[bc_dim]) if isinstance(bc_dim, slice) else 1)
                    kw['omega_boundary_fun'] = user_fn('f' if nn == 'u' else f'f{nn}', 1 if (bc_ret != 'vector' or 'neumann' in bc) else ncomp, bc_ret)
                    kw['omega_boundary_condition'] = bc
                    if bc_dim is not None:
                        kw['omega_boundary_dim'] = bc_dim
            if eq_type == 'nonstatio_PDE' and 'ic' in self.terms:
                kw['initial_condition_fun'] = user_fn('u0' if nn == 'u' else f'{nn}0', m_u)
        self.loss = cls(u=self.u, dynamic_loss=self.dyn, params=self.params, **kw)

    def batch(self, param_keys=(), observed_params=None, obs_rows=None):
        E = self.E
        # param_keys == 'empty': a parameter batch dictionary that is present but empty (no key is batched)
        if param_keys == 'empty':
            pb, param_keys = {}, ()
        else:
            pb = E.param_batch(param_keys) if param_keys else None
        obs = None
        if 'obs' in self.terms:
            rows = obs_rows or ("B" if param_keys else "I")
            sl = self.loss.fields.get('obs_slice')
            n_obs = len(list(range(self.m_u))[sl]) if isinstance(sl, slice) else self.m_u
            obs = E.obs_batch(self.eq_type, self.d, n_obs, rows=rows, observed_params=observed_params,
                              name='obs' if self.net_name == 'u' else f'obs_{self.net_name}')
        border = 'bc' in self.terms
        # a per-sample parameter batch has one row per collocation row; the border batch must then have the same
        # number of rows for the vmapped boundary functions to be applicable at all
        brows = "B" if param_keys else "Bb"
        if self.eq_type == 'ODE':
            b = E.ode_batch(param_batch=pb, obs=obs)
        elif self.eq_type == 'statio_PDE':
            b = E.statio_batch(self.d, brows=brows, border=border, param_batch=pb, obs=obs)
        else:
            b = E.nonstatio_batch(self.d, brows=brows, border=border, param_batch=pb, obs=obs)
        return freeze(b)

    def replace_weights(self, prefix='v_'):
        """the constructed loss with its public `loss_weights` field replaced afterwards (what `eqx.tree_at` or
        `dataclasses.replace`-like surgery does: `__post_init__` does not run again); the specification follows the new weights"""
        self.w = {n: weight(k, mm, name=prefix + n) for n, (k, mm) in self._wspec.items()}
        self.weights = self._LW(**self.w)
        self.loss = self.loss.replace_fields({'loss_weights': self.weights})
        return self

    def evaluate(self, param_keys=(), observed_params=None, params=None):
        p = freeze(params if params is not None else self.params)
        return freeze(self.loss).evaluate(p, self.batch(param_keys, observed_params))   # the loss object is an argument too

    # ---- specification of the dynamic term
    def expected_dyn(self, param_keys=()):
        eqf = self.dyn.fields['equation']
        w = self.w['dyn_loss']
        if self.net_kind in ('PINN', 'HYPERPINN'):
            pts = row_point(self.eq_type, self.d)
            R = eqf(*pts, self.u, row_params(self.E, self.params, param_keys))
            s = weighted_sq_sum(w, R)
            return mean_over(("B",), prepend(s, "B"))
        # SPINN: the equation is evaluated once on the whole batch, the mean runs over the grid
        if self.eq_type == 'statio_PDE':
            pts = (batch_x(self.d),)
        else:
            pts = (batch_t(), batch_x(self.d))
        R = eqf(*pts, self.u, self.params)
        s = weighted_sq_sum(w, R)
        return mean_over(tuple(a for a in s.axes), s)


def replaced_weights_twin(make, term_key):
    """metamorphic obligation 'the weights are read from the public field when the loss is evaluated': the term of a loss
    whose `loss_weights` were replaced after construction (w_* -> v_*) is the term of the original loss with the weight atoms
    renamed.  make() builds a fresh SingleLoss"""
    from .report import Violation
    from .specs import canon
    S1 = make()
    _, t1 = S1.evaluate()
    S2 = make().replace_weights('v_')
    _, t2 = S2.evaluate()

    def ren(a):
        if a[0] == 'K' and isinstance(a[1], str) and a[1].startswith('w_'):
            return ('K', 'v_' + a[1][2:])
        return a
    a1, a2 = to_at(t1[term_key]), to_at(t2[term_key])
    if a1.axes != () or a2.axes != ():
        raise Violation(term_key, f"value with axes {a1.axes} / {a2.axes}", "a scalar")
    exp, found = canon(a1.data[()].map_atoms(ren)), canon(a2.data[()])
    if not any(a[0] == 'K' and str(a[1]).startswith('w_') for k in a1.data[()].t for a, _ in k):
        raise Top("the term does not mention its weight")
    if found != exp:
        raise Violation(term_key, str(found), str(exp))
    return f"{term_key} follows the replaced weights"


def replaced_field_twin(makeA, makeB, field, term_keys=None, canon_kw=None, **ev):
    """an equinox module is its fields: the loss A whose public field `field` was replaced (eqx.tree_at-style, `__post_init__`
    does not run again) by the value that field has in the constructed loss B - all other constructor arguments being equal -
    evaluates like B.  Anything derived from the field at construction and kept elsewhere breaks the relation"""
    from .report import Violation
    from .specs import canon
    A, B = makeA(), makeB()
    A.loss = A.loss.replace_fields({field: B.loss.fields[field]})
    _, ta = A.evaluate(**ev)
    _, tb = B.evaluate(**ev)
    for k in (term_keys or sorted(tb)):
        a, b = to_at(ta[k]), to_at(tb[k])
        if a.axes != () or b.axes != ():
            raise Violation(k, f"value with axes {a.axes} / {b.axes}", "a scalar")
        fa, fb = canon(a.data[()], **(canon_kw or {})), canon(b.data[()], **(canon_kw or {}))
        if fa != fb:
            raise Violation(k, str(fa), str(fb))
    return f"replacing `{field}` after construction == constructing with it"


OMITTED = object()


class SystemLoss:
    """abstract SystemLossODE / SystemLossPDE built through the repository's constructor"""

    def __init__(self, E, eq_type, net_kind='PINN', unknowns=('a', 'b'), equations=('e1', 'e2'), d=2, terms=('dyn', 'ic'),
                 weights='scalar', eq_keys=('nu',), m_res=None, derivative_keys_dict=None, reverse_dicts=False, specs=None, wprefix='w',
                 dyn=None):
        """specs: {unknown: dict(m_u=.., bc_dim=.., obs_slice=..)} per-unknown output count, boundary component selection and
        observed slice (handed to the constructor as omega_boundary_dim_dict / obs_slice_dict)"""
        self.E, self.eq_type, self.net_kind, self.d = E, eq_type, net_kind, d
        self.specs = {k: dict((specs or {}).get(k, {})) for k in unknowns}
        rset = set(reverse_dicts) if isinstance(reverse_dicts, (set, tuple, list, frozenset)) else \
            ({'u', 'dyn', 'weights', 'specs'} if reverse_dicts else set())

        def rv(d, label='weights'):
            return dict(reversed(list(d.items()))) if label in rset else d
        self._rv = rv
        self.unknowns, self.equations, self.terms = tuple(unknowns), tuple(equations), set(terms)
        d_net = 0 if eq_type == 'ODE' else d
        self.u_dict = {k: Net(k, net_kind, self.specs[k].get('m_u', 1), eq_type, d_net) for k in unknowns}
        self.params = E.params_dict({k: k for k in unknowns}, {k: Pm(k) for k in eq_keys})
        self.m_res = m_res or {e: 1 + (i % 2) for i, e in enumerate(equations)}
        self.dyn = {e: E.user_dynamic_loss(eq_type, self.m_res[e], name=f'R_{e}', multi=list(unknowns)) for e in equations} \
            if 'dyn' in self.terms else {}
        if dyn is not None:
            self.dyn = dict(dyn)            # dynamic losses supplied by the rule (e.g. with a heterogeneity map)
        sc = lambda n: to_at(K(n))
        if eq_type == 'ODE':
            names = ('dyn_loss', 'initial_condition', 'observations')
            LWD = E.cls(E.mod_lw, 'LossWeightsODEDict')
        else:
            names = ('dyn_loss', 'norm_loss', 'boundary_loss', 'observations', 'initial_condition')
            LWD = E.cls(E.mod_lw, 'LossWeightsPDEDict')
        self.names = names
        self.wspec = {}
        for i, n in enumerate(names):
            keys = equations if n == 'dyn_loss' else unknowns
            kind = weights if isinstance(weights, str) else weights.get(n, 'scalar')
            if kind == 'scalar':
                v = sc(wprefix + '_' + n)
                self.wspec[n] = ({k: v.data[()] for k in keys}, v)
            elif kind in ('dict', 'dict_rev'):
                dct = {k: sc(f'{wprefix}_{n}_{k}') for k in (keys if kind == 'dict' else tuple(reversed(keys)))}
                self.wspec[n] = ({k: x.data[()] for k, x in dct.items()}, rv(dct))
            elif kind == 'none':
                self.wspec[n] = ({k: Poly.const(0) for k in keys}, None)
            elif kind == 'float':
                self.wspec[n] = ({k: Poly.const(2) for k in keys}, 2.0)
            elif kind == 'len1':
                # a weight given as a length-one array (explicitly accepted by set_loss_weights): the scalar it holds
                v = sc(wprefix + '_' + n)
                self.wspec[n] = ({k: v.data[()] for k in keys}, AT((1,), np.array([v.data[()]], dtype=object)))
            elif kind == 'len1_dict':
                dct = {k: sc(f'{wprefix}_{n}_{k}') for k in keys}
                self.wspec[n] = ({k: x.data[()] for k, x in dct.items()},
                                 {k: AT((1,), np.array([x.data[()]], dtype=object)) for k, x in dct.items()})
            elif kind == 'omitted':
                # the field is not passed at all: the declared default of the weights class applies (1.0 for PDE systems, as
                # documented for the single-loss weights)
                self.wspec[n] = ({k: Poly.const(1) for k in keys}, OMITTED)
            else:
                raise ValueError(kind)
        lw = LWD(**{n: self.wspec[n][1] for n in names if self.wspec[n][1] is not OMITTED})
        # per-unknown specifications through single-loss builders (only used to produce the constructor arguments
        # and the per-unknown reference terms)
        self.singles = {}
        single_terms = tuple(t for t in self.terms if t != 'dyn')
        for k in unknowns:
            self.singles[k] = self._single(k, single_terms, eq_keys)
        kw = {}
        if eq_type == 'ODE':
            cls = E.cls(E.mod_ode, 'SystemLossODE')
            if 'ic' in self.terms:
                kw['initial_condition_dict'] = {k: self.singles[k].loss.fields['initial_condition'] for k in unknowns}
            if specs and 'obs' in self.terms:
                kw['obs_slice_dict'] = {k: self.specs[k].get('obs_slice') for k in unknowns}
        else:
            cls = E.cls(E.mod_pde, 'SystemLossPDE')
            f = lambda name: {k: self.singles[k].loss.fields.get(name) for k in unknowns}
            if 'bc' in self.terms:
                kw['omega_boundary_fun_dict'] = f('omega_boundary_fun')
                kw['omega_boundary_condition_dict'] = f('omega_boundary_condition')
            if 'norm' in self.terms:
                kw['norm_samples_dict'] = f('norm_samples')
                kw['norm_int_length_dict'] = f('norm_int_length')
            if 'ic' in self.terms and eq_type == 'nonstatio_PDE':
                kw['initial_condition_fun_dict'] = f('initial_condition_fun')
            if specs and 'bc' in self.terms:
                kw['omega_boundary_dim_dict'] = {k: self.specs[k].get('bc_dim') for k in unknowns}
            if specs and 'obs' in self.terms:
                kw['obs_slice_dict'] = {k: self.specs[k].get('obs_slice') for k in unknowns}
        if derivative_keys_dict is not None:
            kw['derivative_keys_dict'] = derivative_keys_dict
        kw = {k: (rv(v, 'specs') if isinstance(v, dict) else v) for k, v in kw.items()}
        self.loss = cls(u_dict=rv(self.u_dict, 'u'), dynamic_loss_dict=rv(self.dyn, 'dyn'), loss_weights=lw,
                        params_dict=self.params, **kw)

    def _single(self, k, single_terms, eq_keys):
        sp = self.specs[k]
        if 'terms' in sp:            # this unknown is subject to some of the system's constraints only
            single_terms = tuple(t for t in single_terms if t in sp['terms'])
        return SingleLoss(self.E, self.eq_type, self.net_kind, d=self.d, m_u=sp.get('m_u', 1), terms=single_terms, eq_keys=eq_keys,
                          net_name=k, unit_weights=True, bc_dim=sp.get('bc_dim'), obs_slice=sp.get('obs_slice'))

    def _n_obs(self, k):
        sp = self.specs[k]
        m = sp.get('m_u', 1)
        sl = sp.get('obs_slice')
        return len(list(range(m))[sl]) if isinstance(sl, slice) else m

    def batch(self, param_keys=()):
        E = self.E
        pb = E.param_batch(param_keys) if param_keys else None
        obs = None
        if 'obs' in self.terms:
            rows = "B" if param_keys else "I"
            obs = {k: E.obs_batch(self.eq_type, self.d, self._n_obs(k), rows=rows, name=f'obs_{k}') for k in self.unknowns}
        border = 'bc' in self.terms
        # a per-sample parameter batch has one row per collocation row; the border batch must then have the same
        # number of rows for the vmapped boundary functions to be applicable at all
        brows = "B" if param_keys else "Bb"
        if self.eq_type == 'ODE':
            b = E.ode_batch(param_batch=pb, obs=obs)
        elif self.eq_type == 'statio_PDE':
            b = E.statio_batch(self.d, brows=brows, border=border, param_batch=pb, obs=obs)
        else:
            b = E.nonstatio_batch(self.d, brows=brows, border=border, param_batch=pb, obs=obs)
        return freeze(b)

    def evaluate(self, param_keys=()):
        return freeze(self.loss).evaluate(freeze(self.params), self.batch(param_keys))

    def expected(self, param_keys=()):
        """per-term reference: dyn = sum_e w_e Mean(sum_c R_ec^2); others = sum_u w_u * (single-network term of u)"""
        out = {}
        rows = "B"
        acc = Poly()
        for e in self.equations if 'dyn' in self.terms else ():
            eqf = self.dyn[e].fields['equation']
            w = self.wspec['dyn_loss'][0][e]
            pd = self.params
            if param_keys:
                eq = dict(pd.fields['eq_params'])
                for k in param_keys:
                    eq[k] = AT((1,), np.array([Poly.atom(('P', k, (), frozenset({rows}), False))], dtype=object))
                pd = pd.replace_fields({'eq_params': eq})
            if self.net_kind in ('PINN', 'HYPERPINN'):
                R = eqf(*row_point(self.eq_type, self.d), self.u_dict, pd)
                s = weighted_sq_sum(1, R)
                acc = acc + w * mean_over((rows,), prepend(s, rows)).data[()]
            else:
                pts = (batch_x(self.d),) if self.eq_type == 'statio_PDE' else (batch_t(), batch_x(self.d))
                R = eqf(*pts, self.u_dict, pd)
                s = weighted_sq_sum(1, R)
                acc = acc + w * mean_over(tuple(s.axes), s).data[()]
        out['dyn_loss'] = acc
        key_of = {'initial_condition': 'ic', 'observations': 'obs', 'norm_loss': 'norm', 'boundary_loss': 'bc'}
        for n in self.names:
            if n == 'dyn_loss':
                continue
            acc = Poly()
            if key_of[n] in self.terms and not (n == 'initial_condition' and self.eq_type == 'statio_PDE'):
                for k in self.unknowns:
                    S = self.singles[k]
                    single_terms = tuple(t for t in self.terms if t != 'dyn')
                    Sk = self._single(k, single_terms, tuple(self.params.fields['eq_params'].keys()))
                    _, terms = Sk.loss.evaluate(freeze(Sk.params), self._single_batch(k, param_keys))
                    acc = acc + self.wspec[n][0][k] * to_at(terms[n]).data[()]
            out[n] = acc
        return out

    def _single_batch(self, k, param_keys):
        b = self.batch(param_keys)
        obs = b.fields.get('obs_batch_dict')
        return b.replace_fields({'obs_batch_dict': obs[k] if obs is not None else None})
