"""AST interpreter over abstract values + object model of the analysed package.

Nothing from /repo is imported: modules are parsed with `ast` and interpreted here.  External
libraries (jax, jax.numpy, equinox, optax, functools, dataclasses, ...) are replaced by the models in
`extern.py`.  Unknown constructs raise `Top` (INCONCLUSIVE).
"""
from __future__ import annotations

import ast
import os
import builtins as _bi
from fractions import Fraction

import numpy as np

from .alg import Top, Finding, Poly, AT, Sym, SymDim, Pred, as_pred, lift, _dim
from . import pytree


class Ret(Exception):
    def __init__(self, v):
        self.v = v


class AbstractRaise(Exception):
    """a `raise` statement of the analysed code was reached (with the evaluated exception)"""

    def __init__(self, exc, node=None, where=None):
        super().__init__(repr(exc))
        self.exc, self.node, self.where = exc, node, where


class Env:
    __slots__ = ("local", "parent", "module")

    def __init__(self, parent=None, module=None):
        self.local, self.parent = {}, parent
        self.module = module if module is not None else (parent.module if parent else None)

    def get(self, k):
        e = self
        while e is not None:
            if k in e.local:
                v = e.local[k]
                if isinstance(v, Poison):
                    raise Top(f"name {k}: {v.why}")
                return v
            e = e.parent
        raise UnboundName(k)

    def has(self, k):
        e = self
        while e is not None:
            if k in e.local:
                return True
            e = e.parent
        return False

    def set(self, k, v):
        self.local[k] = v


class UnboundName(Exception):
    pass


class Poison:
    def __init__(self, why):
        self.why = why


class NS:
    """namespace of external models"""

    def __init__(self, _name="ns", **k):
        self.__dict__.update(k)
        self._name = _name

    def __getattr__(self, k):
        if k.startswith('__'):
            raise AttributeError(k)
        raise Top(f"external name {self._name}.{k} has no model")


# ======================================================================================
# functions
# ======================================================================================
class Closure:
    def __init__(self, node, env, it, name=None, defcls=None):
        self.node, self.env, self.it, self.name = node, env, it, name or getattr(node, 'name', '<lambda>')
        self.defcls = defcls
        self.__name__ = self.name
        a = node.args
        self.param_names = [x.arg for x in a.posonlyargs + a.args]
        self._locals = None
        self._default_values = {}

    def local_names(self):
        """names bound anywhere in the body (Python scoping: these are locals)"""
        if self._locals is None:
            s = set()
            if not isinstance(self.node, ast.Lambda):
                for st in self.node.body:
                    _collect_bound(st, s)
            self._locals = s
        return self._locals

    def __call__(self, *args, **kw):
        it = self.it
        a = self.node.args
        env = Env(self.env)
        if self.defcls is not None:
            env.set('__class__', self.defcls)
        names = self.param_names
        defaults = a.defaults
        if len(args) > len(names) and a.vararg is None:
            raise AbstractRaise(TypeError(f"{self.name}() takes {len(names)} positional arguments but {len(args)} were given"))
        for n, v in zip(names, args):
            env.set(n, v)
        if a.vararg is not None:
            env.set(a.vararg.arg, tuple(args[len(names):]))
        kwonly = [x.arg for x in a.kwonlyargs]
        extra = {}
        for k, v in kw.items():
            if k in names or k in kwonly:
                if k in env.local and k in names[:len(args)]:
                    raise AbstractRaise(TypeError(f"{self.name}() got multiple values for argument {k}"))
                env.set(k, v)
            elif a.kwarg is not None:
                extra[k] = v
            else:
                raise AbstractRaise(TypeError(f"{self.name}() got an unexpected keyword argument {k!r}"))
        if a.kwarg is not None:
            env.set(a.kwarg.arg, extra)
        # Python evaluates default values ONCE, when the function is defined: the same object is handed to every call (a
        # mutable default that is written to is state shared between calls). They are evaluated on first use here and cached.
        dv = self._default_values
        for n, dnode in zip(names[len(names) - len(defaults):], defaults):
            if n not in env.local:
                if n not in dv:
                    dv[n] = it.ev(dnode, self.env)
                env.set(n, dv[n])
        for n, dnode in zip(kwonly, a.kw_defaults):
            if n not in env.local and dnode is not None:
                if n not in dv:
                    dv[n] = it.ev(dnode, self.env)
                env.set(n, dv[n])
        for n in names + kwonly:
            if n not in env.local:
                raise AbstractRaise(TypeError(f"{self.name}() missing required argument {n!r}"))
        if isinstance(self.node, ast.Lambda):
            return it.ev(self.node.body, env)
        env.local.setdefault('__locals__', self.local_names())
        it.depth += 1
        if it.depth > 200:
            raise Top("call depth")
        try:
            it.call_trace.append(self.name)
            for st in self.node.body:
                it.stmt(st, env)
        except Ret as r:
            return r.v
        finally:
            it.depth -= 1
            it.call_trace.pop()
        return None

    def __repr__(self):
        return f"<fn {self.name}>"


def _collect_bound(st, s):
    for n in ast.walk(st):
        if isinstance(n, ast.Name) and isinstance(n.ctx, (ast.Store, ast.Del)):
            s.add(n.id)
        elif isinstance(n, (ast.FunctionDef, ast.ClassDef)):
            s.add(n.name)
        elif isinstance(n, ast.alias):
            s.add((n.asname or n.name).split('.')[0])


class BoundMethod:
    def __init__(self, obj, fn):
        self.obj, self.fn = obj, fn
        self.__name__ = getattr(fn, '__name__', 'method')

    def __call__(self, *a, **k):
        return self.fn(self.obj, *a, **k)

    def __eq__(self, o):
        return isinstance(o, BoundMethod) and self.obj is o.obj and self.fn is o.fn

    def __hash__(self):
        return hash((id(self.obj), id(self.fn)))

    def __repr__(self):
        return f"<bound {self.__name__} of {self.obj!r}>"


class ClassMethodW:
    def __init__(self, fn): self.fn = fn


class StaticMethodW:
    def __init__(self, fn): self.fn = fn


class PropertyW:
    def __init__(self, fn): self.fn = fn


# ======================================================================================
# classes / instances
# ======================================================================================
class FieldSpec:
    MISSING = object()

    def __init__(self, default=MISSING, default_factory=MISSING, static=False, init=True, kw_only=False,
                 converter=None, **other):
        self.default, self.default_factory = default, default_factory
        self.static, self.init, self.kw_only, self.converter = bool(static), bool(init), bool(kw_only), converter
        self.name = None
        self.initvar = False
        self.annotation = None

    def __repr__(self):
        return f"Field({self.name}, static={self.static}, init={self.init}, kw_only={self.kw_only})"


class ExternalClass:
    """stand-in for an external class used as base / isinstance target"""

    def __init__(self, name, pytypes=()):
        self.name, self.pytypes = name, tuple(pytypes)
        self.__name__ = name

    def __repr__(self):
        return f"<ext class {self.name}>"

    def __getitem__(self, i):
        return self

    def __or__(self, o): return self
    def __ror__(self, o): return self

    def __call__(self, *a, **k):
        raise Top(f"construction of external class {self.name}")


class ClassModel:
    def __init__(self, node, env, it, modname):
        self.node, self.env, self.it, self.modname = node, env, it, modname
        self.name = node.name
        self.__name__ = node.name
        self.bases = []
        for b in node.bases:
            try:
                self.bases.append(it.ev(b, env))
            except UnboundName as e:
                raise Top(f"base class {ast.unparse(b)} of {self.name}")
        self.attrs = {}        # class attributes: methods, class vars
        self.own_fields = []   # FieldSpec in declaration order
        self._build()

    def _build(self):
        it, env = self.it, Env(self.env)
        for st in self.node.body:
            if isinstance(st, ast.FunctionDef):
                fn = Closure(st, self.env, it, f"{self.name}.{st.name}", defcls=self)
                val = fn
                for d in reversed(st.decorator_list):
                    dec = it.ev(d, self.env)
                    val = dec(val)
                self.attrs[st.name] = val
            elif isinstance(st, ast.AnnAssign) and isinstance(st.target, ast.Name):
                ann = ast.unparse(st.annotation)
                name = st.target.id
                if 'ClassVar' in ann:
                    if st.value is not None:
                        self.attrs[name] = it.ev(st.value, env)
                    continue
                fs = None
                if st.value is not None:
                    v = it.ev(st.value, env)
                    fs = v if isinstance(v, FieldSpec) else FieldSpec(default=v)
                else:
                    fs = FieldSpec()
                fs.name = name
                fs.annotation = ann
                fs.initvar = ann.startswith('InitVar')
                self.own_fields = [f for f in self.own_fields if f.name != name] + [fs]
            elif isinstance(st, ast.Assign) and len(st.targets) == 1 and isinstance(st.targets[0], ast.Name):
                try:
                    self.attrs[st.targets[0].id] = it.ev(st.value, env)
                except Top as e:
                    self.attrs[st.targets[0].id] = Poison(str(e))
            elif isinstance(st, ast.Expr) and isinstance(st.value, ast.Constant):
                continue
            elif isinstance(st, ast.Pass):
                continue
            else:
                raise Top(f"class body statement {type(st).__name__} in {self.name}")

    # ---- hierarchy
    def mro(self):
        out = [self]
        for b in self.bases:
            if isinstance(b, ClassModel):
                for c in b.mro():
                    if c not in out:
                        out.append(c)
        # C3 is not needed for the single-inheritance chains of this package, but keep derived-before-base
        return out

    def is_subclass_of(self, other):
        if isinstance(other, ClassModel):
            return other in self.mro()
        if isinstance(other, ExternalClass):
            for c in self.mro():
                if any(b is other for b in c.bases):
                    return True
        return False

    def all_fields(self):
        """dataclass field order: base fields first, redefinitions keep their first position"""
        order, spec = [], {}
        for c in reversed(self.mro()):
            for f in c.own_fields:
                if f.name not in spec:
                    order.append(f.name)
                spec[f.name] = f
        return [spec[n] for n in order]

    def field(self, name):
        for f in self.all_fields():
            if f.name == name:
                return f
        return None

    def lookup(self, name, start_after=None):
        m = self.mro()
        if start_after is not None:
            m = m[m.index(start_after) + 1:]
        for c in m:
            if name in c.attrs:
                v = c.attrs[name]
                if isinstance(v, Poison):
                    raise Top(f"class attribute {c.name}.{name}: {v.why}")
                return v, c
        return None, None

    def __repr__(self):
        return f"<class {self.name}>"

    def __or__(self, o): return self      # typing unions in annotations evaluated at runtime
    def __ror__(self, o): return self

    def __getattr__(self, k):
        if k.startswith('__') and k.endswith('__'):
            raise AttributeError(k)
        return get_attr(self, k)

    # ---- construction
    def is_module(self):
        """an equinox Module (frozen dataclass) as opposed to a plain Python class"""
        return any(isinstance(b, ExternalClass) and b.name == 'eqx.Module' for c in self.mro() for b in c.bases)

    def __call__(self, *args, **kw):
        fields = self.all_fields()
        inst = Inst(self, {})
        inst._mutable = True
        init, _ = self.lookup('__init__')
        if init is not None:
            # a hand-written constructor: a plain class stays mutable afterwards, a Module is frozen once __init__ returns
            r = init(inst, *args, **kw)
            if r is not None:
                raise AbstractRaise(TypeError(f"__init__() should return None, not {type(r).__name__!r}"))
            inst._mutable = not self.is_module()
            return inst
        if not fields and not self.is_module():
            if args or kw:
                raise AbstractRaise(TypeError(f"{self.name}() takes no arguments"))
            return inst                       # plain class without constructor: mutable, no fields
        pos = [f for f in fields if f.init and not f.kw_only]
        if len(args) > len(pos):
            raise AbstractRaise(TypeError(f"{self.name}() takes {len(pos)} positional arguments but {len(args)} were given"))
        given = {}
        for f, v in zip(pos, args):
            given[f.name] = v
        for k, v in kw.items():
            f = self.field(k)
            if f is None or not f.init:
                raise AbstractRaise(TypeError(f"{self.name}() got an unexpected keyword argument {k!r}"))
            if k in given:
                raise AbstractRaise(TypeError(f"{self.name}() got multiple values for argument {k!r}"))
            given[k] = v
        initvars = {}
        for f in fields:
            if not f.init:
                continue
            if f.name in given:
                v = given[f.name]
            elif f.default is not FieldSpec.MISSING:
                v = f.default
            elif f.default_factory is not FieldSpec.MISSING:
                v = f.default_factory()
            else:
                raise AbstractRaise(TypeError(f"{self.name}() missing required argument {f.name!r}"))
            if f.converter is not None:
                v = f.converter(v)
            if f.initvar:
                initvars[f.name] = v
            else:
                inst.fields[f.name] = v
        post, _ = self.lookup('__post_init__')
        if post is not None:
            post(inst, **initvars)
        inst._mutable = False
        return inst

    def make(self, **attrs):
        """raw abstract instance (no __post_init__)"""
        return Inst(self, dict(attrs))


class Inst:
    def __init__(self, cls, fields):
        object.__setattr__(self, 'cls', cls)
        object.__setattr__(self, 'fields', fields)
        object.__setattr__(self, '_mutable', False)

    def dynamic_field_names(self):
        return [f.name for f in self.cls.all_fields() if not f.static and not f.initvar and f.name in self.fields]

    def replace_fields(self, new):
        f = dict(self.fields)
        f.update(new)
        return Inst(self.cls, f)

    def __getattr__(self, k):
        if k.startswith('__') and k.endswith('__') and k not in ('__call__',):
            raise AttributeError(k)
        return get_attr(self, k)

    def __setattr__(self, k, v):
        if k == '_mutable':
            object.__setattr__(self, k, v)
            return
        if not self._mutable:
            raise Finding(f"in-place assignment to field {k!r} of an immutable module {self.cls.name}")
        self.fields[k] = v

    def __call__(self, *a, **k):
        return get_attr(self, '__call__')(*a, **k)

    def __repr__(self):
        return f"{self.cls.name}({', '.join(f'{k}={v!r}' for k, v in self.fields.items())})"


class SuperProxy:
    def __init__(self, inst, after):
        self.inst, self.after = inst, after


def get_attr(obj, name):
    if isinstance(obj, Inst):
        if name in obj.fields:
            return obj.fields[name]
        v, c = obj.cls.lookup(name)
        if c is None:
            if name == '__class__':
                return obj.cls
            raise AttributeError(f"{obj.cls.name} has no attribute {name}")
        return _bind(v, obj, obj.cls)
    if isinstance(obj, SuperProxy):
        v, c = obj.inst.cls.lookup(name, start_after=obj.after)
        if c is None:
            if name in ('__init__', '__post_init__'):
                return lambda *a, **k: None
            raise AttributeError(f"super() has no attribute {name}")
        return _bind(v, obj.inst, obj.inst.cls)
    if isinstance(obj, ClassModel):
        if name == '__name__':
            return obj.name
        v, c = obj.lookup(name)
        if c is None:
            raise AttributeError(f"class {obj.name} has no attribute {name}")
        if isinstance(v, ClassMethodW):
            return BoundMethod(obj, v.fn)
        if isinstance(v, StaticMethodW):
            return v.fn
        return v
    if isinstance(obj, PathProxy):
        return PathProxy(obj.path + (('attr', name),))
    return getattr(obj, name)


def _bind(v, inst, cls):
    if isinstance(v, ClassMethodW):
        return BoundMethod(cls, v.fn)
    if isinstance(v, StaticMethodW):
        return v.fn
    if isinstance(v, PropertyW):
        return v.fn(inst)
    if isinstance(v, Closure) or getattr(v, '_is_method_wrapper', False):
        return BoundMethod(inst, v)
    if callable(v) and isinstance(v, (Closure,)):
        return BoundMethod(inst, v)
    return v


class PathProxy:
    """records the access path of an eqx.tree_at selector"""

    def __init__(self, path=()):
        self.path = path

    def __getitem__(self, k):
        return PathProxy(self.path + (('item', k),))

    def __getattr__(self, k):
        if k.startswith('__'):
            raise AttributeError(k)
        return PathProxy(self.path + (('attr', k),))


def set_path(obj, path, value):
    if not path:
        return value
    (kind, key), rest = path[0], path[1:]
    if kind == 'attr':
        if isinstance(obj, Inst):
            if key not in obj.fields and obj.cls.field(key) is None:
                raise Finding(f"tree_at selects a non-existent field {key!r} of {obj.cls.name}")
            return obj.replace_fields({key: set_path(obj.fields.get(key), rest, value)})
        raise Top(f"tree_at attribute path on {type(obj).__name__}")
    if isinstance(obj, dict):
        d = dict(obj)
        d[key] = set_path(obj[key], rest, value)
        return d
    if isinstance(obj, (list, tuple)):
        l = list(obj)
        l[_dim(key)] = set_path(obj[_dim(key)], rest, value)
        return type(obj)(l) if not hasattr(obj, '_fields') else type(obj)(*l)
    raise Top(f"tree_at item path on {type(obj).__name__}")


def get_path(obj, path):
    for kind, key in path:
        obj = get_attr(obj, key) if kind == 'attr' else obj[key]
    return obj


# ======================================================================================
# interpreter
# ======================================================================================
SAFE_ATTR_TYPES = (dict, str, list, tuple, set, frozenset, slice, range, int, float, type({}.keys()), type({}.values()),
                   type({}.items()), Exception)


class Interp:
    def __init__(self):
        self.depth = 0
        self.call_trace = []
        self.hooks = {}      # optional observers: 'call' -> fn(node, func, args, kw)
        self.cur_node = None

    # ---- statements
    def stmt(self, st, env):
        self.cur_node = st
        m = getattr(self, "st_" + type(st).__name__, None)
        if m is None:
            raise Top("statement " + type(st).__name__)
        return m(st, env)

    def block(self, body, env):
        for s in body:
            self.stmt(s, env)

    def st_Expr(self, st, env):
        if not isinstance(st.value, ast.Constant):
            self.ev(st.value, env)

    def st_Assign(self, st, env):
        v = self.ev(st.value, env)
        for t in st.targets:
            self.bind(t, v, env)

    def st_AnnAssign(self, st, env):
        if st.value is not None:
            self.bind(st.target, self.ev(st.value, env), env)

    def st_AugAssign(self, st, env):
        t = st.target
        load = ast.copy_location(_as_load(t), t)
        cur = self.ev(load, env)
        rhs = self.ev(st.value, env)
        # Python mutates containers IN PLACE under an augmented assignment (d |= {...}, l += [...], s |= {...}): every alias
        # of the object sees the change
        if isinstance(cur, dict) and isinstance(st.op, ast.BitOr) and isinstance(rhs, dict):
            if isinstance(cur, FrozenDict):
                raise Finding("in-place `|=` on a dictionary that belongs to an argument")
            cur.update(rhs)
            self.bind(t, cur, env)
            return
        if isinstance(cur, list) and isinstance(st.op, ast.Add) and isinstance(rhs, (list, tuple)):
            if isinstance(cur, FrozenList):
                raise Finding("in-place `+=` on a list that belongs to an argument")
            cur.extend(rhs)
            self.bind(t, cur, env)
            return
        if isinstance(cur, set) and isinstance(st.op, (ast.BitOr, ast.BitAnd, ast.Sub)) and isinstance(rhs, (set, frozenset)):
            if isinstance(st.op, ast.BitOr): cur |= rhs
            elif isinstance(st.op, ast.BitAnd): cur &= rhs
            else: cur -= rhs
            self.bind(t, cur, env)
            return
        new = self.binop(type(st.op), cur, rhs)
        self.bind(t, new, env)

    def st_Return(self, st, env):
        raise Ret(self.ev(st.value, env) if st.value is not None else None)

    def st_If(self, st, env):
        c = self.truth(self.ev(st.test, env), st.test)
        self.block(st.body if c else st.orelse, env)

    def truth(self, c, node=None):
        if isinstance(c, (bool, np.bool_)):
            return bool(c)
        if c is None:
            return False
        if isinstance(c, (int, float, str, tuple, list, dict, set, frozenset, range, slice, bytes)) or c is Ellipsis:
            return bool(c)
        if isinstance(c, Poly) and c.is_const():
            return c.cval() != 0
        if isinstance(c, AT) and c.axes == () and c.data[()].is_const():
            return c.data[()].cval() != 0
        if isinstance(c, (Inst, ClassModel, Closure, BoundMethod, ExternalClass)) or callable(c):
            return True
        src = ast.unparse(node)[:80] if node is not None else "?"
        raise Top(f"branch on a non-concrete condition `{src}` -> {str(c)[:80]}")

    def st_FunctionDef(self, st, env):
        fn = Closure(st, env, self, st.name, defcls=env.local.get('__class__') if False else _enclosing_class(env))
        val = fn
        for d in reversed(st.decorator_list):
            val = self.ev(d, env)(val)
        env.set(st.name, val)

    def st_For(self, st, env):
        itv = self.ev(st.iter, env)
        for v in self.iterate(itv):
            self.bind(st.target, v, env)
            try:
                self.block(st.body, env)
            except _Break:
                break
            except _Continue:
                continue
        else:
            self.block(st.orelse, env)

    def st_While(self, st, env):
        n = 0
        while self.truth(self.ev(st.test, env), st.test):
            n += 1
            if n > 10000:
                raise Top("while loop bound")
            try:
                self.block(st.body, env)
            except _Break:
                break
            except _Continue:
                continue

    def st_Break(self, st, env): raise _Break()
    def st_Continue(self, st, env): raise _Continue()
    def st_Pass(self, st, env): pass

    def st_Raise(self, st, env):
        if st.exc is None:
            raise Top("bare raise")
        exc = self.ev(st.exc, env)
        raise AbstractRaise(exc, st, list(self.call_trace))

    def st_Assert(self, st, env):
        try:
            c = self.ev(st.test, env)
            ok = self.truth(c, st.test)
        except Top:
            return
        if not ok:
            raise AbstractRaise(AssertionError(ast.unparse(st.test)), st, list(self.call_trace))

    def st_With(self, st, env):
        for item in st.items:
            v = self.ev(item.context_expr, env)
            if item.optional_vars is not None:
                self.bind(item.optional_vars, v, env)
        self.block(st.body, env)

    def st_Try(self, st, env):
        try:
            self.block(st.body, env)
        except (Ret, Top, Finding, _Break, _Continue):
            raise
        except AbstractRaise as ar:
            self._handle(st, env, ar.exc, ar)
        except (KeyError, IndexError, AttributeError, TypeError, ValueError, UnboundName) as e:
            if isinstance(e, UnboundName):
                raise
            self._handle(st, env, e, e)
        else:
            self.block(st.orelse, env)
        finally:
            if st.finalbody:
                self.block(st.finalbody, env)

    def _handle(self, st, env, exc, original):
        for h in st.handlers:
            if h.type is None:
                match = True
            else:
                t = self.ev(h.type, env)
                ts = t if isinstance(t, tuple) else (t,)
                match = any(isinstance(x, type) and isinstance(exc, x) for x in ts)
            if match:
                if h.name:
                    env.set(h.name, exc)
                self.block(h.body, env)
                return
        raise original

    def st_Import(self, st, env):
        for a in st.names:
            mod = self.world.import_module(a.name, env.module)
            if a.asname:
                env.set(a.asname, mod)
            else:
                top = a.name.split('.')[0]
                env.set(top, self.world.import_module(top, env.module))

    def st_ImportFrom(self, st, env):
        self.world.import_from(st, env)

    def st_Global(self, st, env): raise Top("global statement")
    def st_Nonlocal(self, st, env): raise Top("nonlocal statement")

    def st_Delete(self, st, env):
        for t in st.targets:
            if isinstance(t, ast.Subscript):
                obj = self.ev(t.value, env)
                self.check_mutation(obj, f"del on `{ast.unparse(t)}`")
                del obj[self.ev(t.slice, env)]
            else:
                raise Top("del statement")

    def st_ClassDef(self, st, env):
        env.set(st.name, ClassModel(st, env, self, env.module.name if env.module else "?"))

    # ---- structural pattern matching (PEP 634): the first case whose pattern matches and whose guard holds is executed
    def st_Match(self, st, env):
        subj = self.ev(st.subject, env)
        for case in st.cases:
            binds = {}
            if not self.match_pattern(case.pattern, subj, env, binds):
                continue
            for k, v in binds.items():
                env.set(k, v)
            if case.guard is not None and not self.truth(self.ev(case.guard, env), case.guard):
                continue
            self.block(case.body, env)
            return

    def isinstance_(self, v, cls):
        return self.world.builtins['isinstance'](v, cls)

    def match_pattern(self, p, subj, env, binds):
        if isinstance(p, ast.MatchValue):
            r = self._eq(subj, self.ev(p.value, env))
            if isinstance(r, Pred):
                if r.kind in ('true', 'false'):
                    return r.kind == 'true'
                raise Top(f"match on a non-concrete subject `{ast.unparse(p.value)}`")
            return bool(r)
        if isinstance(p, ast.MatchSingleton):
            return subj is p.value
        if isinstance(p, ast.MatchAs):
            if p.pattern is not None and not self.match_pattern(p.pattern, subj, env, binds):
                return False
            if p.name is not None:
                binds[p.name] = subj
            return True
        if isinstance(p, ast.MatchOr):
            for alt in p.patterns:
                b = {}
                if self.match_pattern(alt, subj, env, b):
                    binds.update(b)
                    return True
            return False
        if isinstance(p, ast.MatchClass):
            cls = self.ev(p.cls, env)
            if not self.isinstance_(subj, cls):
                return False
            if p.patterns:
                names = None
                if isinstance(cls, ClassModel):
                    names, _ = cls.lookup('__match_args__')
                    if names is None:
                        names = tuple(f.name for f in cls.all_fields() if f.init and not f.kw_only)
                elif cls in (int, float, str, bool, tuple, list, dict, set, frozenset, bytes) and len(p.patterns) == 1:
                    return self.match_pattern(p.patterns[0], subj, env, binds)
                if names is None or len(p.patterns) > len(names):
                    raise Top(f"positional class pattern on {cls!r}")
                for sub, n in zip(p.patterns, names):
                    if not self.match_pattern(sub, self.getattr(subj, n), env, binds):
                        return False
            for n, sub in zip(p.kwd_attrs, p.kwd_patterns):
                try:
                    v = self.getattr(subj, n)
                except AttributeError:
                    return False
                if not self.match_pattern(sub, v, env, binds):
                    return False
            return True
        if isinstance(p, ast.MatchSequence):
            if not isinstance(subj, (tuple, list)):
                if isinstance(subj, (str, bytes, dict, set, frozenset, int, float, bool, Inst, ClassModel)) or subj is None:
                    return False
                raise Top(f"sequence pattern on {type(subj).__name__}")
            vals = list(subj)
            star = [i for i, e in enumerate(p.patterns) if isinstance(e, ast.MatchStar)]
            if not star:
                if len(vals) != len(p.patterns):
                    return False
                return all(self.match_pattern(sp, v, env, binds) for sp, v in zip(p.patterns, vals))
            i = star[0]
            n_after = len(p.patterns) - i - 1
            if len(vals) < len(p.patterns) - 1:
                return False
            head, mid, tail = vals[:i], vals[i:len(vals) - n_after], vals[len(vals) - n_after:]
            if not all(self.match_pattern(sp, v, env, binds) for sp, v in zip(p.patterns[:i], head)):
                return False
            if p.patterns[i].name is not None:
                binds[p.patterns[i].name] = list(mid)
            return all(self.match_pattern(sp, v, env, binds) for sp, v in zip(p.patterns[i + 1:], tail))
        if isinstance(p, ast.MatchMapping):
            if not isinstance(subj, dict):
                return False
            seen = []
            for k, sp in zip(p.keys, p.patterns):
                kv = self.ev(k, env)
                if kv not in subj:
                    return False
                seen.append(kv)
                if not self.match_pattern(sp, subj[kv], env, binds):
                    return False
            if p.rest is not None:
                binds[p.rest] = {k: v for k, v in subj.items() if k not in seen}
            return True
        raise Top("match pattern " + type(p).__name__)

    # ---- binding
    def bind(self, t, v, env):
        if isinstance(t, ast.Name):
            env.set(t.id, v)
        elif isinstance(t, (ast.Tuple, ast.List)):
            vals = list(self.iterate(v))
            star = [i for i, e in enumerate(t.elts) if isinstance(e, ast.Starred)]
            if star:
                i = star[0]
                n_after = len(t.elts) - i - 1
                if len(vals) < len(t.elts) - 1:
                    raise Finding(f"unpack: not enough values for `{ast.unparse(t)}`")
                head, mid, tail = vals[:i], vals[i:len(vals) - n_after], vals[len(vals) - n_after:]
                for a, b in zip(t.elts[:i], head):
                    self.bind(a, b, env)
                self.bind(t.elts[i].value, list(mid), env)
                for a, b in zip(t.elts[i + 1:], tail):
                    self.bind(a, b, env)
                return
            if len(vals) != len(t.elts):
                raise Finding(f"unpack arity: `{ast.unparse(t)}` has {len(t.elts)} targets, value has {len(vals)} elements")
            for a, b in zip(t.elts, vals):
                self.bind(a, b, env)
        elif isinstance(t, ast.Attribute):
            obj = self.ev(t.value, env)
            if isinstance(obj, Inst):
                if not obj._mutable:
                    raise Finding(f"in-place assignment `{ast.unparse(t)} = ...` on an immutable module")
                obj.fields[t.attr] = v
            else:
                raise Top(f"attribute assignment on {type(obj).__name__}")
        elif isinstance(t, ast.Subscript):
            obj = self.ev(t.value, env)
            key = self.ev(t.slice, env)
            self.check_mutation(obj, f"`{ast.unparse(t)} = ...`")
            if isinstance(obj, (dict, list)):
                if isinstance(obj, list):
                    key = _dim(key)
                obj[key] = v
            else:
                raise Top(f"subscript assignment on {type(obj).__name__}")
        elif isinstance(t, ast.Starred):
            self.bind(t.value, v, env)
        else:
            raise Top("bind target " + type(t).__name__)

    def check_mutation(self, obj, what):
        if isinstance(obj, FrozenDict) or isinstance(obj, FrozenList):
            raise Finding(f"in-place mutation of an argument: {what}")

    def iterate(self, v):
        if isinstance(v, (list, tuple, range, set, frozenset, str)) or isinstance(v, (type({}.keys()), type({}.values()), type({}.items()))):
            return v
        if isinstance(v, dict):
            return v
        if isinstance(v, AT):
            return list(v)
        if isinstance(v, (map, zip, enumerate, filter)) or hasattr(v, '__next__'):
            return v
        if isinstance(v, Sym):
            raise Top(f"iteration over opaque value {v}")
        if hasattr(v, '__iter__'):
            return v
        raise Top(f"iteration over {type(v).__name__}")

    # ---- expressions
    def ev(self, e, env):
        m = getattr(self, "ev_" + type(e).__name__, None)
        if m is None:
            raise Top("expression " + type(e).__name__)
        return m(e, env)

    def ev_Constant(self, e, env): return e.value

    def ev_Name(self, e, env):
        # Python scoping: a name bound anywhere in a function body is local to it; reading it before
        # any binding is an UnboundLocalError at run time (a positive finding, rule G1)
        e2 = env
        while e2 is not None:
            if e.id in e2.local:
                v = e2.local[e.id]
                if isinstance(v, Poison):
                    raise Top(f"name {e.id}: {v.why}")
                return v
            if '__locals__' in e2.local and e.id in e2.local['__locals__']:
                raise Finding(f"local variable {e.id!r} referenced before assignment "
                              f"(line {getattr(e, 'lineno', '?')}, in {self.call_trace[-1] if self.call_trace else '?'})")
            e2 = e2.parent
        raise Top(f"unbound name {e.id}")

    def ev_Lambda(self, e, env): return Closure(e, env, self, "<lambda>", defcls=_enclosing_class(env))

    def ev_Attribute(self, e, env):
        v = self.ev(e.value, env)
        if isinstance(v, Inst):
            try:
                return self.getattr(v, e.attr)
            except AttributeError as ex:
                # an object of the ANALYSED program lacks the attribute: that is the program's own AttributeError (objects of the
                # models lacking an attribute are a gap of the analyser and stay an analyser exception).  A field that the class
                # DECLARES but that an abstract instance built by a property module does not carry is a stale harness, not a
                # program error
                if v.cls.field(e.attr) is not None:
                    raise Top(f"the abstract {v.cls.name} instance of this rule was built without the declared field {e.attr!r}")
                raise AbstractRaise(AttributeError(f"'{v.cls.name}' object has no attribute '{e.attr}'"), e, list(self.call_trace))
        return self.getattr(v, e.attr)

    def getattr(self, v, attr):
        try:
            if isinstance(v, (Inst, ClassModel, SuperProxy, PathProxy)):
                return get_attr(v, attr)
            if isinstance(v, (NS,)):
                return getattr(v, attr)
            if isinstance(v, (AT, Poly, Sym, SymDim)) or hasattr(v, '_abstract_attrs'):
                return getattr(v, attr)
            if isinstance(v, SAFE_ATTR_TYPES) or isinstance(v, (Closure, BoundMethod, ExternalClass, FieldSpec)):
                return getattr(v, attr)
            if isinstance(v, ModuleEnv):
                return v.env.get(attr)
            if v is None:
                raise AttributeError(f"'NoneType' object has no attribute {attr!r}")
            if callable(v) and attr in ('__name__',):
                return getattr(v, attr)
            return getattr(v, attr)
        except AttributeError as ex:
            raise
        except UnboundName:
            raise AttributeError(attr)

    def ev_Call(self, e, env):
        if isinstance(e.func, ast.Name) and e.func.id == 'super' and not e.args:
            cls = _enclosing_class(env)
            try:
                self_obj = env.get(_first_param(env))
            except Exception:
                raise Top("super() outside a method")
            return SuperProxy(self_obj, cls)
        f = self.ev(e.func, env)
        args = []
        for a in e.args:
            if isinstance(a, ast.Starred):
                args.extend(self.iterate(self.ev(a.value, env)))
            else:
                args.append(self.ev(a, env))
        kw = {}
        for k in e.keywords:
            if k.arg is None:
                kw.update(self.ev(k.value, env))
            else:
                kw[k.arg] = self.ev(k.value, env)
        h = self.hooks.get('call')
        if h is not None:
            r = h(e, f, args, kw, env)
            if r is not None:
                return r[0]
        if f is None or not callable(f):
            raise AbstractRaise(TypeError(f"{type(f).__name__} object is not callable: `{ast.unparse(e.func)}`"))
        prev = self.cur_node
        try:
            return f(*args, **kw)
        finally:
            self.cur_node = prev

    def ev_Subscript(self, e, env):
        v = self.ev(e.value, env)
        i = self.ev(e.slice, env)
        return self.subscript(v, i)

    def subscript(self, v, i):
        if isinstance(v, (tuple, list, str, range)):
            if isinstance(i, (Poly, AT)):
                i = _dim(i)
            if isinstance(i, slice):
                i = slice(*[None if x is None else _dim(x) for x in (i.start, i.stop, i.step)])
            return v[i]
        if isinstance(v, dict):
            if isinstance(i, (Poly, AT)):
                i = _dim(i)
            return v[i]
        return v[i]

    def ev_Slice(self, e, env):
        f = lambda x: None if x is None else self.ev(x, env)
        return slice(f(e.lower), f(e.upper), f(e.step))

    def ev_Tuple(self, e, env):
        out = []
        for x in e.elts:
            if isinstance(x, ast.Starred):
                out.extend(self.iterate(self.ev(x.value, env)))
            else:
                out.append(self.ev(x, env))
        return tuple(out)

    def ev_List(self, e, env): return list(self.ev_Tuple(e, env))
    def ev_Set(self, e, env): return set(self.ev_Tuple(e, env))

    def ev_Dict(self, e, env):
        d = {}
        for k, v in zip(e.keys, e.values):
            if k is None:
                d.update(self.ev(v, env))
            else:
                d[self.ev(k, env)] = self.ev(v, env)
        return d

    def ev_BinOp(self, e, env):
        return self.binop(type(e.op), self.ev(e.left, env), self.ev(e.right, env))

    def binop(self, op, a, b):
        try:
            if op is ast.Add: return a + b
            if op is ast.Sub: return a - b
            if op is ast.Mult: return a * b
            if op is ast.Div: return a / b
            if op is ast.Pow: return a ** b
            if op is ast.FloorDiv: return a // b
            if op is ast.Mod: return a % b
            if op is ast.BitOr: return a | b
            if op is ast.BitAnd: return a & b
            if op is ast.MatMult:
                from .alg import jnp_matmul
                return jnp_matmul(a, b)
        except TypeError as ex:
            raise Top(f"arithmetic on {type(a).__name__} and {type(b).__name__}: {ex}")
        raise Top("binary operator " + op.__name__)

    def ev_UnaryOp(self, e, env):
        v = self.ev(e.operand, env)
        if isinstance(e.op, ast.USub): return -v
        if isinstance(e.op, ast.UAdd): return v
        if isinstance(e.op, ast.Not):
            if isinstance(v, Pred): return v.negate()
            return not self.truth(v, e.operand)
        if isinstance(e.op, ast.Invert):
            if isinstance(v, Pred): return v.negate()
            if isinstance(v, (bool, np.bool_)): return not v
            if isinstance(v, int): return ~v
            if isinstance(v, Sym): return Pred('sym', v).negate()
        raise Top("unary operator")

    def ev_BoolOp(self, e, env):
        is_and = isinstance(e.op, ast.And)
        last = None
        for sub in e.values:
            v = self.ev(sub, env)
            last = v
            if isinstance(v, Pred):
                # symbolic: evaluate the rest and combine
                rest = [self.ev(s, env) for s in e.values[e.values.index(sub) + 1:]]
                allv = [v] + rest
                return Pred.conj(allv) if is_and else _disj(allv)
            t = self.truth(v, sub)
            if is_and and not t: return v
            if not is_and and t: return v
        return last

    def ev_Compare(self, e, env):
        left = self.ev(e.left, env)
        result = True
        for op, rnode in zip(e.ops, e.comparators):
            right = self.ev(rnode, env)
            r = self.compare(type(op), left, right)
            if isinstance(r, list) and type(r).__name__ == 'BoolVector':
                if len(e.ops) != 1:
                    raise Top("chained comparison of vectors")
                return r                       # a vector of entry-wise comparisons
            if isinstance(r, Pred):
                result = r if result is True else Pred.conj([result, r])
            else:
                if not r:
                    return False
            left = right
        return result

    def compare(self, op, a, b):
        if op is ast.Is: return a is b or (a is None and b is None)
        if op is ast.IsNot: return not (a is b)
        if op is ast.In:
            if isinstance(b, Sym): raise Top("membership in an opaque value")
            return a in b
        if op is ast.NotIn: return a not in b
        if op in (ast.Eq, ast.NotEq):
            r = self._eq(a, b)
            if isinstance(r, Pred):
                return r if op is ast.Eq else r.negate()
            return r if op is ast.Eq else (not r)
        sym = {ast.Gt: '>', ast.Lt: '<', ast.GtE: '>=', ast.LtE: '<='}[op]
        if isinstance(a, SymDim) or isinstance(b, SymDim):
            # extents of row axes are "large": only comparisons against small literals are decided
            if isinstance(a, SymDim) and isinstance(b, (int, Poly)) and not isinstance(b, bool):
                if sym in ('>', '>='): return True
                return False
            raise Top("ordering on symbolic extents")
        if isinstance(a, (Poly, AT, Sym)) or isinstance(b, (Poly, AT, Sym)):
            for v_, other, flip in ((a, b, False), (b, a, True)):
                if isinstance(v_, AT) and len(v_.axes) == 1 and isinstance(v_.axes[0], int) and not (isinstance(other, AT) and other.axes != ()):
                    # a concrete vector against a scalar: the vector of entry-wise comparisons
                    from .extern import BoolVector
                    o_ = lift(other)
                    s_ = sym if not flip else {'>': '<', '<': '>', '>=': '<=', '<=': '>='}[sym]
                    return BoolVector([p_._cmp(o_, s_) for p_ in v_.entries()])
            pa, pb = lift(a), lift(b)
            return pa._cmp(pb, sym)
        try:
            return {'>': a > b, '<': a < b, '>=': a >= b, '<=': a <= b}[sym]
        except TypeError as ex:
            raise Top(f"comparison: {ex}")

    def _eq(self, a, b):
        if isinstance(a, SymDim) != isinstance(b, SymDim) and isinstance(a if not isinstance(a, SymDim) else b, (Poly, Sym)):
            sd, other = (a, b) if isinstance(a, SymDim) else (b, a)
            return self._eq(sd.poly(), other)
        if isinstance(a, (Poly, Sym)) or isinstance(b, (Poly, Sym)):
            try:
                pa, pb = lift(a), lift(b)
            except Top:
                return False
            if pa.is_const() and pb.is_const():
                return pa.cval() == pb.cval()
            if pa == pb:
                return True
            return Pred.compare(pa, pb, '==')
        if isinstance(a, AT) or isinstance(b, AT):
            if isinstance(a, AT) and a.axes == (): return self._eq(a.data[()], b)
            if isinstance(b, AT) and b.axes == (): return self._eq(a, b.data[()])
            raise Top("elementwise == on tensors")
        if isinstance(a, SymDim) or isinstance(b, SymDim):
            if isinstance(a, SymDim) and isinstance(b, SymDim):
                return a == b
            other = b if isinstance(a, SymDim) else a
            if isinstance(other, (Poly, Sym, AT)):
                sd = a if isinstance(a, SymDim) else b
                return self._eq(sd.poly(), other)
            return False
        if isinstance(a, tuple) and isinstance(b, tuple):
            if len(a) != len(b): return False
            res = [self._eq(x, y) for x, y in zip(a, b)]
            if any(r is False for r in res): return False
            ps = [r for r in res if isinstance(r, Pred)]
            if ps:
                return Pred.conj(ps)
            return True
        return a == b

    def ev_NamedExpr(self, e, env):
        v = self.ev(e.value, env)
        self.bind(e.target, v, env)
        return v

    def ev_IfExp(self, e, env):
        t = self.ev(e.test, env)
        if isinstance(t, Pred) and t.kind not in ('true', 'false'):
            # a conditional EXPRESSION on a symbolic condition: both alternatives are values, the result is their merge
            from .extern import merge_cond
            a, b = self.ev(e.body, env), self.ev(e.orelse, env)
            try:
                return merge_cond(t, a, b)
            except Top:
                pass
        c = self.truth(t, e.test)
        return self.ev(e.body if c else e.orelse, env)

    def ev_GeneratorExp(self, e, env): return self.comp(e, env)
    def ev_ListComp(self, e, env): return self.comp(e, env)
    def ev_SetComp(self, e, env): return set(self.comp(e, env))

    def ev_DictComp(self, e, env):
        out = {}
        for en in self._comp_envs(e.generators, env):
            out[self.ev(e.key, en)] = self.ev(e.value, en)
        return out

    def comp(self, e, env):
        return [self.ev(e.elt, en) for en in self._comp_envs(e.generators, env)]

    def _comp_envs(self, gens, env, scope=None, first=True):
        """Python semantics: a comprehension has ONE scope; its loop variables are rebound at every iteration, so a closure
        created in the element expression sees the last value (late binding)"""
        if scope is None:
            scope = Env(env)
        if not gens:
            yield scope
            return
        g = gens[0]
        # the first iterable is evaluated in the enclosing scope, the others in the comprehension's scope
        for v in self.iterate(self.ev(g.iter, env if first else scope)):
            self.bind(g.target, v, scope)
            if all(self.truth(self.ev(c, scope), c) for c in g.ifs):
                yield from self._comp_envs(gens[1:], env, scope, False)

    def ev_JoinedStr(self, e, env):
        out = []
        for v in e.values:
            if isinstance(v, ast.Constant):
                out.append(str(v.value))
            else:
                try:
                    x = self.ev(v.value, env)
                    if isinstance(x, (str, int, float)):
                        out.append(format(x))
                    else:
                        out.append("{" + type(x).__name__ + "}")
                except (Top, Finding, AbstractRaise, AttributeError, KeyError, IndexError, TypeError):
                    out.append("{?}")
        return "".join(out)

    def ev_Starred(self, e, env):
        raise Top("starred expression outside call/tuple")


class _Break(Exception):
    pass


class _Continue(Exception):
    pass


def _disj(vals):
    return Pred.disj(list(vals))


def _as_load(t):
    if isinstance(t, ast.Name): return ast.Name(id=t.id, ctx=ast.Load())
    if isinstance(t, ast.Attribute): return ast.Attribute(value=t.value, attr=t.attr, ctx=ast.Load())
    if isinstance(t, ast.Subscript): return ast.Subscript(value=t.value, slice=t.slice, ctx=ast.Load())
    raise Top("augmented assignment target")


def _enclosing_class(env):
    e = env
    while e is not None:
        if '__class__' in e.local:
            return e.local['__class__']
        e = e.parent
    return None


def _first_param(env):
    e = env
    while e is not None:
        if '__class__' in e.local:
            for k in e.local:
                if k not in ('__class__', '__locals__'):
                    return k
        e = e.parent
    raise KeyError


class FrozenDict(dict):
    """dict that belongs to an *argument* of the analysed entry point: writes are findings"""
    def _ro(self, *a, **k):
        raise Finding("in-place mutation of a dictionary that belongs to an argument")
    __setitem__ = __delitem__ = clear = pop = popitem = setdefault = update = _ro

    def __or__(self, o):
        return dict(self) | dict(o)

    def __ror__(self, o):
        return dict(o) | dict(self)


class FrozenList(list):
    def _ro(self, *a, **k):
        raise Finding("in-place mutation of a list that belongs to an argument")
    __setitem__ = __delitem__ = append = extend = insert = pop = remove = clear = sort = reverse = __iadd__ = _ro


def freeze(v):
    """deep-freeze the containers of an abstract argument"""
    if isinstance(v, dict):
        return FrozenDict({k: freeze(x) for k, x in v.items()})
    if isinstance(v, list):
        return FrozenList([freeze(x) for x in v])
    if isinstance(v, tuple) and not hasattr(v, '_fields'):
        return tuple(freeze(x) for x in v)
    if isinstance(v, Inst):
        return Inst(v.cls, {k: freeze(x) for k, x in v.fields.items()})
    return v


# ======================================================================================
# world: modules of the analysed package
# ======================================================================================
class ModuleEnv:
    def __init__(self, name, path, env, tree):
        self.name, self.path, self.env, self.tree = name, path, env, tree

    def __repr__(self):
        return f"<module {self.name}>"


class World:
    def __init__(self, repo="/repo", package="jinns", externals=None, builtins=None, overrides=None):
        self.repo, self.package = repo, package
        self.it = Interp()
        self.it.world = self
        self.modules = {}
        self.loading = set()
        self.externals = externals or {}
        self.builtins = builtins or {}
        self.overrides = overrides or {}    # (module, name) -> value replacing a package definition
        self.files = {}

    # ---- paths
    def _path(self, modname):
        rel = modname.replace('.', '/')
        for cand in (os.path.join(self.repo, rel + ".py"), os.path.join(self.repo, rel, "__init__.py")):
            if os.path.isfile(cand):
                return cand
        return None

    def is_package_module(self, modname):
        return modname == self.package or modname.startswith(self.package + ".")

    def module(self, modname):
        if modname in self.modules:
            return self.modules[modname]
        path = self._path(modname)
        if path is None:
            raise Top(f"module {modname} not found in the analysed tree")
        src = open(path).read()
        self.files[os.path.relpath(path, self.repo)] = src
        import warnings
        with warnings.catch_warnings():
            warnings.simplefilter('ignore')
            tree = ast.parse(src, filename=path)
        env = Env()
        env.local.update(self.builtins)
        m = ModuleEnv(modname, path, env, tree)
        env.module = m
        m.is_pkg = path.endswith("__init__.py")
        self.modules[modname] = m
        self.loading.add(modname)
        try:
            self._exec_module(m)
        finally:
            self.loading.discard(modname)
        return m

    def _exec_module(self, m):
        it, env = self.it, m.env
        env.set('__name__', m.name)
        env.set('TYPE_CHECKING', False)
        for st in m.tree.body:
            try:
                if isinstance(st, ast.FunctionDef):
                    if (m.name, st.name) in self.overrides:
                        env.set(st.name, self.overrides[(m.name, st.name)])
                        continue
                    it.st_FunctionDef(st, env)
                elif isinstance(st, ast.ClassDef):
                    if (m.name, st.name) in self.overrides:
                        env.set(st.name, self.overrides[(m.name, st.name)])
                        continue
                    it.st_ClassDef(st, env)
                elif isinstance(st, (ast.Import, ast.ImportFrom)):
                    it.stmt(st, env)
                    for a in st.names:          # an override may also replace a name the module imports
                        nm = a.asname or a.name
                        if (m.name, nm) in self.overrides:
                            env.set(nm, self.overrides[(m.name, nm)])
                elif isinstance(st, ast.If):
                    it.stmt(st, env)
                elif isinstance(st, (ast.Assign, ast.AnnAssign, ast.Expr)):
                    it.stmt(st, env)
                else:
                    raise Top(f"module-level statement {type(st).__name__}")
            except (Top, AbstractRaise, AttributeError, KeyError, TypeError) as ex:
                # poison the names this statement would have bound
                names = set()
                _collect_bound(st, names)
                for n in names:
                    env.set(n, Poison(f"definition failed in {m.name}: {ex}"))

    # ---- imports
    def import_module(self, name, from_module):
        if self.is_package_module(name):
            return self.module(name)
        if name in self.externals:
            return self.externals[name]
        top = name.split('.')[0]
        if top in self.externals:
            obj = self.externals[top]
            for part in name.split('.')[1:]:
                obj = getattr(obj, part)
            return obj
        return Poison(f"external module {name} has no model")

    def import_from(self, st, env):
        m = env.module
        if st.level:
            base = m.name.split('.')
            if not getattr(m, 'is_pkg', False):
                base = base[:-1]
            base = base[:len(base) - (st.level - 1)] if st.level > 1 else base
            modname = ".".join(base + ([st.module] if st.module else []))
        else:
            modname = st.module
        if modname == '__future__':
            return
        if self.is_package_module(modname):
            for a in st.names:
                if a.name == '*':
                    src = self.module(modname)
                    for k, v in src.env.local.items():
                        if not k.startswith('_') and k not in self.builtins:
                            env.set(k, v)
                    continue
                # submodule or attribute
                sub = modname + "." + a.name
                if self._path(sub) is not None:
                    env.set(a.asname or a.name, self.module(sub))
                    continue
                src = self.module(modname)
                if a.name in src.env.local:
                    env.set(a.asname or a.name, src.env.local[a.name])
                elif modname in self.loading:
                    env.set(a.asname or a.name, Poison(f"circular import of {a.name} from {modname}"))
                else:
                    env.set(a.asname or a.name, Poison(f"{modname} has no name {a.name}"))
            return
        ext = self.externals.get(modname)
        if ext is None:
            top = modname.split('.')[0]
            ext = self.externals.get(top)
            if ext is not None:
                try:
                    for part in modname.split('.')[1:]:
                        ext = getattr(ext, part)
                except Top:
                    ext = None
        for a in st.names:
            if a.name == '*':
                continue
            if ext is None:
                env.set(a.asname or a.name, Poison(f"external module {modname} has no model"))
            else:
                try:
                    env.set(a.asname or a.name, getattr(ext, a.name))
                except (Top, AttributeError):
                    env.set(a.asname or a.name, Poison(f"external name {modname}.{a.name} has no model"))

    # ---- convenience
    def get(self, modname, name):
        return self.module(modname).env.get(name)

    def find_function_node(self, modname, qualname):
        m = self.module(modname)
        parts = qualname.split('.')
        body = m.tree.body
        node = None
        for p in parts:
            node = next((s for s in body if isinstance(s, (ast.FunctionDef, ast.ClassDef)) and s.name == p), None)
            if node is None:
                return None
            body = node.body
        return node
