"""Checker self-test (thorough tier): single-site textual variants of the analysed sources on scratch copies.

`fire` variants are behaviour-changing slips that still parse: the property's check must report a VIOLATION.
`silent` variants are behaviour-preserving rewrites: the check must stay silent (exit 0).
A variant whose anchor text is absent from the current tree is skipped and listed.  Nothing is executed from the
scratch copies: they are only parsed by the checks.
"""
from __future__ import annotations

import os
import shutil
import subprocess
import sys
import tempfile
from concurrent.futures import ThreadPoolExecutor

OPS = "jinns/loss/_operators.py"
DYN = "jinns/loss/_DynamicLoss.py"
LU = "jinns/loss/_loss_utils.py"
BC = "jinns/loss/_boundary_conditions.py"
LODE = "jinns/loss/_LossODE.py"
LPDE = "jinns/loss/_LossPDE.py"
DG = "jinns/data/_DataGenerators.py"
DK = "jinns/parameters/_derivative_keys.py"
PRM = "jinns/parameters/_params.py"
SOLVE = "jinns/solver/_solve.py"
RAR = "jinns/solver/_rar.py"
VAL = "jinns/validation/_validation.py"
PINN = "jinns/utils/_pinn.py"
SPINN = "jinns/utils/_spinn.py"
HYP = "jinns/utils/_hyperpinn.py"
DLA = "jinns/loss/_DynamicLossAbstract.py"

# (property, kind, file, old, new, occurrence index)
VARIANTS = [
    # ---- C01
    ("C01", "fire", OPS, "return jnp.trace(jax.hessian(u_, argnums=1)(t, x))", "return jnp.trace(jax.hessian(u_, argnums=0)(t, x))", 0),
    ("C01", "fire", OPS, "du_dxi = grad(lambda x, params: u(x, params)[i], 0)(x, params)[i]", "du_dxi = grad(lambda x, params: u(x, params)[i], 0)(x, params)[0]", 0),
    ("C01", "fire", OPS, "ux(x) * duy_dx(x) + uy(x) * duy_dy(x),", "ux(x) * duy_dx(x) + uy(x) * dux_dy(x),", 0),
    ("C01", "silent", OPS, "    return jnp.sum(accu)\n", "    total = jnp.sum(accu)\n    return total\n", 0),
    ("C01", "silent", OPS, "ux(x) * dux_dx(x) + uy(x) * dux_dy(x),", "dux_dy(x) * uy(x) + dux_dx(x) * ux(x),", 0),
    # ---- C02
    ("C02", "fire", DYN, '                - params.eq_params["nu"] * d2u_dx2(t, x)\n            )', '                + params.eq_params["nu"] * d2u_dx2(t, x)\n            )', 0),
    ("C02", "fire", DYN, "return -du_dt + self.Tmax * (-order_1 + order_2)", "return self.Tmax * (-du_dt - order_1 + order_2)", 0),
    ("C02", "fire", DYN, '+ 1 / params_dict.eq_params["rho"] * jac_p[0, 1]', '+ 1 / params_dict.eq_params["rho"] * jac_p[0, 0]', 0),
    ("C02", "silent", DYN, '                u(t, x, params)[u.slice_solution] * du_dx(t, x)\n                - params.eq_params["nu"] * d2u_dx2(t, x)\n', '                -params.eq_params["nu"] * d2u_dx2(t, x)\n                + du_dx(t, x) * u(t, x, params)[u.slice_solution]\n', 0),
    ("C02", "fire", DYN, "lambda x: self.drift(t, _get_grid(x), params.eq_params)[None, ..., 0:1]", "lambda x: self.drift(t, x_grid, params.eq_params)[None, ..., 0:1]", 0),
    # ---- C03
    ("C03", "silent", LU, "mse_dyn_loss = jnp.mean(jnp.sum(loss_weight * residuals**2, axis=-1))", "_s = jnp.sum(loss_weight * residuals**2, axis=-1)\n        mse_dyn_loss = jnp.sum(_s) / _s.shape[0]", 0),
    ("C04", "fire", LPDE, "self.omega_boundary_dim[k] = jnp.s_[v : (v + 1) or None]", "self.omega_boundary_dim[k] = jnp.s_[v : v + 1]", 0),
    ("C10", "fire", PINN, "slice_solution = jnp.s_[slice_solution : (slice_solution + 1) or None]", "slice_solution = jnp.s_[slice_solution : slice_solution + 1]", 0),
    ("C17", "fire", RAR, "loss.u_dict.values() if isinstance(loss, SystemLossPDE) else (loss.u,)", "(loss.u,)", 0),
    ("C12", "silent", LPDE, "{**(batch.param_batch_dict or {}), **obs_eq_params}, params", "{**obs_eq_params, **(batch.param_batch_dict or {})}, params", 0),
    ("C03", "fire", LU, "mse_dyn_loss = jnp.mean(jnp.sum(loss_weight * residuals**2, axis=-1))", "mse_dyn_loss = jnp.mean(jnp.sum(loss_weight * residuals**2, axis=0))", 0),
    ("C03", "fire", LODE, "total_loss = mse_dyn_loss + mse_initial_condition + mse_observation_loss", "total_loss = mse_dyn_loss + mse_initial_condition", 0),
    ("C03", "fire", LPDE, "            mse_norm_loss = jnp.array(0.0)", "            mse_norm_loss = jnp.array(1.0)", 0),
    ("C03", "silent", LODE, "total_loss = mse_dyn_loss + mse_initial_condition + mse_observation_loss", "total_loss = mse_observation_loss + mse_dyn_loss + mse_initial_condition", 0),
    ("C03", "silent", LU, "mse_dyn_loss = jnp.mean(jnp.sum(loss_weight * residuals**2, axis=-1))", "mse_dyn_loss = jnp.mean(jnp.sum(residuals**2 * loss_weight, axis=-1))", 0),
    ("C03", "fire", DLA, "        res = evaluate(*new_args)\n        return res\n\n    def wrapper_pde_non_statio", "        res = evaluate(*args)\n        return res\n\n    def wrapper_pde_non_statio", 0),
    ("C03", "fire", LU, "if residuals.ndim == sum(b.shape[-1] for b in batches):", "if residuals.ndim == len(batches):", 0),
    ("C03", "silent", LU, "if residuals.ndim == sum(b.shape[-1] for b in batches):", "if sum(b.shape[-1] for b in batches) == residuals.ndim:", 0),
    # ---- C04
    ("C04", "fire", "jinns/utils/_utils.py", "if r.shape[-1] == shape[-1] or r.shape[-1] == 1:", "if r.shape[-1] == shape[-1]:", 0),
    ("C04", "silent", "jinns/utils/_utils.py", "if r.shape[-1] == shape[-1] or r.shape[-1] == 1:", "if r.shape[-1] == 1 or r.shape[-1] == shape[-1]:", 0),
    ("C04", "fire", LU, "        jax.tree_util.tree_leaves(b_losses_by_facet),\n        jnp.array(0.0),\n", "        jax.tree_util.tree_leaves(b_losses_by_facet),\n", 0),
    ("C04", "fire", BC, "n = jnp.array([[-1, 1, 0, 0], [0, 0, -1, 1]])", "n = jnp.array([[1, -1, 0, 0], [0, 0, -1, 1]])", 0),
    ("C04", "fire", BC, "    border_batch = border_batch[..., facet]\n\n    if isinstance(u, PINN):\n        vmap_in_axes_params", "    border_batch = border_batch[..., 0]\n\n    if isinstance(u, PINN):\n        vmap_in_axes_params", 0),
    ("C04", "fire", LU, 'facet_tree = {"xmin": 0, "xmax": 1, "ymin": 2, "ymax": 3}', 'facet_tree = {"xmin": 0, "xmax": 1, "ymin": 3, "ymax": 2}', 0),
    ("C04", "silent", BC, "n = jnp.array([[-1, 1, 0, 0], [0, 0, -1, 1]])", "n = jnp.array([[-1.0, 1.0, 0.0, 0.0], [0.0, 0.0, -1.0, 1.0]])", 0),
    # single-row batches, weights replaced after construction
    ("C03", "fire", LU, "        residuals = v_dyn_loss(*batches, params)\n        if residuals.ndim == 1:", "        residuals = jnp.squeeze(v_dyn_loss(*batches, params))\n        if residuals.ndim == 1:", 0),
    ("C03", "silent", LU, "        residuals = v_dyn_loss(*batches, params)\n        if residuals.ndim == 1:", "        residuals = jnp.asarray(v_dyn_loss(*batches, params))\n        if residuals.ndim == 1:", 0),
    ("C05", "fire", LU, "jnp.abs(jnp.mean(res, axis=(-2, -1)) * int_length - 1) ** 2", "jnp.abs(jnp.mean(res.squeeze(), axis=-1) * int_length - 1) ** 2", 0),
    ("C05", "silent", LU, "jnp.abs(jnp.mean(res, axis=(-2, -1)) * int_length - 1) ** 2", "jnp.abs(jnp.mean(res.squeeze(-1), axis=-1) * int_length - 1) ** 2", 0),
    ("C14", "fire", DG, "            t_ = t.reshape(new.temporal_batch_size, 1, 1)\n            t_ = jnp.repeat(t_, dx.shape[-1], axis=2)", "            t_ = jnp.resize(t, (new.temporal_batch_size, 1, dx.shape[-1]))", 0),
    ("C14", "silent", DG, "            t_ = t.reshape(new.temporal_batch_size, 1, 1)\n            t_ = jnp.repeat(t_, dx.shape[-1], axis=2)", "            t_ = jnp.repeat(t.reshape(new.temporal_batch_size, 1), dx.shape[-1], axis=1).reshape(new.temporal_batch_size, 1, dx.shape[-1])", 0),
    # well-meant additions (round 7)
    ("C16", "fire", DG, "    if rar_parameters is not None:\n        # Default p is None.", "    if rar_parameters is not None:\n        if 0 < n_start <= 1:\n            n_start = max(1, int(round(n_start * n)))\n        # Default p is None.", 0),
    ("C16", "silent", DG, "    if rar_parameters is not None:\n        # Default p is None.", "    if rar_parameters is not None:\n        if 0 < n_start < 1:\n            n_start = max(1, int(round(n_start * n)))\n        # Default p is None.", 0),
    ("C06", "fire", DK, "    if isinstance(params, Params):\n        # start with a params object with True everywhere.", "    if isinstance(params, (Params, ParamsDict)) and not params.eq_params:\n        return type(params)(nn_params=True, eq_params=params.eq_params)\n    if isinstance(params, Params):\n        # start with a params object with True everywhere.", 0),
    ("C10", "fire", SPINN, "            res = v_model(t=None, x=x)\n            return self.eval_nn(res)", "            res = v_model(t=None, x=x)\n            if self.d == 1:\n                return jnp.sum(res[:, 0], axis=-1, keepdims=True)\n            return self.eval_nn(res)", 0),
    ("C10", "silent", SPINN, "            res = v_model(t=None, x=x)\n            return self.eval_nn(res)", "            res = v_model(t=None, x=x)\n            out = self.eval_nn(res)\n            return out", 0),
    # ---- C05
    ("C05", "fire", LU, "jnp.abs(jnp.mean(res, axis=(-2, -1)) * int_length - 1) ** 2", "jnp.abs(jnp.mean(res, axis=(-2, -1)) - 1) ** 2 * int_length", 0),
    ("C05", "fire", LU, "lambda x, params: initial_condition_fun(x) - u(jnp.zeros((1,)), x, params),", "lambda x, params: initial_condition_fun(x) - u(jnp.ones((1,)), x, params),", 0),
    ("C05", "silent", LU, "mse_initial_condition = jnp.mean(jnp.sum(loss_weight * res**2, axis=-1))", "mse_initial_condition = jnp.mean(jnp.sum(res**2 * loss_weight, axis=-1))", 0),
    # ---- C06
    ("C06", "fire", LPDE, "_set_derivatives(params, self.derivative_keys.norm_loss)", "_set_derivatives(params, self.derivative_keys.boundary_loss)", 0),
    ("C06", "fire", DK, 'self.observations = _get_masked_parameters("nn_params", params)', 'self.observations = _get_masked_parameters("both", params)', 0),
    ("C06", "silent", LODE, "                _set_derivatives(params, self.derivative_keys.dyn_loss),", "                _set_derivatives(derivative_keys=self.derivative_keys.dyn_loss, params=params),", 0),
    # ---- C07 / C18 / C19
    ("C07", "fire", SOLVE, "OptimizationContainer(params, last_non_nan_params, opt_state),", "OptimizationContainer(last_non_nan_params, params, opt_state),", 0),
    ("C07", "fire", SOLVE, "updates, opt_state = optimizer.update(grads, opt_state, params)", "updates, opt_state = optimizer.update(grads, opt_state, last_non_nan_params)", 0),
    ("C07", "silent", SOLVE, "        i += 1\n", "        i = 1 + i\n", 0),
    ("C07", "silent", SOLVE, "OptimizationContainer(params, last_non_nan_params, opt_state),", "OptimizationContainer(params=params, opt_state=opt_state, last_non_nan_params=last_non_nan_params),", 0),
    ("C07", "fire", SOLVE, "batch_ini, data, param_data, obs_data = get_batch(data, param_data, obs_data)", "batch_ini, data, _, _ = get_batch(data, param_data, obs_data)", 0),
    ("C07", "silent", SOLVE, "batch_ini, data, param_data, obs_data = get_batch(data, param_data, obs_data)", "batch_ini, *gens = get_batch(data, param_data, obs_data)\n    data, param_data, obs_data = gens", 0),
    ("C18", "fire", "jinns/utils/_utils.py", "jax.tree_util.tree_map(lambda x: jnp.any(jnp.isnan(x)), pytree)", "jax.tree_util.tree_map(lambda x: ~jnp.all(jnp.isfinite(x)), pytree)", 0),
    ("C18", "fire", SOLVE, "        _check_nan_in_pytree(params),\n        lambda _: last_non_nan_params,\n        lambda _: params,", "        _check_nan_in_pytree(params),\n        lambda _: params,\n        lambda _: last_non_nan_params,", 0),
    ("C18", "fire", SOLVE, "        optimization.last_non_nan_params,\n        loss_container.train_loss_values,", "        optimization.params,\n        loss_container.train_loss_values,", 0),
    ("C19", "fire", SOLVE, "i % validation.call_every == 0,", "i % validation.call_every == 1,", 0),
    ("C19", "fire", VAL, "jnp.array(self.counter == self.patience),", "jnp.array(counter == self.patience),", 0),
    ("C19", "silent", VAL, "validation_loss_value < self.best_val_loss,", "self.best_val_loss > validation_loss_value,", 0),
    # ---- C08 / C09 / C14 / C15
    ("C08", "fire", DG, "                        minval=self.min_pts[1],\n                        maxval=self.max_pts[1],\n                    ),\n                ]\n            )\n            xmax", "                        minval=self.min_pts[0],\n                        maxval=self.max_pts[1],\n                    ),\n                ]\n            )\n            xmax", 0),
    ("C08", "fire", DG, "return jnp.stack([xmin, xmax, ymin, ymax], axis=-1)", "return jnp.stack([xmin, ymin, xmax, ymax], axis=-1)", 0),
    ("C08", "fire", DG, "t_dx = jnp.concatenate([t_, dx], axis=1)", "t_dx = jnp.concatenate([dx, t_], axis=1)", 0),
    ("C08", "silent", DG, "omega = jnp.linspace(xmin, xmax, self.n, endpoint=False)[:, None]", "omega = jnp.expand_dims(jnp.linspace(xmin, xmax, self.n, endpoint=False), 1)", 0),
    ("C08", "silent", DG, "omega = jnp.linspace(xmin, xmax, self.n, endpoint=False)[:, None]", "omega = (xmin + (xmax - xmin) * jnp.arange(self.n) / self.n)[:, None]", 0),
    ("C08", "fire", DG, "omega = jnp.linspace(xmin, xmax, self.n, endpoint=False)[:, None]", "omega = ((xmax - xmin) * jnp.arange(self.n) / self.n)[:, None]", 0),
    ("C14", "fire", DG, "return self, self.omega_border[None, None]  # shape is (1, 1, 2)", "return self, jnp.repeat(self.omega_border[None, None], 2, axis=0)", 0),
    ("C14", "silent", DG, "return self, self.omega_border[None, None]  # shape is (1, 1, 2)", "return self, jnp.reshape(self.omega_border, (1, 1, 2))", 0),
    ("C20", "fire", DG, "self.curr_idx + self.obs_batch_size, self.n, self._get_operands()", "self.curr_idx + 2 * self.obs_batch_size - 1, self.n, self._get_operands()", 0),
    ("C16", "fire", SOLVE, "i, loss, params, data, _rar_step_true, _rar_step_false", "i + 1, loss, params, data, _rar_step_true, _rar_step_false", 0),
    ("C16", "silent", SOLVE, "i, loss, params, data, _rar_step_true, _rar_step_false", "i=i, loss=loss, params=params, data=data, _rar_step_true=_rar_step_true, _rar_step_false=_rar_step_false", 0),
    ("C17", "fire", RAR, "data.p_times.at[: data.nt_start].set(new_p_times),", "data.p_times.at[: data.n_start].set(new_p_times),", 0),
    ("C13", "fire", LODE, "obs_slice=self.obs_slice_dict[i],", "obs_slice=self.obs_slice_dict[k],", 0),
    ("C09", "silent", DG, "        else:\n            n_eff = self.n\n\n        bstart = self.curr_omega_idx", "        else:\n            n_eff = self.n_start\n\n        bstart = self.curr_omega_idx", 0),
    ("C09", "silent", DG, "        n_start = n\n        p = None", "        n_start = n if n_start is None else n_start\n        p = None", 0),
    ("C09", "fire", DG, "subkey, domain, shape=(domain.shape[0],), replace=False, p=p", "subkey, domain, shape=(domain.shape[0],), replace=True, p=p", 0),
    ("C09", "fire", DG, "            new.times,\n            start_indices=(new.curr_time_idx,),", "            self.times,\n            start_indices=(new.curr_time_idx,),", 0),
    ("C09", "silent", DG, "bend >= n_eff, _reset_batch_idx_and_permute, _increment_batch_idx, operands", "bend > n_eff - 1, _reset_batch_idx_and_permute, _increment_batch_idx, operands", 0),
    ("C14", "fire", DG, "    b1 = jnp.repeat(b1, n2, axis=0)\n    b2 = jnp.tile(b2, reps=(n1,) + tuple(1 for i in b2.shape[1:]))", "    b1 = jnp.tile(b1, reps=(n2,) + tuple(1 for i in b1.shape[1:]))\n    b2 = jnp.repeat(b2, n1, axis=0)", 0),
    ("C15", "fire", DG, '            "val": jnp.take(\n                new.observed_values, minib_indices, unique_indices=True, axis=0\n            ),', '            "val": jnp.take(\n                new.observed_values, new.indices[: new.obs_batch_size], unique_indices=True, axis=0\n            ),', 0),
    # ---- C10 / C11 / C12 / C13 / C16 / C17 / C20
    ("C10", "fire", PINN, "            t_x = jnp.concatenate([t, x], axis=-1)", "            t_x = jnp.concatenate([x, t], axis=-1)", 0),
    ("C10", "fire", SPINN, "res[:, d, m * self.r : (m + 1) * self.r]", "res[:, d, m * self.r : (m + 1) * self.r + 1]", 0),
    ("C11", "fire", "jinns/utils/_utils.py", 'indexing="ij"', 'indexing="xy"', 0),
    ("C12", "fire", PRM, "k: (0 if k in eq_params_batch_dict.keys() else None)", "k: (None if k in eq_params_batch_dict.keys() else 0)", 0),
    ("C12", "fire", DLA, "eq_params_[k] = eq_params_heterogeneity[k](x, u, params)", "eq_params_[k] = eq_params_heterogeneity[k](u, x, params)", 0),
    ("C13", "fire", LU, "                lambda w, l: jnp.mean(w * l), res_dict_for_u, loss_weights_for_u\n            )\n            return res_dict_ponderated\n\n        # Note in the case", "                lambda w, l: jnp.mean(w + l), res_dict_for_u, loss_weights_for_u\n            )\n            return res_dict_ponderated\n\n        # Note in the case", 0),
    ("C16", "fire", RAR, '(data.rar_parameters["update_every"] - 1) == data.rar_iter_from_last_sampling,', '(data.rar_parameters["update_every"]) == data.rar_iter_from_last_sampling,', 0),
    ("C16", "silent", RAR, 'data.rar_parameters["start_iter"] <= i,', 'i >= data.rar_parameters["start_iter"],', 0),
    ("C17", "fire", RAR, "                (mse_on_s.shape[0] - selected_sample_size,),", "                (0,),", 0),
    ("C20", "fire", PRM, "    params = eqx.tree_at(\n        lambda p: p.eq_params,\n        params,", "    params.eq_params.update({k: v for k, v in param_batch_dict.items()})\n    params = eqx.tree_at(\n        lambda p: p.eq_params,\n        params,", 0),
    # ---- round 8: key of the parameter loader not stored back; batch-composition helper writing into its argument
    ("C09", "fire", DG, "            lambda m: (m.keys, m.param_n_samples, m.curr_param_idx),\n            self,\n            new_attributes,", "            lambda m: (m.param_n_samples, m.curr_param_idx),\n            self,\n            new_attributes[1:],", 0),
    ("C20", "fire", DG, "    return eqx.tree_at(\n        lambda m: m.param_batch_dict,\n        batch,\n        param_batch_dict,", "    if batch.param_batch_dict is not None:\n        batch.param_batch_dict.update(param_batch_dict)\n        return batch\n    return eqx.tree_at(\n        lambda m: m.param_batch_dict,\n        batch,\n        param_batch_dict,", 0),
]


def _run_variant(args):
    pid, kind, rel, old, new, nth, repo, verif = args
    src = os.path.join(repo, rel)
    try:
        s = open(src).read()
    except OSError:
        return (pid, kind, rel, old[:50], "skipped (file absent)")
    if s.count(old) <= nth:
        return (pid, kind, rel, old[:50], "skipped (anchor absent)")
    tmp = tempfile.mkdtemp(prefix="jvself.")
    try:
        shutil.copytree(os.path.join(repo, "jinns"), os.path.join(tmp, "jinns"))
        parts = s.split(old)
        s2 = old.join(parts[:nth + 1]) + new + old.join(parts[nth + 1:])
        open(os.path.join(tmp, rel), "w").write(s2)
        env = dict(os.environ, JV_EVIDENCE_DIR=os.path.join(tmp, "ev"), JV_REPO=tmp)
        r = subprocess.run([sys.executable, os.path.join(verif, "bin", "check"), pid, "--repo", tmp, "--tier", "quick", "--no-selftest"],
                           env=env, capture_output=True, text=True, timeout=900)
        rc = r.returncode
        want = 1 if kind == "fire" else 0
        status = "ok" if rc == want else f"MISMATCH (exit {rc}, wanted {want})"
        return (pid, kind, rel, old[:50], status)
    except Exception as ex:
        return (pid, kind, rel, old[:50], f"skipped ({type(ex).__name__})")
    finally:
        shutil.rmtree(tmp, ignore_errors=True)


def run_selftest(pid, repo, verif, jobs=16):
    todo = [(p, k, rel, old, new, nth, repo, verif) for (p, k, rel, old, new, nth) in VARIANTS if p == pid]
    if not todo:
        return []
    with ThreadPoolExecutor(min(jobs, len(todo))) as ex:
        return list(ex.map(_run_variant, todo))
