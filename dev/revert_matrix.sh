#!/bin/bash
# for every fix commit of /repo: revert it alone in a scratch clone and record which checks report a violation
OUT=${1:-/tmp/revert_matrix.txt}; : > $OUT
for sha in $(git -C /repo log --format=%h 924039f..HEAD); do
  S=$(mktemp -d /tmp/jvrev.XXXXXX)
  git clone -q --local /repo $S/r
  how=""
  if ! ( cd $S/r && git -c user.email=a@b -c user.name=x revert --no-commit $sha >/dev/null 2>&1 ); then
    # later commits touch the same lines: dev/hand_reverts/<sha>.diff re-introduces the defect on HEAD
    ( cd $S/r && git revert --abort >/dev/null 2>&1; git checkout -q -- . && git apply /verif/dev/hand_reverts/$sha.diff ) || { echo "$sha CONFLICT" >> $OUT; rm -rf $S; continue; }
    how=" (hand revert)"
  fi
  hits=""
  for p in $(seq -w 1 20); do
    JV_EVIDENCE_DIR=$S/ev /venv/bin/python /verif/bin/check C$p --repo $S/r > $S/out.txt 2>&1; rc=$?
    [ $rc -eq 1 ] && hits="$hits C$p"
    [ $rc -eq 2 ] && hits="$hits C$p(err)"
  done
  echo "$sha |$hits$how | $(git -C /repo log --format=%s -1 $sha)" >> $OUT
  rm -rf $S
done
cat $OUT
