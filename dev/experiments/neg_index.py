import jax, jax.numpy as jnp, equinox as eqx, jinns
from jinns.utils._pinn import create_PINN
from jinns.loss._LossPDE import LossPDEStatio
from jinns.data._Batchs import PDEStatioBatch
from jinns.parameters._params import Params
key = jax.random.PRNGKey(0)
eqx_list = ((eqx.nn.Linear, 2, 8), (jnp.tanh,), (eqx.nn.Linear, 8, 2))
u = create_PINN(key, eqx_list, "statio_PDE", 2); p = u.init_params()
params = Params(nn_params=p, eq_params={})
batch = PDEStatioBatch(inside_batch=jnp.ones((4, 2)) * 0.3, border_batch=jax.random.uniform(key, (4, 2, 4)))
vals = {}
for dim in (1, -1, jnp.s_[1:2]):
    loss = LossPDEStatio(u=u, dynamic_loss=None, omega_boundary_fun=lambda x: 0.5, omega_boundary_condition="dirichlet",
                         omega_boundary_dim=dim, params=params, loss_weights=jinns.loss.LossWeightsPDEStatio(boundary_loss=1.0))
    tot, d = loss.evaluate(params, batch)
    vals[str(dim)] = float(d["boundary_loss"])
    print("omega_boundary_dim =", dim, "-> stored", loss.omega_boundary_dim, "boundary_loss =", vals[str(dim)])
u2 = create_PINN(key, eqx_list, "statio_PDE", 2, slice_solution=-1)
print("create_PINN(slice_solution=-1).slice_solution =", u2.slice_solution, "-> selects", list(range(2))[u2.slice_solution])
assert abs(vals["-1"] - vals["1"]) < 1e-6, "component -1 of two outputs is component 1"
assert list(range(2))[u2.slice_solution] == [1]
print("PASS")
