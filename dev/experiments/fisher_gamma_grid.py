"""FisherKPP on a separable network: r(x) and gamma(x) given on the grid (one value per grid node) - the documented equation is
du/dt = D lap u + u (r(x) - gamma(x) u).  A grid-valued r is handled ([..., None] adds the component axis); gamma must be too."""
import jax, jax.numpy as jnp, equinox as eqx, jinns
from jinns.utils._spinn import create_SPINN
from jinns.loss._DynamicLoss import FisherKPP
from jinns.parameters._params import Params
print(jinns.__file__)
key = jax.random.PRNGKey(0)
d, r_, m = 2, 4, 1
u = create_SPINN(key, d, r_, ((eqx.nn.Linear, 1, 8), (jnp.tanh,), (eqx.nn.Linear, 8, r_ * m)), "nonstatio_PDE")
p = u.init_params()
n = 5
t = jnp.linspace(0.1, 0.9, n)[:, None]
x = jnp.linspace(0.2, 0.8, n)[:, None]
grid_fn = lambda f: f(t[:, None, 0] * 0 + x[None, :, 0])          # (n, n) values on the (t, x) grid
r_grid = grid_fn(lambda xx: 1.0 + xx)
g_grid = grid_fn(lambda xx: 0.5 + 2.0 * xx)
loss = FisherKPP(Tmax=1.0)
ref = loss.equation(t, x, u, Params(nn_params=p, eq_params={"D": jnp.array(0.1), "r": r_grid, "g": jnp.array(0.0)}))
print("r on the grid:", ref.shape)
# reference for gamma on the grid: subtract the gamma term computed by hand from the gamma = 0 residual
u_tx = u(t, x, Params(nn_params=p, eq_params={}))
want = ref + 1.0 * (u_tx * (g_grid[..., None] * u_tx))
got = loss.equation(t, x, u, Params(nn_params=p, eq_params={"D": jnp.array(0.1), "r": r_grid, "g": g_grid}))
print("gamma on the grid:", got.shape, "expected", want.shape)
assert got.shape == want.shape and jnp.allclose(got, want, atol=1e-6)
print("PASS")
