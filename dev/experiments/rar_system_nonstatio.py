"""non-stationary residual-adaptive refinement with a SystemLossPDE: the step must run and rank the candidate (t, x) pairs by the
sum over the equations of the squared residuals (as the ODE and stationary branches do)"""
import jax, jax.numpy as jnp, equinox as eqx, jinns
from jinns.utils._pinn import create_PINN
from jinns.loss._LossPDE import SystemLossPDE
from jinns.loss._DynamicLossAbstract import PDENonStatio
from jinns.loss import LossWeightsPDEDict
from jinns.parameters._params import ParamsDict
from jinns.data._DataGenerators import CubicMeshPDENonStatio
from jinns.solver._rar import init_rar, _rar_step_init
print(jinns.__file__)
key = jax.random.PRNGKey(0)
u = create_PINN(key, ((eqx.nn.Linear, 2, 8), (jnp.tanh,), (eqx.nn.Linear, 8, 1)), "nonstatio_PDE", 1)
params = ParamsDict(nn_params={"u": u.init_params()}, eq_params={})


class R1(PDENonStatio):
    def equation(self, t, x, u_dict, params_dict):
        return jnp.squeeze(jnp.sin(7.0 * x[0]) + t[0])        # positive and negative values


class R2(PDENonStatio):
    def equation(self, t, x, u_dict, params_dict):
        return jnp.squeeze(-jnp.sin(7.0 * x[0]) - t[0] + 0.3 * jnp.cos(5.0 * x[0] * t[0]))   # nearly cancels R1


loss = SystemLossPDE(u_dict={"u": u}, dynamic_loss_dict={"e1": R1(Tmax=1), "e2": R2(Tmax=1)}, params_dict=params,
                     loss_weights=LossWeightsPDEDict(dyn_loss=1.0))
rar = {"start_iter": 0, "update_every": 1, "sample_size_times": 6, "selected_sample_size_times": 2,
       "sample_size_omega": 6, "selected_sample_size_omega": 2}
data = CubicMeshPDENonStatio(key=key, n=20, nb=None, nt=20, omega_batch_size=4, omega_border_batch_size=None, temporal_batch_size=4, dim=1, min_pts=(0.0,),
                             max_pts=(1.0,), tmin=0.0, tmax=1.0, rar_parameters=rar, n_start=8, nt_start=8)
data, step_true, step_false = init_rar(data)
new = step_true((loss, params, data, 0))
# reference: same candidates (same key stream as the step), ranked by sum_k r_k^2
k1, sk = jax.random.split(data.key)
ts = data.sample_in_time_domain(sk, 6)
k1, sk2 = jax.random.split(k1, 2)
xs = data.sample_in_omega_domain(sk2, 6)
T, X = jnp.repeat(ts, 6)[:, None], jnp.tile(xs, (6, 1))
r1 = jax.vmap(lambda t, x: R1(Tmax=1).equation(t, x, None, None))(T, X)
r2 = jax.vmap(lambda t, x: R2(Tmax=1).equation(t, x, None, None))(T, X)
score = (r1 ** 2 + r2 ** 2)
_, idx = jax.lax.top_k(score, 2)
ti, xi = jnp.unravel_index(idx, (6, 6))
print("added times", new.times[8:10], "expected", ts[ti])
print("added points", new.omega[8:10, 0], "expected", xs[xi, 0])
assert jnp.allclose(new.times[8:10], ts[ti]) and jnp.allclose(new.omega[8:10, 0], xs[xi, 0])
print("PASS")
