#!/usr/bin/env python3
"""Re-runs every check in both tiers (thorough without the self-test, evidence of that run discarded into a scratch directory)
and rewrites the obligations column of DESIGN.md section 4.  The committed evidence is then refreshed by a last quick run."""
import json, os, re, subprocess, tempfile, shutil

ROOT = "/verif"
rows = {}
tmp = tempfile.mkdtemp(prefix="jvsum.")
try:
    for i in range(1, 21):
        pid = f"C{i:02d}"
        out = {}
        for tier in ("quick", "thorough"):
            env = dict(os.environ, JV_EVIDENCE_DIR=tmp)
            r = subprocess.run(["/venv/bin/python", f"{ROOT}/bin/check", pid, "--tier", tier, "--no-selftest"], env=env,
                               capture_output=True, text=True)
            m = re.search(r"obligations=(\d+) pass=(\d+) violations=(\d+) known=(\d+) inconclusive=(\d+) wall=([\d.]+)s", r.stdout)
            out[tier] = (int(m.group(1)), r.returncode, float(m.group(6)))
        rows[pid] = out
finally:
    shutil.rmtree(tmp, ignore_errors=True)

p = f"{ROOT}/DESIGN.md"
s = open(p).read()


def sub(m):
    pid = m.group(1)
    q, t = rows[pid]["quick"], rows[pid]["thorough"]
    res = "pass" if q[1] == 0 and t[1] == 0 else f"exit {q[1]}/{t[1]}"
    return f"| {pid} |{m.group(2)}|{m.group(3)}| {q[0]} / {t[0]} | {res} |"


s = re.sub(r"^\| (C\d\d) \|([^|]*)\|([^|]*)\| \d+ / \d+ \| [^|]* \|$", sub, s, flags=re.M)
tq = sum(v["quick"][2] for v in rows.values())
tt = sum(v["thorough"][2] for v in rows.values())
s = re.sub(r"All quick commands together take[^\n]*\n", f"All quick commands together take ≈ {tq:.0f} s of analysis time (thorough without the self-test: ≈ {tt:.0f} s); nothing is sampled, so\n", s)
open(p, "w").write(s)
for pid, v in rows.items():
    print(pid, v)
