#!/bin/bash
# usage: dev/try_patch.sh <patch-file | rev:<commit>> <ID> [check args...]
# scratch copy of /repo (tracked files only) with a patch applied (or a commit reverted); runs the check on it
set -e
P=$1; ID=$2; shift 2
S=$(mktemp -d /tmp/jvscratch.XXXXXX)
trap "rm -rf $S" EXIT
git -C /repo archive HEAD jinns | tar -x -C $S
cd $S && git init -q . && git add -A >/dev/null && git -c user.email=a@b -c user.name=x commit -qm base
if [[ $P == rev:* ]]; then
  git -C /repo diff ${P#rev:}^ ${P#rev:} -- jinns | git apply -R
else
  git apply $P
fi
cd /verif
set +e
JV_EVIDENCE_DIR=$S/evidence JV_REPO=$S /venv/bin/python /verif/bin/check $ID --repo $S "$@"
echo "exit=$?"
