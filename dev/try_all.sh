#!/bin/bash
# usage: dev/try_all.sh <patch-file>  -- runs all 20 quick checks on a scratch copy with the patch applied; prints exit codes != 0
P=$1
S=$(mktemp -d /tmp/jvscratch.XXXXXX)
trap "rm -rf $S" EXIT
git -C /repo archive HEAD jinns | tar -x -C $S
cd $S && git init -q . && git add -A >/dev/null && git -c user.email=a@b -c user.name=x commit -qm base
git apply $P || exit 3
cd /verif
for i in $(seq -w 1 20); do
  ( JV_EVIDENCE_DIR=$S/evidence JV_REPO=$S /venv/bin/python /verif/bin/check C$i --repo $S > $S/out.C$i 2>&1; echo $? > $S/rc.C$i ) &
done
wait
for i in $(seq -w 1 20); do rc=$(cat $S/rc.C$i); [ "$rc" != 0 ] && echo "C$i exit=$rc $(tail -1 $S/out.C$i)"; done
echo "--"
