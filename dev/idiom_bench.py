#!/venv/bin/python
"""Development aid: equivalent spellings of common JAX / Python idioms (dev/idioms/_idioms.py, copied into a scratch copy of the package) are evaluated by the
abstract interpreter on abstract inputs; every member of a family must give the same abstract value (or the family is reported)."""
import sys, traceback
sys.path.insert(0, '/verif')
import numpy as np
from jv.extern import make_world, fz, same
from jv.alg import AT, Poly, K, SymDim, Sym, Pred, Top, Finding, pt, tm, batch_x, to_at, Pm
from jv.interp import freeze

import os, shutil, subprocess, tempfile
_S = tempfile.mkdtemp(prefix="jvidiom.")
subprocess.run(f"git -C /repo archive HEAD jinns | tar -x -C {_S}", shell=True, check=True)
shutil.copy('/verif/dev/idioms/_idioms.py', os.path.join(_S, 'jinns', '_idioms.py'))
import atexit; atexit.register(lambda: shutil.rmtree(_S, ignore_errors=True))
w = make_world(_S)
m = w.module('jinns._idioms')
def F(n): return m.env.get(n)
x = pt(3); y = AT((3,), np.array([K('y0'), K('y1'), K('y2')], dtype=object))
M = AT((2, 3), np.array([[K(f'm{i}{j}') for j in range(3)] for i in range(2)], dtype=object))
Q = AT((3, 3), np.array([[K(f'q{i}{j}') for j in range(3)] for i in range(3)], dtype=object))
B = batch_x(2)            # (B, 2)
bx = B[..., 0]            # (B,)
by = B[..., 1]
s0 = AT((), np.array(K('s'), dtype=object))
i, n, st, k = K('i'), K('n'), K('s'), K('k')
d = {'a': K('da'), 'b': K('db'), 'c': K('dc')}
c = Pred.compare(K('i'), K('n'), '>=')
def fxy(x_, y=None): return x_ * 2 + y
def frow(r, v): return (r * v).sum()
def g(t, x_): return (t[0] * x_[0] * x_[0] + x_[1] * x_[2]) if True else None
t1 = tm()
fams = {
 'stack': [('stack_a', (x, y)), ('stack_b', (x, y)), ('stack_c', (x, y))],
 'stackB': [('stack_a', (bx, by)), ('stack_b', (bx, by)), ('stack_c', (bx, by)), ('col_a', (bx, by)), ('col_b', (bx, by))],
 'col': [('col_a', (x, y)), ('col_b', (x, y))],
 'vs': [('vs_a', (x, y)), ('vs_b', (x, y)), ('arr_a', (x, y))],
 'none': [('none_a', (x,)), ('none_b', (x,)), ('none_c', (x,)), ('none_d', (x,))],
 'noneB': [('none_a', (bx,)), ('none_b', (bx,)), ('none_c', (bx,)), ('none_d', (bx,))],
 'flat': [('flat_a', (M,)), ('flat_b', (M,)), ('flat_c', (M,))],
 'tr': [('tr_a', (M,)), ('tr_b', (M,)), ('tr_c', (M,)), ('tr_d', (M,)), ('tr_e', (M,))],
 'sl': [('sl_a', (M,)), ('sl_b', (M,)), ('sl_c', (M,))],
 'slB': [('sl_a', (B,)), ('sl_b', (B,)), ('sl_c', (B,))],
 'zz': [('zz_a', (x,)), ('zz_b', (x,)), ('zz_c', (x,))],
 'zzB': [('zz_a', (bx,)), ('zz_b', (bx,)), ('zz_c', (bx,))],
 'sum': [('sum_a', (M,)), ('sum_b', (M,)), ('sum_c', (M,)), ('sum_d', (M,))],
 'sumB': [('sum_a', (B,)), ('sum_b', (B,)), ('sum_c', (B,)), ('sum_d', (B,))],
 'mean': [('mean_a', (M,)), ('mean_b', (M,)), ('mean_c', (M,)), ('mean_d', (M,)), ('mean_e', (M,))],
 'meanB': [('mean_a', (B,)), ('mean_b', (B,)), ('mean_c', (B,)), ('mean_d', (B,)), ('mean_e', (B,))],
 'ar': [('ar_a', (x, y)), ('ar_b', (x, y))],
 'neg': [('neg_a', (x,)), ('neg_b', (x,))],
 'mm': [('mm_a', (M, x)), ('mm_b', (M, x)), ('mm_c', (M, x)), ('mm_d', (M, x))],
 'nrm': [('nrm_a', (M,)), ('nrm_b', (M,))],
 'nrmB': [('nrm_a', (B,)), ('nrm_b', (B,))],
 'tra': [('tra_a', (Q,)), ('tra_b', (Q,)), ('tra_c', (Q,))],
 'mn': [('mn_a', (M,)), ('mn_b', (M,))],
 'wh': [('wh_a', (c, x, y)), ('wh_b', (c, x, y)), ('wh_c', (c, x, y)), ('wh_d', (c, x, y))],
 'lg': [('lg_a', (i, n, st)), ('lg_b', (i, n, st)), ('lg_c', (i, n, st)), ('lg_d', (i, n, st)), ('lg_e', (i, n, st))],
 'md': [('md_a', (i, k)), ('md_b', (i, k)), ('md_c', (i, k))],
 'fd': [('fd_a', (i, k)), ('fd_b', (i, k))],
 'tm': [('tm_a', (d,)), ('tm_b', (d,)), ('tm_c', (d,)), ('tm_d', (d,))],
 'tr1': [('tr1_a', (d,)), ('tr1_b', (d,)), ('tr1_c', (d,)), ('tr1_d', (d,))],
 'mg': [('mg_a', ({'a': 1, 'b': 2}, {'b': 3, 'c': 4})), ('mg_b', ({'a': 1, 'b': 2}, {'b': 3, 'c': 4})), ('mg_c', ({'a': 1, 'b': 2}, {'b': 3, 'c': 4}))],
 'pt': [('pt_a', (fxy, x, y)), ('pt_b', (fxy, x, y))],
 'vm': [('vm_a', (frow, M, x)), ('vm_b', (frow, M, x)), ('vm_c', (frow, M, x)), ('vm_d', (frow, M, x))],
 'vmB': [('vm_a', (frow, B, x[:2])), ('vm_b', (frow, B, x[:2])), ('vm_c', (frow, B, x[:2])), ('vm_d', (frow, B, x[:2]))],
 'gr': [('gr_a', (g, t1, x)), ('gr_b', (g, t1, x)), ('gr_c', (g, t1, x)), ('gr_d', (g, t1, x)), ('gr_e', (g, t1, x))],
 'op': [('op_a', (x,)), ('op_b', (x,))],
 'en': [('en_a', ([K('a'), K('b')],)), ('en_b', ([K('a'), K('b')],))],
 'sq': [('sq_a', (M,)), ('sq_b', (M,)), ('sq_c', (M,))],
 'sqB': [('sq_a', (B,)), ('sq_b', (B,)), ('sq_c', (B,))],
 'rp': [('rp_a', (x, 2)), ('rp_b', (x, 2)), ('rp_c', (x, 2)), ('rp_d', (x, 2))],
 'rpS': [('rp_a', (x, SymDim('N'))), ('rp_b', (x, SymDim('N'))), ('rp_c', (x, SymDim('N'))), ('rp_d', (x, SymDim('N')))],
 'at1': [('at1_a', (s0,)), ('at1_b', (s0,)), ('at1_c', (s0,)), ('at1_d', (s0,))],
 'hs': [('hs_a', (t1, x)), ('hs_b', (t1, x)), ('hs_c', (t1, x))],
 'ab': [('ab_a', (x,)), ('ab_b', (x,)), ('ab_c', (x,))],
 'tk': [('tk_a', (M, 1)), ('tk_b', (M, 1))],
}
class _O:
    a = 5
class _P:
    pass
Params = w.get("jinns.parameters._params", "Params")
pp = Params.make(nn_params=Sym('theta'), eq_params={'nu': K('nu')})
L = [K('a'), K('b'), K('c')]
fams.update({
 'lp': [('lp_a', (L,)), ('lp_b', (L,)), ('lp_c', (L,)), ('lp_d', (L,))],
 'er': [(nm, (x, fl)) for fl in (None,) for nm in ('er_a', 'er_b', 'er_c', 'er_d')],
 'er2': [(nm, (x, K('f'))) for nm in ('er_a', 'er_b', 'er_c', 'er_d')],
 'dg': [('dg_a', (d,)), ('dg_b', (d,)), ('dg_c', (d,))],
 'dg0': [('dg_a', ({},)), ('dg_b', ({},)), ('dg_c', ({},))],
 'st': [('st_a', (L,)), ('st_b', (L,)), ('st_c', (L,))],
 'kw': [('kw_a', (fxy, x, y)), ('kw_b', (fxy, x, y)), ('kw_c', (fxy, x, y))],
 'cl': [('cl_a', (L,)), ('cl_b', (L,)), ('cl_c', (L,))],
 'ag': [('ag_a', (d,)), ('ag_b', (d,)), ('ag_c', (d,))],
 'an': [('an_a', ([1, None],)), ('an_b', ([1, None],)), ('an_c', ([1, None],))],
 'wl': [('wl_a', (d,)), ('wl_b', (d,))],
 'ii': [('ii_a', (1.5,)), ('ii_b', (1.5,)), ('ii_c', (1.5,))],
 'iiK': [('ii_a', (K('w'),)), ('ii_b', (K('w'),)), ('ii_c', (K('w'),))],
 'so': [('so_a', (d,)), ('so_b', (d,)), ('so_c', (d,))],
 'ga': [('ga_a', (pp,)), ('ga_b', (pp,))],
 'tp': [('tp_a', (x, y)), ('tp_b', (x, y)), ('tp_c', (x, y))],
 'mx': [('mx_a', (3, 5)), ('mx_b', (3, 5))],
 'nm': [('nm_a', (L,)), ('nm_b', (L,)), ('nm_c', (L,))],
 'zp': [('zp_a', (['a', 'b'], L[:2])), ('zp_b', (['a', 'b'], L[:2])), ('zp_c', (['a', 'b'], L[:2]))],
 'ta': [('ta_a', (pp, Sym('v'))), ('ta_b', (pp, Sym('v'))), ('ta_c', (pp, Sym('v')))],
 'msk': [('msk_a', (Sym('p'),)), ('msk_b', (Sym('p'),)), ('msk_c', (Sym('p'),)), ('msk_d', (Sym('p'),))],
})
bad = 0
for fam, members in fams.items():
    vals = []
    for name, args in members:
        try:
            v = F(name)(*args)
            vals.append((name, fz(v) if not isinstance(v, (dict, list)) else fz(v)))
        except (Top, Finding) as ex:
            vals.append((name, f"<{type(ex).__name__}: {ex}>"))
        except Exception as ex:
            vals.append((name, f"<EXC {type(ex).__name__}: {ex}>"))
    ref = vals[0][1]
    diffs = [(nm, v) for nm, v in vals[1:] if not (same(v, ref) if not isinstance(v, str) else v == ref)]
    if isinstance(ref, str) or diffs:
        bad += 1
        print(f"[{fam}] {vals[0][0]} = {str(ref)[:150]}")
        for nm, v in diffs:
            print(f"      {nm} = {str(v)[:200]}")
print("families with differences:", bad, "of", len(fams))
