#!/usr/bin/env python3
"""Copies the verified seeded changes (results of dev/import_mutants.py) into /verif/seeded/<id>/ and writes
seeded/INDEX.md + the table of DESIGN.md section 8."""
import json, glob, os, shutil, re
V = os.path.dirname(os.path.dirname(os.path.abspath(__file__)))
rows, kept, dropped = [], 0, []
for f in sorted(glob.glob('/tmp/mut/import/*.json')):
    r = json.load(open(f))
    ok = r.get('applies') and r.get('demo_clean_rc') == 0 and r.get('demo_mutant_rc') not in (0, None) and r.get('baseline_pass') == 51
    if not ok:
        dropped.append((r['id'], {k: r.get(k) for k in ('applies', 'demo_clean_rc', 'demo_mutant_rc', 'baseline_pass')}))
        continue
    src = r['src']
    dst = os.path.join(V, 'seeded', r['id'])
    os.makedirs(dst, exist_ok=True)
    patch = os.path.join(src, 'patch_rebased.diff') if os.path.exists(os.path.join(src, 'patch_rebased.diff')) else os.path.join(src, 'patch.diff')
    shutil.copy(patch, os.path.join(dst, 'patch.diff'))
    shutil.copy(os.path.join(src, 'demo.py'), os.path.join(dst, 'demo.py'))
    notes = open(os.path.join(src, 'notes.md')).read() if os.path.exists(os.path.join(src, 'notes.md')) else ''
    open(os.path.join(dst, 'notes.md'), 'w').write(notes)
    fired = r.get('checks_fired') or {}
    viol = sorted(k for k, v in fired.items() if v['rc'] == 1)
    err = sorted(k for k, v in fired.items() if v['rc'] == 2)
    own = r['property']
    files = sorted(set(re.findall(r'^\+\+\+ b/(\S+)', open(patch).read(), re.M)))
    needs = ''
    m = re.search(r'(?is)(needs?|trigger|manifest)[^\n]*\n?(.{0,400})', notes)
    meta = {
        "id": r['id'], "breaks_property": own, "files_changed": files,
        "produced_by": "fresh sub-agent that was given only the text of the property and a scratch worktree",
        "rebased_onto_current_head": os.path.basename(patch) == 'patch_rebased.diff',
        "what_it_needs_to_manifest": (notes.strip().split('\n\n')[0][:900] if notes else ''),
        "verified_here": {
            "how": "scratch git worktree of /repo HEAD (dev/import_mutants.py): git apply --check; demo.py with PYTHONPATH=<worktree> on the clean "
                   "tree and with the patch applied; full pytest run with the patch applied, compared by name with the 51 baseline tests",
            "patch_applies_to_head": True, "demo_exit_clean": r['demo_clean_rc'], "demo_exit_with_change": r['demo_mutant_rc'],
            "baseline_tests_passing_with_change": r['baseline_pass'],
        },
        "checks_reporting_violation": viol, "checks_inconclusive": err,
        "caught_by_own_property_check": own in viol,
        "first_report": {k: v['first'][:1] for k, v in fired.items() if v['rc'] == 1},
    }
    json.dump(meta, open(os.path.join(dst, 'meta.json'), 'w'), indent=1)
    kept += 1
    first = ''
    if own in fired and fired[own]['first']:
        mm = re.search(r'rule=(\S+)', fired[own]['first'][0])
        first = mm.group(1) if mm else ''
    rows.append((r['id'], own, ', '.join(files), ', '.join(viol) or '—', first, 'yes' if own in viol else 'NO'))
lines = ["| change | property | file(s) | checks reporting a violation | first rule of the property's own check | caught by own check |",
         "|---|---|---|---|---|---|"]
lines += [f"| {a} | {b} | {c} | {d} | {e} | {f} |" for a, b, c, d, e, f in rows]
tab = "\n".join(lines)
open(os.path.join(V, 'seeded', 'INDEX.md'), 'w').write(
    "# Seeded changes\n\nEach directory holds `patch.diff` (applies to /repo HEAD with `git -C /repo apply`), `demo.py` (passes on the clean tree, fails "
    "with the change; run with PYTHONPATH pointing at the tree under test), `notes.md` (the seeder's description) and `meta.json`.\n\n"
    + tab + "\n\nDropped candidates (not kept because a verification step failed): " + (json.dumps(dropped) if dropped else "none") + "\n")
R7 = (" Round 7 (`Cxx_r7mK`, 'well-meant additions': a fast path for the common case, a value cached at construction or in a module-level "
      "dictionary, defensive input normalisation, a fallback that takes a legal falsy value for 'absent', support for a new input kind whose "
      "dispatch also captures an existing one): this round adds code, and much of what it adds branches in Python on values that the obligations "
      "keep symbolic or calls functions without a model. At first about a third of the 60 were reported as violations. The round led to the frozen "
      "loss object, the 'field replaced after construction' relation, the obligations listed at the end of section 3 (a map declaring nothing "
      "evaluated first, a second loader, coinciding names, extra top-level entries, stepped slices, space dimension 1 and 3 for separable networks, "
      "a start of one point, a viscosity along x, concrete zero weights and bounds, an untracked second parameter), integer indexing of single-row "
      "axes and the models `clip`, `nan_to_num`, `jax.tree.all`, `vars`. Now 41 of the 60 are reported, 14 make a check leave its vocabulary "
      "(exit 2: it names the construct it cannot decide) and 5 are silent (section 6).")
R8 = (" Round 8 (`Cxx_r8mK`, 'needs a history'; 12 properties, one or two changes each; 17 kept - an 18th, `C14_r8m2`, a module-level cache keyed by the product of two counts, "
      "was dropped: one baseline test failed with it in the full-suite run here although it passes alone, an order-dependent failure): the change must be invisible on the first call / "
      "epoch / refinement step or on a freshly constructed object and show only after a sequence (an epoch rollover, the second refinement, a "
      "second evaluation in the same process, a field replaced with `eqx.tree_at` between two calls, a second generator with another split of "
      "the same row count) or through two cooperating sites (a writer and a reader that each look right alone: a carry slot lagging one step, "
      "0- vs 1-based counters in the constructor and the trigger, a slice start recomputed with `>` where the reset uses `>=`). Because the "
      "one-step obligations are stated on a symbolic state (any index, any key, any number of earlier refinement steps; frozen arguments; two "
      "evaluations in a row), 11 of the 17 were reported by the machinery as it stood, 3 made a check leave its vocabulary (exit 2: a rebuilt probability vector with a loop that starts at the step number, `finfo(...).eps` and a boolean used "
      "as an increment in the validation counter) and 3 were silent; the three led to C09.R1's key obligation for the parameter and observation "
      "loaders, the batch-composition helpers as entry points of C20.R2 and the new C13.R6 (end of section 3). Now 14 are reported, 3 "
      "inconclusive, none silent.")
p = os.path.join(V, 'DESIGN.md'); s = open(p).read()
i = s.index("## 8. Seeded changes and which checks catch them"); j = s.index("## 9. Departures")
s = s[:i] + "## 8. Seeded changes and which checks catch them\n\n" + \
    f"{kept} changes kept (all verified here: patch applies to HEAD, demo passes clean / fails changed, 51/51 baseline tests pass with the change). " \
    "Produced by fresh sub-agents that saw only the property text (ids `Cxx_mK`: round 1; `Cxx_r2mK`: round 2, where the seeder was also told what round 1 " \
    "had produced and asked for other places and mechanisms - two cooperating sites, multi-step sequences, unusual but legal configurations). " \
    "`seeded/INDEX.md` has the same table; `seeded/<id>/meta.json` the details. Round 2 was first run against the machinery as it stood after round 1: " \
    "25 of its 60 changes were then not reported by the check of their own property (11 of them by no check at all, 4 only made their check leave its vocabulary); each miss led to a new rule or configuration " \
    "(C01 0-d time; C03 heterogeneous parameters; C06 reordered masks and parameter batches; C07 uniform pre-loop draw and NaN-test vocabulary; C08 space-time " \
    "columns and concrete grid tables; C09 constructed generators; C11/C13 per-unknown component selections; C12 stale-shape update and hyper-input order; C15 mixed-shape observed " \
    "parameters and grid per key; C16 the loop's trigger call; C17 active set and sizes per family; C18 merged conditional returns; C20 first-draw end index and weight " \
    "representation; the interpreter's comprehension scope), after which all are caught. " \
    "Round 3 (`Cxx_r3mK`; the seeders were told about both earlier rounds and asked for untouched files, interactions of two features and " \
    "shape-preserving semantic slips): 21 of 60 not reported by the check of their own property at first, 9 of them by no check " \
    "(partial derivative-key specifications, a shared mutable default argument, an omitted weight field, a user function called off the grid, " \
    "a factory turning `slice_solution=0` into 'all outputs', a grid scaled by the refinement start count, per-family constructor state, " \
    "stale parameters handed to the refinement, an in-place `|=` on the batch dictionary); all led to new rules or to corrections of the " \
    "interpreter's Python semantics (default values evaluated once, in-place augmented assignment). The changes that are still not reported " \
    "by the check of their own property sit in code that another property states (a network-wrapper change seeded for the operators, a system-loss " \
    "constructor change seeded for the boundary term, ...) and are reported by that property's check. " \
    "Round 4 (`Cxx_r4mK`, 'refactoring gone wrong': each change is a well-meant clean-up of 8-40 lines - a helper shared by two call sites, two branches " \
    "merged behind a flag, a loop vectorised, a computation hoisted - that is almost equivalent): at first 28 of 60 were not reported by the check of " \
    "their own property, 20 of them by no check (8 of those only made a check leave its vocabulary: exit 2). They led to the tagged differentiation " \
    "(a drift evaluated on a grid hoisted out of the differentiated closure), the single normal form of means (`sum / n`), the interval " \
    "interpretation of the refinement masks, precedence of observed over generated parameter values, crossed maps over tables sharing their rows, " \
    "dictionaries paired by position (generators and systems), negative integer selections, single-point separable batches, counts with an inexact " \
    "d-th root, and to models (`match`, `broadcast_arrays`, array-valued `linspace`, `divmod`, reshapes of the concrete axes between named ones). " \
    "Four are not decided (one float-rounding change, three that leave the vocabulary of the mask / loop rules: see section 6); two defects of the " \
    "unmodified tree reported by the seeders or found while writing the new obligations were repaired (2a4bffc, a7fe902). " \
    "Round 5 (`Cxx_r5mK`, 'corner configurations': a 1-6 line oversight in a branch that only a corner configuration exercises - dimension 1 or 3, " \
    "hyper-networks, separable networks with time, non-cartesian batches, per-facet dictionaries, observed parameters, user tables, validation " \
    "modules with their own generators, array-valued masks and weights): at first 25 of 60 were not reported by the check of their own property, 15 of " \
    "them by no check (5 of those exit 2). New obligations are listed at the end of section 3; one change is not decided (a float32 cast, see section 6); " \
    "one more defect of the unmodified tree was repaired (b0294ed). " \
    "Round 6 (`Cxx_r6mK`, 'library-API semantics': a wrong argument of a JAX / equinox / numpy call - axes of vmap and of reductions, argnums, " \
    "is_leaf, operand and branch order, modes, dtypes, field options, stop_gradient on the wrong operand) was aimed at the trusted models: at " \
    "first 37 of 59 were not reported by the check of their own property, 26 of them by no check (6 of those exit 2). It exposed one wrong model " \
    "(`swapaxes` with a negative axis behaved like `moveaxis`), keywords that models silently dropped (`has_aux`, `where=`, `total_repeat_length`, " \
    "`reverse`, `mode`, ...: now outside the vocabulary instead of ignored), a NaN-unsafe identification of a selection on a comparison with " \
    "`minimum` / `maximum`, and missing obligations (dictionary orders against sorted pytree leaves, field converters through the constructors, " \
    "an empty parameter batch, constructor counters, stop_gradient on the hyper-network input or on a differentiated variable, donated buffers, " \
    "non-array data in dynamic fields). Nine were not decided at first; the single-row twins, the replaced-weights obligations and the `resize` " \
    "model (end of section 3) decide four of them, five remain (dtypes, a change outside C06's quantifier; section 6)." + R7 + R8 + "\n\n" + \
    tab + "\n\nOne candidate was dropped: `C16_m3` (`i <= start_iter` -> `i < start_iter` in `rar_step_false`). It was produced against " \
    "the tree before repair fc78006; on the repaired tree the period counter equals `update_every - 1` at `start_iter`, a non-step at " \
    "`i == start_iter` can then only be caused by a full store, and the change no longer alters any observable count (its demo passes " \
    "with the change). The rule C16.R2 that had flagged it was over-constrained and was relaxed to accept both freeze conditions " \
    "(a false alarm corrected in the machinery, not a finding).\n\n---------------------------------------------------------------------------------------------\n\n" + s[j:]
open(p, 'w').write(s)
print("kept", kept, "dropped", dropped)
missed = [r for r in rows if r[5] == 'NO']
print("not caught by own check:", missed)
