import jax
import jax.numpy as jnp
import operator
import functools
from functools import partial, reduce
import equinox as eqx


# each pair (a, b) must agree
def stack_a(x, y): return jnp.stack([x, y], axis=-1)
def stack_b(x, y): return jnp.concatenate([x[..., None], y[..., None]], axis=-1)
def stack_c(x, y): return jnp.concatenate([jnp.expand_dims(x, -1), jnp.expand_dims(y, axis=-1)], -1)
def col_a(x, y): return jnp.stack([x, y], axis=1)
def col_b(x, y): return jnp.column_stack([x, y])
def vs_a(x, y): return jnp.stack([x, y], axis=0)
def vs_b(x, y): return jnp.vstack([x, y])
def arr_a(x, y): return jnp.array([x, y])
def none_a(x): return x[:, None]
def none_b(x): return x.reshape(-1, 1)
def none_c(x): return x.reshape((x.shape[0], 1))
def none_d(x): return jnp.reshape(x, (-1, 1))
def flat_a(m): return m.flatten()
def flat_b(m): return m.reshape(-1)
def flat_c(m): return jnp.ravel(m)
def tr_a(m): return m.T
def tr_b(m): return jnp.transpose(m)
def tr_c(m): return jnp.swapaxes(m, 0, 1)
def tr_d(m): return jnp.moveaxis(m, 0, 1)
def tr_e(m): return jnp.transpose(m, (1, 0))
def sl_a(m): return m[..., 0:1]
def sl_b(m): return m[..., :1]
def sl_c(m): return m[:, 0][:, None]
def zz_a(x): return jnp.zeros((x.shape[0], 1))
def zz_b(x): return jnp.zeros_like(x)[:, None]
def zz_c(x): return jnp.full((x.shape[0], 1), 0.0)
def sum_a(m): return jnp.sum(m, axis=-1)
def sum_b(m): return m.sum(axis=1)
def sum_c(m): return jnp.sum(m, axis=1, keepdims=True).squeeze(-1)
def sum_d(m): return jnp.sum(m, 1)
def mean_a(m): return jnp.mean(jnp.sum(m ** 2, axis=-1))
def mean_b(m): return jnp.square(m).sum(axis=-1).mean()
def mean_c(m): return (m * m).sum(-1).mean()
def mean_d(m): return jnp.mean(jnp.sum(jnp.power(m, 2), axis=-1))
def mean_e(m): return jnp.mean(jnp.einsum("ij,ij->i", m, m))
def ar_a(x, y): return x - 2 * y + x * y
def ar_b(x, y): return jnp.add(jnp.subtract(x, jnp.multiply(2, y)), jnp.multiply(x, y))
def neg_a(x): return -x
def neg_b(x): return jnp.negative(x)
def mm_a(m, v): return m @ v
def mm_b(m, v): return jnp.matmul(m, v)
def mm_c(m, v): return jnp.dot(m, v)
def mm_d(m, v): return jnp.einsum("ij,j->i", m, v)
def nrm_a(m): return jnp.linalg.norm(m, axis=-1) ** 2
def nrm_b(m): return jnp.sum(m ** 2, axis=-1)
def tra_a(q): return jnp.trace(q)
def tra_b(q): return jnp.sum(jnp.diagonal(q))
def tra_c(q): return jnp.sum(jnp.diag(q))
def mn_a(m): return jnp.mean(m)
def mn_b(m): return jnp.sum(m) / m.size
def wh_a(c, x, y): return jax.lax.cond(c, lambda: x, lambda: y)
def wh_b(c, x, y): return jnp.where(c, x, y)
def wh_c(c, x, y): return jax.lax.select(c, x, y)
def wh_d(c, x, y): return jax.lax.cond(c, lambda o: o[0], lambda o: o[1], (x, y))
def lg_a(i, n, s): return jnp.logical_and(i >= s, i < n)
def lg_b(i, n, s): return (i >= s) & (i < n)
def lg_c(i, n, s): return jnp.logical_and(jnp.greater_equal(i, s), jnp.less(i, n))
def lg_d(i, n, s): return ~((i < s) | (i >= n))
def lg_e(i, n, s): return jnp.logical_not(jnp.logical_or(s > i, n <= i))
def md_a(i, k): return i % k == 0
def md_b(i, k): return jnp.equal(jnp.remainder(i, k), 0)
def md_c(i, k): return jnp.mod(i, k) == 0
def fd_a(i, k): return i // k
def fd_b(i, k): return jnp.floor_divide(i, k)
def tm_a(d): return jax.tree_util.tree_map(lambda v: v * 2, d)
def tm_b(d): return jax.tree.map(lambda v: v * 2, d)
def tm_c(d): return {k: v * 2 for k, v in d.items()}
def tm_d(d): return dict(zip(d.keys(), [v * 2 for v in d.values()]))
def tr1_a(d): return jax.tree_util.tree_reduce(lambda a, b: a + b, d)
def tr1_b(d): return sum(jax.tree.leaves(d))
def tr1_c(d): return reduce(operator.add, jax.tree_util.tree_leaves(d))
def tr1_d(d): return functools.reduce(lambda a, b: a + b, d.values())
def mg_a(a, b): return {**a, **b}
def mg_b(a, b): return a | b
def mg_c(a, b): return dict(a, **b)
def pt_a(f, x, y): return partial(f, y=y)(x)
def pt_b(f, x, y): return (lambda x_: f(x_, y=y))(x)
def vm_a(f, m, v): return jax.vmap(f, (0, None), 0)(m, v)
def vm_b(f, m, v): return jax.vmap(f, in_axes=(0, None), out_axes=0)(m, v)
def vm_c(f, m, v): return jax.vmap(lambda r: f(r, v))(m)
def vm_d(f, m, v): return jax.vmap(f, in_axes=[0, None])(m, v)
def gr_a(g, t, x): return jax.grad(g, 1)(t, x)
def gr_b(g, t, x): return jax.grad(lambda x_: g(t, x_))(x)
def gr_c(g, t, x): return jax.grad(g, argnums=(1,))(t, x)[0]
def gr_d(g, t, x): return jax.jacrev(g, 1)(t, x)
def gr_e(g, t, x): return jax.jacfwd(g, argnums=1)(t, x)
def op_a(x): return operator.getitem(x, 0) + operator.mul(x[1], 2)
def op_b(x): return x[0] + x[1] * 2
def en_a(xs): return [i * v for i, v in enumerate(xs)]
def en_b(xs): return [i * xs[i] for i in range(len(xs))]
def sq_a(m): return jnp.squeeze(m[:, 0:1], axis=-1)
def sq_b(m): return m[:, 0:1].squeeze(-1)
def sq_c(m): return m[:, 0:1][:, 0]
def rp_a(x, n): return jnp.repeat(x[None], n, axis=0)
def rp_b(x, n): return jnp.tile(x, (n, 1))
def rp_c(x, n): return jnp.broadcast_to(x, (n,) + x.shape)
def rp_d(x, n): return jnp.broadcast_to(x[None, :], (n, x.shape[0]))
def at1_a(s): return jnp.atleast_1d(s)
def at1_b(s): return jnp.reshape(s, (1,))
def at1_c(s): return jnp.array([s])
def at1_d(s): return s[None]
def hs_a(t, x): return jnp.hstack([t, x])
def hs_b(t, x): return jnp.concatenate([t, x], axis=-1)
def hs_c(t, x): return jnp.concatenate((t, x))
def ab_a(x): return jnp.abs(x) ** 2
def ab_b(x): return jnp.square(jnp.abs(x))
def ab_c(x): return jnp.absolute(x) * jnp.absolute(x)
def tk_a(m, i): return m[i]
def tk_b(m, i): return jnp.take(m, i, axis=0)


# ---------------- python-level idioms
def lp_a(xs):
    out = []
    for v in xs:
        out.append(v * 2)
    return out
def lp_b(xs): return [v * 2 for v in xs]
def lp_c(xs): return list(map(lambda v: v * 2, xs))
def lp_d(xs): return [*(v * 2 for v in xs)]
def er_a(x, flag):
    if flag is None:
        r = x
    else:
        r = x * flag
    return r
def er_b(x, flag):
    if flag is None:
        return x
    return x * flag
def er_c(x, flag): return x if flag is None else x * flag
def er_d(x, flag):
    r = x
    if flag is not None:
        r = r * flag
    return r
def dg_a(d): return d['a'] if 'a' in d else 0
def dg_b(d): return d.get('a', 0)
def dg_c(d):
    try:
        return d['a']
    except KeyError:
        return 0
def st_a(xs):
    first, *rest = xs
    return first + sum(rest)
def st_b(xs): return xs[0] + sum(xs[1:])
def st_c(xs): return functools.reduce(operator.add, xs)
def kw_a(f, x, y): return f(x, y=y)
def kw_b(f, x, y): return f(*(x,), **{'y': y})
def kw_c(f, x, y):
    args = (x,)
    kwargs = dict(y=y)
    return f(*args, **kwargs)
def cl_a(xs): return [(lambda v, k=k: v * k)(x) for k, x in enumerate(xs)]
def cl_b(xs):
    out = []
    for k, x in enumerate(xs):
        def g(v, k=k):
            return v * k
        out.append(g(x))
    return out
def cl_c(xs): return [x * k for k, x in zip(range(len(xs)), xs)]
def ag_a(d):
    out = dict(d)
    out['a'] += 1
    return out
def ag_b(d): return {**d, 'a': d['a'] + 1}
def ag_c(d): return {k: (v + 1 if k == 'a' else v) for k, v in d.items()}
def an_a(xs): return any(v is None for v in xs)
def an_b(xs): return None in xs
def an_c(xs): return len([v for v in xs if v is None]) > 0
def wl_a(d):
    v = d.get('a')
    if v is not None:
        return v * 2
    return 0
def wl_b(d):
    if (v := d.get('a')) is not None:
        return v * 2
    return 0
def ii_a(o): return isinstance(o, (int, float))
def ii_b(o): return isinstance(o, int) or isinstance(o, float)
def ii_c(o): return type(o) in (int, float)
def so_a(d): return [d[k] for k in sorted(d)]
def so_b(d): return [v for _, v in sorted(d.items())]
def so_c(d): return [d[k] for k in sorted(d.keys())]
def ga_a(o): return o.a if hasattr(o, 'a') else None
def ga_b(o): return getattr(o, 'a', None)
def tp_a(x, y): return tuple([x, y])
def tp_b(x, y): return (x, y)
def tp_c(x, y): return (*[x], y)
def mx_a(a, b): return max(a, b)
def mx_b(a, b): return a if a >= b else b
def nm_a(xs): return [v for i, v in enumerate(xs) if i % 2 == 0]
def nm_b(xs): return xs[::2]
def nm_c(xs): return list(xs[0::2])
def zp_a(ks, vs): return dict(zip(ks, vs))
def zp_b(ks, vs): return {k: v for k, v in zip(ks, vs)}
def zp_c(ks, vs): return {ks[i]: vs[i] for i in range(len(ks))}
def ta_a(p, v): return eqx.tree_at(lambda q: (q.nn_params, q.eq_params), p, (v, p.eq_params))
def ta_b(p, v): return eqx.tree_at(lambda q: q.nn_params, p, v)
def ta_c(p, v): return eqx.tree_at(lambda q: q.nn_params, eqx.tree_at(lambda q: q.eq_params, p, p.eq_params), replace=v)
def msk_a(p): return jnp.count_nonzero(p == 0)
def msk_b(p): return jnp.sum(p == 0)
def msk_c(p): return (p == 0).sum()
def msk_d(p): return jnp.sum(jnp.where(p == 0, 1, 0))
