#!/bin/bash
# usage: dev/mk_scratch.sh <patch> -> prints scratch dir (caller removes it)
S=$(mktemp -d /tmp/jvscratch.XXXXXX)
git -C /repo archive HEAD jinns | tar -x -C $S
cd $S && git init -q . && git add -A >/dev/null && git -c user.email=a@b -c user.name=x commit -qm base
git apply $1 || { echo "APPLY FAILED"; exit 3; }
echo $S
