#!/usr/bin/env python3
"""Verifies every candidate mutant under /tmp/mut/out/<P>/m<k> against the current /repo HEAD in scratch worktrees:
patch applies, demo passes clean / fails mutated, 51 baseline tests pass mutated, and records which checks fire.
usage: import_mutants.py [P ...]   results -> /tmp/mut/import/<P>_m<k>.json"""
import json, os, subprocess, sys, tempfile, shutil, glob, xml.etree.ElementTree as ET
from concurrent.futures import ThreadPoolExecutor
BASE = set(json.load(open('/root/.vp/BASELINE.json'))['stable_pass'])
OUT = '/tmp/mut/import'; os.makedirs(OUT, exist_ok=True)

def sh(cmd, cwd=None, env=None, timeout=3600):
    r = subprocess.run(cmd, shell=True, cwd=cwd, env=env, capture_output=True, text=True, timeout=timeout)
    return r.returncode, (r.stdout + r.stderr)

CHECKS_ONLY = False


def one(path):
    P, mk = path.split('/')[-2], path.split('/')[-1]
    tag = f"{P}_r2{mk}" if '/out2/' in path else (f"{P}_r3{mk}" if '/out3/' in path else (f"{P}_r4{mk}" if '/out4/' in path else (f"{P}_r5{mk}" if '/out5/' in path else (f"{P}_r6{mk}" if '/out6/' in path else (f"{P}_r7{mk}" if '/out7/' in path else (f"{P}_r8{mk}" if '/out8/' in path else f"{P}_{mk}"))))))
    res = {"id": tag, "property": P, "src": path}
    if CHECKS_ONLY and os.path.exists(f"{OUT}/{tag}.json"):
        res = json.load(open(f"{OUT}/{tag}.json"))
    patch = os.path.join(path, 'patch.diff')
    if os.path.exists(os.path.join(path, 'patch_rebased.diff')):
        patch = os.path.join(path, 'patch_rebased.diff')
    wt = tempfile.mkdtemp(prefix=f"jvimp_{tag}_")
    try:
        sh(f"git -C /repo worktree add --detach -f {wt} HEAD")
        env = dict(os.environ, PYTHONPATH=wt, JAX_PLATFORMS="cpu", JINNS_ROOT=wt, JINNS_TREE=wt)
        rc, out = sh(f"git apply --check {patch}", cwd=wt)
        res["applies"] = rc == 0
        if rc != 0:
            res["apply_error"] = out[-400:]
            return res
        if not CHECKS_ONLY:
            rc, out = sh(f"/venv/bin/python {path}/demo.py", cwd=wt, env=env, timeout=1200)
            res["demo_clean_rc"] = rc; res["demo_clean_tail"] = out[-300:]
        sh(f"git apply {patch}", cwd=wt)
        if not CHECKS_ONLY:
            rc, out = sh(f"/venv/bin/python {path}/demo.py", cwd=wt, env=env, timeout=1200)
            res["demo_mutant_rc"] = rc; res["demo_mutant_tail"] = out[-400:]
            xml = f"{OUT}/{tag}.xml"
            sh(f"/venv/bin/python -m pytest -q -p no:cacheprovider --timeout=900 --continue-on-collection-errors -n 3 --junitxml={xml}", cwd=wt, env=env, timeout=3000)
            ok = set()
            try:
                for tc in ET.parse(xml).getroot().iter('testcase'):
                    if not any(c.tag in ('failure', 'error', 'skipped') for c in tc):
                        ok.add(tc.get('classname') + '::' + tc.get('name'))
            except Exception as e:
                res["suite_error"] = str(e)
            res["baseline_pass"] = len(ok & BASE); res["baseline_missing"] = sorted(BASE - ok)[:5]
        fired = {}
        for i in range(1, 21):
            pid = f"C{i:02d}"
            e2 = dict(os.environ, JV_EVIDENCE_DIR=os.path.join(wt, '.ev'), JV_REPO=wt)
            rc, out = sh(f"/venv/bin/python /verif/bin/check {pid} --repo {wt}", env=e2, timeout=600)
            if rc != 0:
                inst = [l.strip()[:200] for l in out.splitlines() if 'instance=' in l or l.startswith('ANALYSIS-ERROR')][:2]
                fired[pid] = {"rc": rc, "first": inst}
        res["checks_fired"] = fired
    finally:
        sh(f"git -C /repo worktree remove --force {wt}")
        shutil.rmtree(wt, ignore_errors=True)
    json.dump(res, open(f"{OUT}/{tag}.json", "w"), indent=1)
    return res

if __name__ == "__main__":
    if "--checks-only" in sys.argv:
        CHECKS_ONLY = True
        sys.argv.remove("--checks-only")
    props = [a for a in sys.argv[1:] if not a.startswith("--")] or [f"C{i:02d}" for i in range(1, 21)]
    roots = ["/tmp/mut/out", "/tmp/mut/out2", "/tmp/mut/out3", "/tmp/mut/out4", "/tmp/mut/out5", "/tmp/mut/out6", "/tmp/mut/out7", "/tmp/mut/out8"]
    if "--round2" in sys.argv:
        roots = ["/tmp/mut/out2"]
    if "--round3" in sys.argv:
        roots = ["/tmp/mut/out3"]
    if "--round4" in sys.argv:
        roots = ["/tmp/mut/out4"]
    if "--round5" in sys.argv:
        roots = ["/tmp/mut/out5"]
    if "--round6" in sys.argv:
        roots = ["/tmp/mut/out6"]
    if "--round7" in sys.argv:
        roots = ["/tmp/mut/out7"]
    if "--round8" in sys.argv:
        roots = ["/tmp/mut/out8"]
    paths = sorted(p for root in roots for P in props for p in glob.glob(f"{root}/{P}/m*")
                   if os.path.isdir(p) and os.path.exists(os.path.join(p, "notes.md")))
    with ThreadPoolExecutor(int(os.environ.get("JV_IMPORT_JOBS", 16 if CHECKS_ONLY else 4))) as ex:
        for r in ex.map(one, paths):
            print(r["id"], "applies" if r.get("applies") else "NOAPPLY", "clean", r.get("demo_clean_rc"), "mut", r.get("demo_mutant_rc"),
                  "base", r.get("baseline_pass"), "fired", sorted((r.get("checks_fired") or {}).keys()), flush=True)
