#!/venv/bin/python
"""Development aid (not part of any check): compares the parameter names of the external models in jv/extern.py with the
signatures of the real functions (jax / equinox / optax are importable in /venv), so that keyword-style calls in the
analysed sources bind the same way in the model."""
import inspect, sys, functools
sys.path.insert(0, '/verif')
from jv import extern
from jv.interp import NS
ext, _ = extern.make_world_externals(lambda: None)
import jax, jax.numpy as jnp, equinox as eqx, optax
REAL = {"jnp": jnp, "jax": jax, "jax.lax": jax.lax, "jax.random": jax.random, "jax.tree_util": jax.tree_util, "jax.tree": jax.tree,
        "eqx": eqx, "optax": optax, "jnp.linalg": jnp.linalg, "jax.nn": jax.nn}
seen = set()


def params_of(f):
    try:
        sig = inspect.signature(f)
    except (TypeError, ValueError):
        return None
    return [(p.name, p.kind) for p in sig.parameters.values()]


def walk(ns, path):
    for k, v in vars(ns).items():
        if k.startswith('_'):
            continue
        if isinstance(v, NS):
            if id(v) not in seen:
                seen.add(id(v)); walk(v, v._name)
            continue
        real_ns = REAL.get(path)
        if real_ns is None or not callable(v) or not hasattr(real_ns, k):
            continue
        real = getattr(real_ns, k)
        rp, mp = params_of(real), params_of(getattr(v, '__wrapped__', v))
        if rp is None or mp is None:
            continue
        if any(kind == inspect.Parameter.VAR_POSITIONAL for _, kind in mp) and len(mp) <= 2:
            print(f"  [generic *args model] {path}.{k}: real {[n for n, _ in rp]}")
            continue
        ren = {v_: k_ for k_, v_ in extern._API_NAMES.get(path, {}).get(k, {}).items()}      # model name -> real name
        mp = [(ren.get(n, n), kind) for n, kind in mp]
        rp = [(n, kind) for n, kind in rp if n not in extern._IMMATERIAL]
        rn = [n for n, kind in rp if kind in (inspect.Parameter.POSITIONAL_OR_KEYWORD, inspect.Parameter.KEYWORD_ONLY)]
        mn = [n for n, kind in mp if kind in (inspect.Parameter.POSITIONAL_OR_KEYWORD, inspect.Parameter.KEYWORD_ONLY)]
        has_kw = any(kind == inspect.Parameter.VAR_KEYWORD for _, kind in mp)
        bad = [(i, a, b) for i, (a, b) in enumerate(zip(rn, mn)) if a != b]
        missing = [n for n in rn if n not in mn and not has_kw]
        if bad or missing:
            print(f"{path}.{k}: real={rn} model={mn}{' +**kw' if has_kw else ''}")


for name, ns in ext.items():
    if isinstance(ns, NS):
        seen.add(id(ns)); walk(ns, ns._name)
