#!/usr/bin/env python3
"""Re-runs the committed corpus of seeded breaking changes (/verif/seeded/<id>/patch.diff) against the current machinery: each
patch is applied to a scratch copy of /repo HEAD and all 20 quick checks are run; the change must still be reported (exit 1) by
at least the checks recorded in its meta.json.  usage: eval_seeded.py [--update] [seeded/<id> ...]
--update rewrites checks_reporting_violation / checks_inconclusive / caught_by_own_property_check in meta.json."""
import glob, json, os, shutil, subprocess, sys, tempfile
from concurrent.futures import ThreadPoolExecutor

VSNAP = "/verif"


def one(path):
    path = os.path.abspath(path)
    tag = os.path.basename(path.rstrip("/"))
    meta = json.load(open(os.path.join(path, "meta.json")))
    patch = os.path.join(path, "patch.diff")
    S = tempfile.mkdtemp(prefix="jvseed.")
    try:
        subprocess.run(f"git -C /repo archive HEAD jinns | tar -x -C {S}", shell=True, check=True)
        subprocess.run("git init -q . && git add -A >/dev/null && git -c user.email=a@b -c user.name=x commit -qm base", shell=True, cwd=S, check=True)
        r = subprocess.run(["git", "apply", patch], cwd=S, capture_output=True, text=True)
        if r.returncode != 0:
            return tag, meta, None, None, "patch does not apply to HEAD"
        viol, err = [], []
        for i in range(1, 21):
            pid = f"C{i:02d}"
            env = dict(os.environ, JV_EVIDENCE_DIR=os.path.join(S, ".ev"), JV_REPO=S)
            r = subprocess.run(["/venv/bin/python", os.path.join(VSNAP, "bin/check"), pid, "--repo", S], env=env, capture_output=True, text=True, timeout=900)
            if r.returncode == 1:
                viol.append(pid)
            elif r.returncode != 0:
                err.append(pid)
        return tag, meta, viol, err, None
    finally:
        shutil.rmtree(S, ignore_errors=True)


if __name__ == "__main__":
    args = sys.argv[1:]
    update = "--update" in args
    args = [a for a in args if a != "--update"]
    VSNAP = tempfile.mkdtemp(prefix="jvsnap.")
    for d in ("jv", "bin"):
        shutil.copytree(os.path.join("/verif", d), os.path.join(VSNAP, d))
    shutil.copy("/verif/known_findings.json", VSNAP)
    paths = [p for p in (args or sorted(glob.glob("/verif/seeded/C*"))) if os.path.isdir(p)]
    missed, lost, total = [], [], 0
    with ThreadPoolExecutor(8) as ex:
        for tag, meta, viol, err, problem in ex.map(one, paths):
            total += 1
            if problem:
                print(tag, "PROBLEM", problem)
                missed.append(tag)
                continue
            before = set(meta.get("checks_reporting_violation", []))
            gone = sorted(before - set(viol))
            new = sorted(set(viol) - before)
            own = meta["breaks_property"] in viol
            st = "caught" if viol else "MISSED"
            print(tag, st, "by", viol, ("own" if own else "NOT-OWN"), ("lost:" + ",".join(gone)) if gone else "", ("new:" + ",".join(new)) if new else "",
                  ("inconclusive:" + ",".join(err)) if err else "")
            if not viol:
                missed.append(tag)
            if gone:
                lost.append((tag, gone))
            if update:
                meta["checks_reporting_violation"] = viol
                meta["checks_inconclusive"] = err
                meta["caught_by_own_property_check"] = own
                json.dump(meta, open(os.path.join("/verif/seeded", tag, "meta.json"), "w"), indent=1)
    shutil.rmtree(VSNAP, ignore_errors=True)
    print(f"-- {total} seeded changes, {len(missed)} missed, {len(lost)} with a check that no longer reports")
    for t, g in lost:
        print("   lost", t, g)
    sys.exit(1 if missed else 0)
