#!/usr/bin/env python3
"""Regenerates /verif/MANIFEST.json from the table below (run after adding / removing a check)."""
import json, os

V = os.path.dirname(os.path.dirname(os.path.abspath(__file__)))
TRUST = ("Trusted base: the abstract models of jax / jax.numpy / equinox / optax primitives in jv/alg.py and jv/extern.py and "
         "the AST interpreter jv/interp.py; user-supplied callables are opaque and well-shaped as documented. Nothing from "
         "/repo is imported or executed; the check re-parses /repo's working tree on every run.")

CHECKS = {
    "C01": dict(
        technique="abstract interpretation of the AST over differential polynomials (tensor-formula inference) + export-table check",
        text="Decides WHICH differential expression every operator (reverse and forward versions, with/without time, d=1..4, "
             "scalar/vector outputs) computes, by interpreting jinns/loss/_operators.py over named-axis tensors of differential "
             "polynomials and comparing with div/lap/vector-lap/advection written from their definitions; shows that time is held "
             "fixed and that no parameter enters. It decides the formula, not floating-point values of JAX autodiff.",
        ref="DESIGN.md section 3 (C01)"),
    "C02": dict(
        technique="tensor-formula inference through evaluate() -> heterogeneity wrapper -> _evaluate -> equation, vs documented equations",
        text="Infers the residual polynomial of each built-in equation (PINN and SPINN branch, every network/parameter key layout "
             "of the multi-network equations, Tmax placement) and compares it with the documented differential expression. Decides "
             "the formula for all smooth fields/points/parameters at once; does not evaluate floating-point residuals.",
        ref="DESIGN.md section 3 (C02)"),
    "C03": dict(
        technique="tensor-formula inference on Loss*.evaluate (objects built through the repository's constructors)",
        text="For an opaque user residual with 1..3 components, scalar/per-component weights, with/without a per-sample parameter "
             "batch, PINN and SPINN: the dynamic term equals Mean[rows](sum_c w_c R_c^2); the returned total equals the sum of the "
             "returned terms for every subset of configured terms; unconfigured terms are exactly 0. Linearity in the weight, "
             "permutation invariance and the halves identity are corollaries of the inferred formula. Each obligation is evaluated again "
             "for a batch of a single row (the row axis declared to have extent 1); weights of exactly 0 switch the terms off; weights "
             "replaced after construction are the ones used.",
        ref="DESIGN.md section 3 (C03)"),
    "C04": dict(
        technique="tensor-formula inference on boundary_condition_apply and the four boundary functions, per facet, vs outward-normal specification",
        text="Per facet (tagged abstract border points), Dirichlet and Neumann, 1D/2D, stationary/non-stationary, PINN/SPINN, f returning "
             "vector / 0-d array / python scalar, global and per-facet dictionaries with None entries and integer/slice component "
             "selections: the boundary term equals sum_f w*Mean[facet rows](sum_c (D[u]_c - f)^2) with outward normals in the order "
             "xmin,xmax,ymin,ymax. The generator's facet geometry itself is checked under C08.",
        ref="DESIGN.md section 3 (C04)"),
    "C05": dict(
        technique="tensor-formula inference on the initial-condition, normalisation and observation terms",
        text="Infers the three terms for ODE / stationary / non-stationary losses (PINN and SPINN where implemented), output slices, "
             "scalar and vector weights, per-sample and observed equation parameters, and compares with the definitions in the "
             "property; an observed parameter whose row axis is not consumed by the same vmap as the inputs is reported.",
        ref="DESIGN.md section 3 (C05)"),
    "C06": dict(
        technique="label-propagating abstract interpretation: stop_gradient is the identity with a mark; marks inside each term's inferred formula vs the derivative specification",
        text="For every (term, parameter group) pair and every selected/not-selected assignment (each pair toggled on two backgrounds; "
             "all per-term subsets in the thorough tier), every occurrence of the group inside the term's formula is outside "
             "stop_gradient iff selected; values are independent of the specification; from_str equals the boolean-tree form; the "
             "default selects nn_params only; per-unknown terms of system losses follow derivative_keys_dict[k]. Gradient magnitudes "
             "follow from JAX's stop_gradient semantics (trusted).",
        ref="DESIGN.md section 3 (C06)"),
    "C13": dict(
        technique="tensor-formula inference on SystemLossODE/SystemLossPDE (constructor, set_loss_weights, evaluate, constraints_system_loss_apply)",
        text="System terms equal the weighted composition of equations (dyn) and unknowns (other terms, reference = the single-network "
             "loss of that unknown) for scalar / float / per-key dict / missing weights, with and without parameter batches, any number "
             "of equations and unknowns, equations called with (t, x, networks, params) in the documented order (opaque networks check "
             "argument roles), and a 1x1 system equals the plain loss term by term; a system whose stored weight table is replaced after construction evaluates like the system constructed with the new weights.",
        ref="DESIGN.md section 3 (C13)"),
}

CHECKS["C11"] = dict(
    technique="twin comparison by tensor-formula inference (forward-mode grid version vs reverse-mode pointwise version) with named grid axes",
    text="For the same opaque network, the SPINN/forward and PINN/reverse versions of the 4 operator pairs, the 5 built-in equations "
         "that have both branches and the dynamic / boundary / initial-condition / normalisation loss terms yield the same polynomial at "
         "every grid index; grid axes are named after their coordinate so a permuted axis order (time not first, xy instead of ij) is "
         "a finding. Decides equality of formulas, not of floating-point grids.",
    ref="DESIGN.md section 3 (C11)")
CHECKS["C12"] = dict(
    technique="formula inference with row-dependency tracking of parameter atoms + direct abstract evaluation of the parameter helpers and heterogeneity wrappers",
    text="Every occurrence of an equation parameter inside every term (top level and inside each network call) is the batch's row atom iff "
         "its key is batched - for every subset of batched keys, single and system losses, observed parameters; "
         "_get_vmap_in_axes_params/_update_eq_params_dict decided on all key subsets; heterogeneity wrappers replace exactly the declared "
         "entries with the user function's value at the point, called with the documented arguments; a hyper-network wrapper's input does not depend on the key order of the parameter dictionary. Undefined locals and writes into the "
         "caller's parameters on these paths are findings of the interpreter.",
    ref="DESIGN.md section 3 (C12)")
CHECKS["C20"] = dict(
    technique="effect analysis on the AST over the call-graph closure of the entry points + abstract interpretation with frozen arguments",
    text="No function reachable from evaluate/__call__/get_batch/*_batch/append_*_batch/dynamic-loss and network wrappers stores into, deletes from or calls "
         "a mutating method on an object reachable from its parameters (alias-aware, fixture-checked), none uses global/nonlocal/wall-clock/"
         "host randomness; evaluating the five loss classes with deep-frozen arguments for every combination of optional batch parts performs "
         "no write; results do not depend on the insertion order of the user's dictionaries nor on whether a weight is a Python float or a 0-d array (the two representations met eagerly and under jit); generator indices cannot leave int32. Equality eager == jit == value_and_grad primal is JAX's contract for pure functions and is not re-decided.",
    ref="DESIGN.md section 3 (C20)")

CHECKS["C08"] = dict(
    technique="abstract interpretation of the sampling code with a semantic model of jax.random.uniform (draw atoms, named count axes); grid-idiom rule",
    text="Samplers: requested counts, coordinate i drawn in [min_i, max_i] of its own axis (time, interior d=1..3, parameter ranges); border "
         "facets: pinned coordinate/side per facet in the order xmin,xmax,ymin,ymax and free coordinate in its own range, 1-D border [xmin,xmax] "
         "served as (1,1,2); store shapes (nt, n x d, nb//(2d) x d x 2d); grid method: lower bound, upper bound and exact count (a float-step "
         "arange is reported; on small concrete counts the stored grid is a table of points that must be regularly spaced inside its own closed interval, every point of the product grid once, for dim 1-3); batches are dynamic slices of the store with the declared batch shape; in the space-time batches column 0 holds the times and the other columns the coordinates of the same facet. Float rounding at the closed ends is not "
         "decided.",
    ref="DESIGN.md section 3 (C08)")
CHECKS["C09"] = dict(
    technique="symbolic evaluation of one batch draw per generator kind to uninterpreted terms with integer comparator normal forms, compared with the specified step",
    text="For every generator kind (times, interior, border, observation indices, parameter samples; with and without the RAR effective "
         "length) one draw equals: reshuffle iff idx + b - n_rows >= 0, reshuffle = weighted row permutation without replacement with a split "
         "key, index reset / advanced by b, an advanced key left behind by every store (parameter and observation loaders included), batch sliced from the updated store at the updated index, every other field unchanged; plus the "
         "initial index and the end index actually compared at the first draw force a first reshuffle without int32 overflow; generators built by their constructors without RAR use the full store whatever start count the caller passed. The per-epoch served-once statement over all histories follows from "
         "this step shape by the index argument in DESIGN.md section 6 and is not model-checked (family limit).",
    ref="DESIGN.md section 3 (C09)")
CHECKS["C14"] = dict(
    technique="abstract interpretation with structured row axes (repeat/tile -> product axes) of make_cartesian_product and CubicMeshPDENonStatio.get_batch",
    text="make_cartesian_product yields rows Prod(rows(b1), rows(b2)) with b1 major and columns [b1 | b2] (2-D and border 3-D tensors); "
         "get_batch for cartesian / paired mode, dim 1 and 2, with and without border: interior rows Prod(time, space) or paired rows, each "
         "border facet Prod(time, border) with the same time column for all facets, time in column 0, dim 1 forcing the product for the border.",
    ref="DESIGN.md section 3 (C14)")
CHECKS["C15"] = dict(
    technique="symbolic evaluation of the loaders (constructors and batch methods) on tagged tables; kind-path evaluation of the table-shape branches",
    text="Observation loader: constructor stores the three user tables unchanged (1-D inputs, with/without sharding device), one index vector "
         "(a dynamic slice of the shuffled index store) gathers input, value and every observed parameter along axis 0; parameter loader: (n,1) "
         "and (n,) tables accepted, other shapes rejected, table has priority over a range, per-key ranges; multi-network loader pairs tables by "
         "key for any insertion order and returns one aligned batch per network with an empty entry for networks without observations.",
    ref="DESIGN.md section 3 (C15)")

CHECKS["C07"] = dict(
    technique="symbolic evaluation of solve() with opaque loss/optimizer/generators/validation (while_loop intercepted): one iteration, continuation predicate, initial carry and returned values as uninterpreted terms compared with the textbook step",
    text="Decides the wiring of ONE iteration for every combination of optional generators / validation / verbosity: next batch of "
         "every generator (appended to the batch), loss and gradient at the current parameters on that batch, optimizer.update(grads, "
         "state, params), apply_updates, histories at index i with post-update tracked parameters, advanced generators and new state "
         "carried, counter + 1; continuation iff i < n_iter (and no NaN / early stop); the initial carry (every generator advanced by the same number of pre-loop draws); the provenance of the nine "
         "returned values; the sharded and jitted get_batch variants agree. Equality of whole histories with a reference loop for all "
         "optimisers / programs / resumed runs needs iterating the step (other families) and is not claimed.",
    ref="DESIGN.md section 3 (C07)")
CHECKS["C18"] = dict(
    technique="same symbolic one-iteration analysis of solve(); direct abstract evaluation of _check_nan_in_pytree on flat and nested parameter trees",
    text="last_non_nan_params' = previous value if any leaf of the post-update parameters has a NaN else the post-update parameters; the "
         "loop continues only if no leaf of the carried parameters has a NaN (so it stops right after the failing iteration); solve returns "
         "last_non_nan_params (initially init_params); the NaN test is any-over-leaves of any(isnan); the failing iteration writes histories "
         "at its own index with the reference values. Origins of the NaN (loss, gradient, update) all flow into the post-update parameters.",
    ref="DESIGN.md section 3 (C18)")
CHECKS["C19"] = dict(
    technique="same symbolic one-iteration analysis of solve() with an opaque validation module; symbolic evaluation of ValidationLoss.__call__ with real-valued strict comparison",
    text="Validation invoked iff i mod call_every == 0 with the post-update parameters; criterion recorded at i (carried forward from i-1 "
         "otherwise, for every verbosity); early-stopping flag and best parameters follow the module; the loop stops on the flag. "
         "ValidationLoss: strict improvement test against best_val_loss, counter reset / incremented, best updated, stop = (pre-update "
         "counter == patience) and early_stopping switch, loss evaluated on its own next batches and all its generators written back. "
         "Sequences of validation outcomes follow by iterating this step and are not enumerated here.",
    ref="DESIGN.md section 3 (C19)")

CHECKS["C10"] = dict(
    technique="symbolic evaluation of the wrapper classes with opaque networks / transforms; concrete small-tensor evaluation of the separable einsum",
    text="PINN/HYPERPINN.eval_nn equals output_transform(inputs, net(input_transform(inputs, params)).squeeze(), params)[output_slice] with a "
         "trailing axis, bare network parameters accepted; __call__ dispatch per equation type (scalar or length-one time, network input "
         "[t, x]); SPINN.eval_nn on small concrete tensors equals the grid of sum_r prod_d f_d(x_d) per output slot stacked last; the "
         "hyper-network input follows the hyperparams order and its output is split / reshaped in parameter-leaf order; shared-output "
         "wrappers are slices of one common network. Equality with an independent numerical forward pass is not decided.",
    ref="DESIGN.md section 3 (C10)")
CHECKS["C16"] = dict(
    technique="symbolic evaluation of _proceed_to_rar / trigger_rar / the step functions / init_rar on generators with symbolic state; comparator normal forms; activation-range rule",
    text="One-step structure for ODE / stationary / non-stationary generators: step predicate (i >= start, period counter == "
         "update_every - 1, enough inactive slots in every store), counters after a step / non-step, mask activation covering exactly "
         "start + (J+1) * selected entries per family, trigger_rar = cond(predicate, step, no step), constructor state (mask, counter "
         "update_every - 1, count 0) kept by init_rar; the training loop asks the trigger once per iteration with that iteration's index and the freshly advanced generator. The schedule over iteration histories follows by induction from these facts and "
         "is not mechanised (history quantifier, outside this family).",
    ref="DESIGN.md section 3 (C16)")
CHECKS["C17"] = dict(
    technique="symbolic evaluation of a refinement step with formula inference of the candidates' squared residuals; store-update and selection terms compared with the specification",
    text="Added points = gather(candidates, indices of the `selected` largest squared residuals of the current network) - argsort tail "
         "(ODE / stationary, single and system losses) or top-k of the time-major candidate grid with row / column recovery by the grid's "
         "own shape (non-stationary); after the step the active entries of each mask are the first start + (J+1) * selected of its own family and the step functions are built with the sizes of the right family; candidates from the generator's own samplers with requested counts (real samplers exercised for dim "
         "1 and 2); new points written at start + J * selected of the store's own family; a step requires room in every store it writes. "
         "Interleavings with reshuffles over histories are not explored.",
    ref="DESIGN.md section 3 (C17)")

UNDER_CONSTRUCTION = "check under construction in this build round; not yet claimed"
NA = {}


def main():
    props = [json.loads(l) for l in open(os.path.join(V, "properties.jsonl"))]
    checks = []
    for p in props:
        pid = p["id"]
        if pid not in CHECKS:
            continue
        c = CHECKS[pid]
        checks.append({
            "property_id": pid,
            "quick_cmd": f"/venv/bin/python /verif/bin/check {pid} --tier quick",
            "thorough_cmd": f"/venv/bin/python /verif/bin/check {pid} --tier thorough",
            "evidence_file": f"/verif/evidence/{pid}.json",
            "replay_cmd_template": f"/venv/bin/python /verif/bin/check {pid} --tier thorough --replay {{path}}",
            "engine": "jv",
            "level_claimed": {"category": "other", "text": c["text"], "design_ref": c["ref"]},
            "level_note": TRUST,
            "technique": "static analysis: " + c["technique"],
        })
    na = []
    for p in props:
        if p["id"] not in CHECKS:
            na.append({"property_id": p["id"], "reason": NA.get(p["id"], UNDER_CONSTRUCTION)})
    m = {
        "version": 1,
        "setup_cmd": "/venv/bin/python -m compileall -q /verif/jv /verif/bin/check",
        "hooks": {
            "guard": "JINNS_VERIF",
            "enable": "no hooks: the checks are static analyses of /repo's working tree; nothing from /repo is imported or executed",
            "baseline_off_cmd": "cd /repo && /venv/bin/python -m pytest -ra -q -p no:cacheprovider --timeout=900 --continue-on-collection-errors",
            "source_commits": [],
            "add_only": True,
        },
        "engines": [
            {"name": "jv", "path": "/verif/jv",
             "serves_properties": sorted(CHECKS),
             "kind_free_text": "static analysis: AST interpreter over abstract domains (named-axis tensors of differential "
                               "polynomials; uninterpreted terms with comparator normal forms) with models of the jax/equinox "
                               "primitives; obligations = rule x site x static configuration"}],
        "checks": checks,
        "notes": "All checks share bin/check; exit 0 = every obligation passed (KNOWN-FINDING lines for listed findings), exit 1 + "
                 "VIOLATION line = a construct positively contradicts a specified condition, exit 2 + ANALYSIS-ERROR = the source left "
                 "the analyser's vocabulary or an anchor vanished (never a silent pass).",
        "not_applicable": na,
    }
    json.dump(m, open(os.path.join(V, "MANIFEST.json"), "w"), indent=1)
    print(f"{len(checks)} checks, {len(na)} not applicable / pending")


if __name__ == "__main__":
    main()
