#!/venv/bin/python
"""dev helper: dev/mut.py <ID> <relfile> <old> <new> [--tier t] : textual single-site edit on a scratch copy, run check"""
import sys, os, shutil, subprocess, tempfile
pid, rel, old, new = sys.argv[1:5]
rest = sys.argv[5:]
S = tempfile.mkdtemp(prefix="jvmut.")
try:
    shutil.copytree("/repo/jinns", os.path.join(S, "jinns"))
    p = os.path.join(S, rel)
    s = open(p).read()
    n = s.count(old)
    if n == 0:
        print("OLD TEXT NOT FOUND"); sys.exit(3)
    idx = 0
    if "--nth" in rest:
        i = rest.index("--nth"); idx = int(rest[i+1]); rest = rest[:i] + rest[i+2:]
    parts = s.split(old)
    s2 = old.join(parts[:idx+1]) + new + old.join(parts[idx+1:])
    open(p, "w").write(s2)
    env = dict(os.environ, JV_EVIDENCE_DIR=os.path.join(S, "ev"), JV_REPO=S)
    r = subprocess.run(["/venv/bin/python", "/verif/bin/check", pid, "--repo", S] + rest, env=env, capture_output=True, text=True)
    out = r.stdout.strip().splitlines()
    for l in out[-12:]:
        print(l[:300])
    print("exit", r.returncode, f"(occurrences of old text: {n})")
finally:
    shutil.rmtree(S, ignore_errors=True)
