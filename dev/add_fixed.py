#!/usr/bin/env python3
"""usage: add_fixed.py <property> <commit> <rule> <what> <detected-by> -- appends a fixed entry to known_findings.json and a row to DESIGN section 5"""
import json, sys
pid, commit, rule, what, det = sys.argv[1:6]
p = '/verif/known_findings.json'
d = json.load(open(p))
if not any(e['commit'] == commit for e in d['fixed']):
    d['fixed'].append({"property": pid, "commit": commit, "rule": rule, "what": what, "line": f"fixed: property={pid} {commit} {what}"})
    json.dump(d, open(p, 'w'), indent=1)
p = '/verif/DESIGN.md'
s = open(p).read()
row = f"| {commit} | {rule} | {what} | {det} |\n"
if commit not in s:
    marker = "\n---------------------------------------------------------------------------------------------\n\n## 6."
    i = s.index(marker)
    s = s[:i].rstrip('\n') + "\n" + row + s[i:]
    open(p, 'w').write(s)
