#!/usr/bin/env python3
"""Runs all 20 quick checks on a scratch copy of /repo with each behaviour-preserving refactoring applied; any non-zero exit is
a false alarm (1) or an inconclusive analysis (2) to look at.  usage: eval_refactors.py [dir ...] (default /tmp/ref/out/*/r*)"""
import glob, os, subprocess, sys, tempfile, shutil, json
from concurrent.futures import ThreadPoolExecutor

import re as _re


def _keys(out):
    ks = set()
    for l in out.splitlines():
        l = l.strip()
        if " rule=" in l and (" instance=" in l or l.startswith("ANALYSIS-ERROR")):
            ks.add(_re.sub(r"/tmp/\S+", "<tmp>", l)[:400])
    return ks


def _run_all(S):
    res = {}
    only = os.environ.get("JV_ONLY", "").split(",") if os.environ.get("JV_ONLY") else None
    for i in range(1, 21):
        pid = f"C{i:02d}"
        if only and pid not in only:
            continue
        env = dict(os.environ, JV_EVIDENCE_DIR=os.path.join(S, ".ev"), JV_REPO=S)
        r = subprocess.run(["/venv/bin/python", os.path.join(VSNAP, "bin/check"), pid, "--repo", S], env=env, capture_output=True, text=True, timeout=900)
        res[pid] = (r.returncode, _keys(r.stdout))
    return res


def relative(path, patch, tag):
    """the patch no longer applies to HEAD (later fix commits touch the same lines): find the newest commit it applies to and
    require that the checks report exactly the same violations / analysis errors with and without it there"""
    shas = subprocess.run(["git", "-C", "/repo", "log", "--format=%h", "924039f^..HEAD"], capture_output=True, text=True).stdout.split()
    for sha in shas:
        B = tempfile.mkdtemp(prefix="jvrefb.")
        P = tempfile.mkdtemp(prefix="jvrefp.")
        try:
            for D in (B, P):
                subprocess.run(f"git -C /repo archive {sha} jinns | tar -x -C {D}", shell=True, check=True)
            subprocess.run("git init -q . && git add -A >/dev/null && git -c user.email=a@b -c user.name=x commit -qm base", shell=True, cwd=P, check=True)
            if subprocess.run(["git", "apply", patch], cwd=P, capture_output=True).returncode != 0:
                continue
            rb, rp = _run_all(B), _run_all(P)
            bad = {}
            for pid in rb:
                new = rp[pid][1] - rb[pid][1]
                if new or (rp[pid][0] != rb[pid][0]):
                    bad[pid] = (rp[pid][0], sorted(new)[:3] or [f"exit {rb[pid][0]} -> {rp[pid][0]}"])
            return tag, f"ok (relative to {sha}: same reports with and without the patch)" if not bad else f"relative to {sha}", bad
        finally:
            shutil.rmtree(B, ignore_errors=True); shutil.rmtree(P, ignore_errors=True)
    return tag, "patch applies to no commit", {}


def one(path):
    path = os.path.abspath(path)
    tag = "/".join(path.rstrip("/").split("/")[-2:])
    patch = os.path.join(path, "patch.diff")
    if os.path.exists(os.path.join(path, "patch_rebased.diff")):
        patch = os.path.join(path, "patch_rebased.diff")      # rebased by hand onto later fix commits
    if not os.path.exists(patch):
        return tag, "no patch", {}
    S = tempfile.mkdtemp(prefix="jvref.")
    try:
        subprocess.run(f"git -C /repo archive HEAD jinns | tar -x -C {S}", shell=True, check=True)
        subprocess.run("git init -q . && git add -A >/dev/null && git -c user.email=a@b -c user.name=x commit -qm base", shell=True, cwd=S, check=True)
        r = subprocess.run(["git", "apply", patch], cwd=S, capture_output=True, text=True)
        if r.returncode != 0:
            # the patch was written against an earlier HEAD: three-way merge in a clone that has the blobs
            shutil.rmtree(S, ignore_errors=True)
            subprocess.run(["git", "clone", "-q", "--local", "/repo", S], check=True)
            r = subprocess.run(["git", "apply", "-3", patch], cwd=S, capture_output=True, text=True)
            if r.returncode != 0:
                return relative(path, patch, tag)
        bad = {}
        for i in range(1, 21):
            pid = f"C{i:02d}"
            env = dict(os.environ, JV_EVIDENCE_DIR=os.path.join(S, ".ev"), JV_REPO=S)
            r = subprocess.run(["/venv/bin/python", os.path.join(VSNAP, "bin/check"), pid, "--repo", S], env=env, capture_output=True, text=True, timeout=900)
            if r.returncode != 0:
                lines = [l.strip()[:260] for l in r.stdout.splitlines() if "instance=" in l or l.startswith("ANALYSIS-ERROR") or "found:" in l][:3]
                bad[pid] = (r.returncode, lines)
        return tag, "ok", bad
    finally:
        shutil.rmtree(S, ignore_errors=True)

VSNAP = "/verif"

if __name__ == "__main__":
    # run from a frozen copy of the machinery so that edits made while the evaluation runs cannot disturb it
    VSNAP = tempfile.mkdtemp(prefix="jvsnap.")
    for d in ("jv", "bin"):
        shutil.copytree(os.path.join("/verif", d), os.path.join(VSNAP, d))
    shutil.copy("/verif/known_findings.json", VSNAP)
    paths = [p for p in (sys.argv[1:] or sorted(glob.glob("/verif/refactorings/*"))) if os.path.isdir(p)]
    with ThreadPoolExecutor(8) as ex:
        for tag, st, bad in ex.map(one, paths):
            print(tag, st, "ALL SILENT" if (st.startswith("ok") and not bad) else "")
            for pid, (rc, lines) in bad.items():
                print("   ", pid, "exit", rc)
                for l in lines:
                    print("       ", l)
    shutil.rmtree(VSNAP, ignore_errors=True)
