import os, warnings
os.environ["JAX_PLATFORMS"]="cpu"
warnings.filterwarnings("ignore")
import jax, jax.numpy as jnp
bad=[]
for (a,b) in [(0.,1.),(-3.,3.),(0.1,0.7),(0.,10.)]:
    for n in range(1,400):
        m = jnp.arange(a,b,(b-a)/n).shape[0]
        if m!=n: bad.append((a,b,n,m))
print(len(bad), bad[:10])
