from tfi import *
import tfi
# ---- load utils._get_grid and operators, then DynamicLoss classes
env_u, _, it = load_module("jinns/utils/_utils.py", {})
env_o, _, _ = load_module("jinns/loss/_operators.py", {})
extra = {k: env_o.get(k) for k in ["_laplacian_rev","_laplacian_fwd","_div_rev","_div_fwd","_vectorial_laplacian","_u_dot_nabla_times_u_rev","_u_dot_nabla_times_u_fwd"]}
extra["_get_grid"] = env_u.get("_get_grid")
env, classes, it = load_module("jinns/loss/_DynamicLoss.py", extra)

class Inst:
    """abstract instance of a repo class: attributes + methods looked up through bases (by name)"""
    def __init__(s, cls, attrs): s._cls, s._attrs = cls, attrs
    def __getattr__(s, k):
        at = object.__getattribute__(s, "_attrs")
        if k in at: return at[k]
        c = object.__getattribute__(s, "_cls")
        while c is not None:
            node = classes.get(c)
            if node is None: break
            for st in node.body:
                if isinstance(st, ast.FunctionDef) and st.name == k:
                    f = Closure(st, env, it, f"{c}.{k}")
                    return lambda *a, **kw: f(s, *a, **kw)
            c = node.bases[0].id if node.bases and isinstance(node.bases[0], ast.Name) else None
        raise AttributeError(k)

def strip_deps(p):
    def ra(a):
        if a[0] in ('X','T','P','F'): return a[:-1] + (frozenset(),)
        if a[0]=='U': return a[:5]+(frozenset(),)
        if a[0]=='Log': return ('Log', ra(a[1]))
        return a
    return Poly({tuple(sorted(((ra(a),e) for a,e in k), key=repr)): v for k,v in p.t.items()})
def norm(at):
    at = to_at(at)
    return [strip_deps(at.data[i]) for i in np.ndindex(at.data.shape)], at.axes

class ParamsObj(Obj):
    pass
def params(eq): return Obj("Params", {"nn_params": "THETA", "eq_params": eq})

def run(name, cls, attrs, mk):
    for kind in ("PINN","SPINN"):
        try:
            inst = Inst(cls, dict(attrs, Tmax=K("Tmax")))
            args = mk(kind)
            r = norm(inst.equation(*args))
            print(f"{name:8s} {kind:5s} axes={r[1]} ->", r[0])
            yield kind, r
        except (Top, Finding) as e:
            print(f"{name:8s} {kind:5s} {type(e).__name__}: {e}")

def cmp(name, gen):
    res = dict(gen)
    if len(res)==2: print(f"   twin equal: {res['PINN'][0]==res['SPINN'][0]}")

# Burgers d=1
def mk_burger(kind):
    u = Net("u", kind, 1, True, 1)
    if kind=="PINN": return (tm(), pt(1), u, params({"nu": Pm("nu")}))
    return (batch_t(), batch_x(1), u, params({"nu": Pm("nu")}))
cmp("burgers", run("burgers","BurgerEquation",{},mk_burger))
# Fisher d=2
def mk_fisher(kind):
    u = Net("u", kind, 1, True, 2)
    eq = {"D":Pm("D"),"r":Pm("r"),"g":Pm("g")}
    if kind=="PINN": return (tm(), pt(2), u, params(eq))
    return (batch_t(), batch_x(2), u, params(eq))
cmp("fisher", run("fisher","FisherKPP",{},mk_fisher))
# OU FPE d=2
def mk_ou(kind):
    u = Net("u", kind, 1, True, 2)
    eq = {"alpha":Pm("alpha",(2,)),"mu":Pm("mu",(2,)),"sigma":Pm("sigma",(2,))}
    if kind=="PINN": return (tm(), pt(2), u, params(eq))
    return (batch_t(), batch_x(2), u, params(eq))
cmp("ou", run("ou","OU_FPENonStatioLoss2D",{},mk_ou))
