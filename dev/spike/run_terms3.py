from tfi import *
exec(open("run_terms.py").read().split("# ---------- dynamic_loss_apply")[0])
# --- SPINN normalisation
us = Net("u","SPINN",1,False,2)

nla = env_l.get("normalization_loss_apply"); ica = env_l.get("initial_condition_apply")
show("norm SPINN statio", lambda: nla(us, (batch_x(2,"S"),), params(), (0,None), K("L"), K("w")))
ust = Net("u","SPINN",1,True,2)
show("norm SPINN nonstatio", lambda: nla(ust, (batch_t("B"), batch_x(2,"S")), params(), (0,0,None), K("L"), K("w")))
u0g = lambda xg: AT(tuple(to_at(xg).axes[:-1]), np.array(Poly.atom(('F','u0',None,frozenset(a for a in to_at(xg).axes if isinstance(a,str)))),dtype=object))
show("IC SPINN", lambda: ica(ust, batch_x(2), params(), (0,None), u0g, SymDim("B"), to_at(K("w"))))
# --- boundary SPINN statio dirichlet / neumann 2D
bns = env_b.get("boundary_neumann_statio"); bds = env_b.get("boundary_dirichlet_statio")
def border2d():
    d = np.empty((2,4), dtype=object)
    for c in range(2):
        for f in range(4): d[c,f] = Poly.atom(('X', c, frozenset({"B"})))
    return AT(("B",2,4), d)
batch = Obj("PDEStatioBatch", {"inside_batch": batch_x(2), "border_batch": border2d(), "param_batch_dict": None, "obs_batch_dict": None})
fg = lambda xg: AT(tuple(to_at(xg).axes[:-1])+(1,), np.array([Poly.atom(('F','f',None,frozenset(a for a in to_at(xg).axes if isinstance(a,str))))],dtype=object))
for facet in (0,3):
    show(f"dirichlet SPINN facet={facet}", lambda: bds(fg, batch, us, params(), facet, slice(None)))
    show(f"neumann SPINN facet={facet}", lambda: bns(fg, batch, us, params(), facet, slice(None)))
