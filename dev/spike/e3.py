import os, warnings
os.environ["JAX_PLATFORMS"]="cpu"
warnings.filterwarnings("ignore")
import jax, jax.numpy as jnp, jinns, equinox as eqx
import numpy as np
from jinns.data._Batchs import PDEStatioBatch, PDENonStatioBatch, ODEBatch
from jinns.loss import PDENonStatio, ODE
key = jax.random.PRNGKey(0)
# ---- C13: SystemLossPDE nonstatio arg order
class Eq(PDENonStatio):
    def equation(self, t, x, u_dict, params_dict):
        jax.debug.print("equation got t.shape={a} x.shape={b}", a=t.shape, b=x.shape)
        return u_dict["a"](t, x, params_dict.extract_params("a"))
ua = jinns.utils.create_PINN(key, ((eqx.nn.Linear,3,1),), "nonstatio_PDE", 2)
pd = jinns.parameters.ParamsDict(nn_params={"a":ua.init_params()}, eq_params={"nu":jnp.array(1.)})
try:
    sl = jinns.loss.SystemLossPDE(u_dict={"a":ua}, dynamic_loss_dict={"e":Eq()}, params_dict=pd, loss_weights=jinns.loss.LossWeightsPDEDict())
    b = PDENonStatioBatch(times_x_inside_batch=jnp.ones((4,3)), times_x_border_batch=None)
    print("C13 nonstatio eval:", sl(pd, b)[0])
except Exception as e:
    print("C13 nonstatio raises:", type(e).__name__, str(e)[:300])
# dict weights
try:
    sl = jinns.loss.SystemLossPDE(u_dict={"a":ua}, dynamic_loss_dict={"e":Eq()}, params_dict=pd, loss_weights=jinns.loss.LossWeightsPDEDict(dyn_loss={"e":2.0}))
    print("dict weights ok", sl._loss_weights)
except Exception as e:
    print("C13 dict weights raises:", type(e).__name__, str(e)[:200])
# C20: mutation of params_dict by SystemLossPDE.evaluate with param batch
try:
    sl = jinns.loss.SystemLossPDE(u_dict={"a":ua}, dynamic_loss_dict={"e":Eq()}, params_dict=pd, loss_weights=jinns.loss.LossWeightsPDEDict())
    b = PDENonStatioBatch(times_x_inside_batch=jnp.ones((4,3)), times_x_border_batch=None, param_batch_dict={"nu":jnp.arange(4.)[:,None]})
    before = pd.eq_params["nu"]
    try:
        sl(pd, b)
    except Exception as e:
        print("  eval raised", type(e).__name__, str(e)[:100])
    print("C20 eq_params nu before:", before, "after:", pd.eq_params["nu"].shape)
except Exception as e:
    print("C20 raises:", type(e).__name__, str(e)[:200])
# C12: SystemLossODE with param batch
class EqO(ODE):
    def equation(self, t, u_dict, params_dict):
        return u_dict["a"](t, params_dict.extract_params("a"))
uo = jinns.utils.create_PINN(key, ((eqx.nn.Linear,1,1),), "ODE")
pdo = jinns.parameters.ParamsDict(nn_params={"a":uo.init_params()}, eq_params={"nu":jnp.array(1.)})
slo = jinns.loss.SystemLossODE(u_dict={"a":uo}, dynamic_loss_dict={"e":EqO()}, params_dict=pdo, loss_weights=jinns.loss.LossWeightsODEDict(dyn_loss=1., initial_condition=1., observations=1.))
print("ODE sys no param batch:", slo(pdo, ODEBatch(temporal_batch=jnp.ones((4,))))[0])
try:
    print(slo(pdo, ODEBatch(temporal_batch=jnp.ones((4,)), param_batch_dict={"nu":jnp.arange(4.)[:,None]})))
except Exception as e:
    print("C12 SystemLossODE param batch raises:", type(e).__name__, str(e)[:200])
