"""Throwaway feasibility spike: interpret jinns/loss/_operators.py (reverse-mode
functions) over a differential-polynomial domain, from the AST only."""
import ast, sys, itertools
from fractions import Fraction
import numpy as np

# ---------------- polynomial domain ----------------
class Poly:
    __slots__ = ("t",)
    def __init__(self, t=None):
        self.t = {k: v for k, v in (t or {}).items() if v != 0}
    @staticmethod
    def const(c): return Poly({(): Fraction(c)})
    @staticmethod
    def atom(a): return Poly({((a, 1),): Fraction(1)})
    def __add__(s, o):
        o = lift(o); d = dict(s.t)
        for k, v in o.t.items(): d[k] = d.get(k, 0) + v
        return Poly(d)
    __radd__ = __add__
    def __neg__(s): return Poly({k: -v for k, v in s.t.items()})
    def __sub__(s, o): return s + (-lift(o))
    def __rsub__(s, o): return lift(o) - s
    def __mul__(s, o):
        o = lift(o); d = {}
        for k1, v1 in s.t.items():
            for k2, v2 in o.t.items():
                m = dict(k1)
                for a, e in k2: m[a] = m.get(a, 0) + e
                k = tuple(sorted((a, e) for a, e in m.items() if e != 0))
                d[k] = d.get(k, 0) + v1 * v2
        return Poly(d)
    __rmul__ = __mul__
    def __pow__(s, n):
        r = Poly.const(1)
        for _ in range(int(n)): r = r * s
        return r
    def __eq__(s, o): return isinstance(o, Poly) and s.t == o.t
    def __hash__(s): return hash(tuple(sorted(s.t.items())))
    def __repr__(s):
        if not s.t: return "0"
        out = []
        for k, v in sorted(s.t.items()):
            mon = "*".join(f"{a}" + (f"^{e}" if e != 1 else "") for a, e in k)
            out.append(f"{v}*{mon}" if mon and v != 1 else (mon or str(v)))
        return " + ".join(out)
    def diff(s, var):
        """derivation wrt coordinate `var` ('T' or ('X', j))"""
        res = Poly()
        for k, v in s.t.items():
            for i, (a, e) in enumerate(k):
                da = datom(a, var)
                if da is None: continue
                rest = dict(k); rest[a] = e - 1
                mono = Poly({tuple(sorted((x, y) for x, y in rest.items() if y)): v * e})
                res = res + mono * da
        return res

def lift(x):
    return x if isinstance(x, Poly) else Poly.const(x)

def datom(a, var):
    # atoms: ('U', net, comp, alpha) alpha = sorted tuple of vars ; ('X', j) ; 'T' ; ('P', name)
    if a == var: return Poly.const(1)
    if isinstance(a, tuple) and a[0] == 'U':
        return Poly.atom(('U', a[1], a[2], tuple(sorted(a[3] + (var,), key=str))))
    return None

# ---------------- tiny AST evaluator ----------------
class Closure:
    def __init__(s, node, env, interp): s.node, s.env, s.interp = node, env, interp
    def __call__(s, *args):
        a = s.node.args
        names = [x.arg for x in a.args]
        env = dict(s.env); env.update(zip(names, args))
        if isinstance(s.node, ast.Lambda):
            return s.interp.ev(s.node.body, env)
        return s.interp.run(s.node.body, env)

class Net:
    """opaque network: canonical point only"""
    def __init__(s, name, m, has_t, d): s.name, s.m, s.has_t, s.d = name, m, has_t, d
    def __call__(s, *args):
        if s.has_t:
            t, x, p = args
            assert is_canon_t(t), "time slot is not the canonical time"
        else:
            x, p = args
        assert is_canon_x(x, s.d), "space slot is not the canonical point"
        return np.array([Poly.atom(('U', s.name, k, ())) for k in range(s.m)], dtype=object)

def is_canon_t(t): return isinstance(t, np.ndarray) and t.shape == (1,) and t[0] == Poly.atom('T')
def is_canon_x(x, d): return isinstance(x, np.ndarray) and x.shape == (d,) and all(x[j] == Poly.atom(('X', j)) for j in range(d))

class Ret(Exception):
    def __init__(s, v): s.v = v

def var_of(arg):
    """map a canonical argument array to list of coordinate vars"""
    return [list(e.t.keys())[0][0][0] for e in arg]

def grad(f, argnums=0):
    def g(*args):
        val = f(*args)
        assert isinstance(val, Poly), f"grad of non-scalar {val!r}"
        return np.array([val.diff(v) for v in var_of(args[argnums])], dtype=object)
    return g

def hessian(f, argnums=0):
    def h(*args):
        val = f(*args)
        vs = var_of(args[argnums])
        return np.array([[val.diff(a).diff(b) for b in vs] for a in vs], dtype=object)
    return h

def scan(f, init, xs):
    outs = []
    c = init
    for x in xs:
        c, o = f(c, x)
        outs.append(o)
    return c, np.array(outs, dtype=object)

class Interp:
    def __init__(s, glob): s.glob = glob
    def run(s, body, env):
        try:
            for st in body: s.stmt(st, env)
        except Ret as r: return r.v
        return None
    def stmt(s, st, env):
        if isinstance(st, ast.Expr): s.ev(st.value, env) if not isinstance(st.value, ast.Constant) else None
        elif isinstance(st, ast.Assign):
            v = s.ev(st.value, env)
            for t in st.targets: s.bind(t, v, env)
        elif isinstance(st, ast.Return): raise Ret(s.ev(st.value, env))
        elif isinstance(st, ast.If):
            c = s.ev(st.test, env)
            s_body = st.body if c else st.orelse
            for x in s_body: s.stmt(x, env)
        elif isinstance(st, ast.FunctionDef): env[st.name] = Closure(st, env, s)
        elif isinstance(st, ast.Raise): raise RuntimeError("raise reached")
        else: raise NotImplementedError(ast.dump(st)[:80])
    def bind(s, t, v, env):
        if isinstance(t, ast.Name): env[t.id] = v
        elif isinstance(t, ast.Tuple):
            for a, b in zip(t.elts, v): s.bind(a, b, env)
        else: raise NotImplementedError
    def ev(s, e, env):
        if isinstance(e, ast.Constant): return e.value
        if isinstance(e, ast.Name):
            if e.id in env: return env[e.id]
            return s.glob[e.id]
        if isinstance(e, ast.Lambda): return Closure(e, env, s)
        if isinstance(e, ast.Attribute):
            v = s.ev(e.value, env)
            return getattr(v, e.attr)
        if isinstance(e, ast.Call):
            f = s.ev(e.func, env)
            args = [s.ev(a, env) for a in e.args]
            kw = {k.arg: s.ev(k.value, env) for k in e.keywords}
            return f(*args, **kw)
        if isinstance(e, ast.Subscript):
            v = s.ev(e.value, env); i = s.ev(e.slice, env)
            return v[i]
        if isinstance(e, ast.Tuple): return tuple(s.ev(x, env) for x in e.elts)
        if isinstance(e, ast.List): return [s.ev(x, env) for x in e.elts]
        if isinstance(e, ast.Dict): return {s.ev(k, env): s.ev(v, env) for k, v in zip(e.keys, e.values)}
        if isinstance(e, ast.BinOp):
            a, b = s.ev(e.left, env), s.ev(e.right, env)
            op = type(e.op)
            return {ast.Add: lambda: a + b, ast.Sub: lambda: a - b, ast.Mult: lambda: a * b, ast.Pow: lambda: a ** b}[op]()
        if isinstance(e, ast.Compare):
            a = s.ev(e.left, env); b = s.ev(e.comparators[0], env)
            op = type(e.ops[0])
            return {ast.Is: lambda: a is b, ast.IsNot: lambda: a is not b, ast.Eq: lambda: a == b}[op]()
        raise NotImplementedError(ast.dump(e)[:80])

class NS:  # namespace shim
    def __init__(s, **k): s.__dict__.update(k)

jnp = NS(arange=lambda n: list(range(n)), sum=lambda a, axis=None: np.sum(a, axis=axis), trace=np.trace,
         array=lambda l: np.array(l, dtype=object), expand_dims=lambda a, axis: np.expand_dims(np.asarray(a, dtype=object), axis))
jax = NS(lax=NS(scan=scan), hessian=hessian, grad=grad)

def main():
    src = open("/repo/jinns/loss/_operators.py").read()
    mod = ast.parse(src)
    glob = {"jnp": jnp, "jax": jax, "grad": grad}
    it = Interp(glob)
    for st in mod.body:
        if isinstance(st, ast.FunctionDef): glob[st.name] = Closure(st, glob, it)
    for d in (1, 2, 3):
        x = np.array([Poly.atom(('X', j)) for j in range(d)], dtype=object)
        t = np.array([Poly.atom('T')], dtype=object)
        for has_t in (False, True):
            u = Net("u", d, has_t, d)
            print(f"d={d} t={'yes' if has_t else 'None'}")
            print("  div  =", glob["_div_rev"](t if has_t else None, x, u, "PARAMS"))
            u1 = Net("u", 1, has_t, d)
            print("  lap  =", glob["_laplacian_rev"](t if has_t else None, x, u1, "PARAMS"))
            if d == 2:
                print("  adv  =", glob["_u_dot_nabla_times_u_rev"](t if has_t else None, x, u, "PARAMS"))
main()
