from tfi import *
exec(open("run_terms.py").read().split("# ---------- dynamic_loss_apply")[0])
# initial_condition_apply PINN: omega_batch rows 'B'
ica = env_l.get("initial_condition_apply")
u = Net("u","PINN",1,True,2)
u0 = lambda x: AT((1,), np.array([Poly.atom(('F','u0',None,frozenset(to_at(x).deps())))],dtype=object))
show("IC PINN", lambda: ica(u, batch_x(2), params(), (0,None), u0, 7, to_at(K("w"))))
# observations: rows I
ola = env_l.get("observations_loss_apply")
u = Net("u","PINN",2,True,1); u.slice_solution = slice(0,2)
obs = AT(("I",2), np.array([Poly.atom(('F','obs',k,frozenset({"I"}))) for k in range(2)],dtype=object))
show("OBS PINN nonstatio", lambda: ola(u, (batch_t("I"), batch_x(1,"I")), params(), (0,0,None), obs, to_at(K("w")), slice(None)))
# observed eq param with row axis but in_axes None for params -> should be flagged
p_obs = Obj("Params", {"nn_params":"THETA","eq_params":{"nu": AT(("I",1), np.array([Poly.atom(('P','nu',(),frozenset({"I"})))],dtype=object))}})
show("OBS with un-vmapped observed param", lambda: ola(u, (batch_t("I"), batch_x(1,"I")), p_obs, (0,0,None), obs, to_at(K("w")), slice(None)))
ax = Obj("Params", {"nn_params":None,"eq_params":{"nu":0}})
show("OBS with vmapped observed param", lambda: ola(u, (batch_t("I"), batch_x(1,"I")), p_obs, (0,0,ax), obs, to_at(K("w")), slice(None)))
