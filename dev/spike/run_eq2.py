from tfi import *
exec(open("run_eq.py").read().split("# Burgers d=1")[0])   # reuse loader / Inst / norm / run / cmp
def ParamsCtor(nn_params=None, eq_params=None): return Obj("Params", {"nn_params": nn_params, "eq_params": eq_params})
class PD(Obj):
    def extract_params(s, key):
        eq = s.fields["eq_params"]
        try: return ParamsCtor(nn_params=s.fields["nn_params"][key], eq_params=eq[key])
        except (KeyError, IndexError): return ParamsCtor(nn_params=s.fields["nn_params"][key], eq_params=eq)
# Navier-Stokes 2D statio
def mk_ns(kind):
    ud = {"u": Net("u", kind, 2, False, 2), "p": Net("p", kind, 1, False, 2)}
    pd = PD("ParamsDict", {"nn_params": {"u":"THu","p":"THp"}, "eq_params": {"rho": Pm("rho"), "nu": Pm("nu")}})
    return ((pt(2) if kind=="PINN" else batch_x(2)), ud, pd)
cmp("ns", run("ns","NavierStokes2DStatio",{"u_key":"u","p_key":"p"},mk_ns))
def mk_mc(kind):
    ud = {"u": Net("u", kind, 2, False, 2)}
    pd = PD("ParamsDict", {"nn_params": {"u":"THu"}, "eq_params": {}})
    return ((pt(2) if kind=="PINN" else batch_x(2)), ud, pd)
cmp("mass", run("mass","MassConservation2DStatio",{"nn_key":"u"},mk_mc))
# GLV with 2 others
def mk_glv(kind):
    if kind!="PINN": raise Top("GLV has no SPINN branch")
    ud = {k: Net(f"n{k}", "PINN", 1, True, 0) for k in "012"}
    eq = {k: {"carrying_capacity": Pm(f"c{k}"), "growth_rate": Pm(f"r{k}"), "interactions": Pm(f"a{k}",(3,))} for k in "012"}
    pd = PD("ParamsDict", {"nn_params": {k:f"TH{k}" for k in "012"}, "eq_params": eq})
    return (tm(), ud, pd)
# ODE net: called as u(t, params) -> adapt Net for d=0
_old = Net.__call__
def call(s, *args):
    if s.d == 0:
        t, p = args; t = to_at(t)
        if t.axes != (1,): raise Finding(f"{s.name}: time arg axes {t.axes}")
        return AT((s.m,), np.array([Poly.atom(('U', s.name, k, (), (), frozenset(t.data[0].deps()))) for k in range(s.m)], dtype=object))
    return _old(s, *args)
Net.__call__ = call
list(run("glv","GeneralizedLotkaVolterra",{"key_main":"0","keys_other":["1","2"]},mk_glv))
