from tfi import *
env, classes, it = load_module("jinns/loss/_operators.py", {})
g = env.get
def strip_deps(p):
    """compare pointwise formulas irrespective of row/grid dependency labels"""
    def ra(a):
        if a[0] in ('X','T','P','F'): return a[:-1] + (frozenset(),)
        if a[0]=='U': return a[:5]+(frozenset(),)
        return a
    return Poly({tuple(sorted(((ra(a),e) for a,e in k), key=repr)): v for k,v in p.t.items()})
def norm(at):
    at = to_at(at)
    return [strip_deps(at.data[i]) for i in np.ndindex(at.data.shape)], tuple(a for a in at.axes)
for d in (1,2,3):
    for has_t in (False, True):
        P = "PARAMS"
        up = Net("u","PINN",d,has_t,d); us = Net("u","SPINN",d,has_t,d)
        up1 = Net("u","PINN",1,has_t,d); us1 = Net("u","SPINN",1,has_t,d)
        t_p = tm() if has_t else None; t_s = batch_t() if has_t else None
        x_p = pt(d); x_s = batch_x(d)
        for name, fr, ff, (a,b) in [("div","_div_rev","_div_fwd",(up,us)),("lap","_laplacian_rev","_laplacian_fwd",(up1,us1))]:
            try:
                r = norm(g(fr)(t_p, x_p, a, P)); f = norm(g(ff)(t_s, x_s, b, P))
                print(f"d={d} t={has_t} {name}: rev={r[0]} | fwd axes={f[1]} equal={r[0]==f[0]}")
            except (Top, Finding) as e:
                print(f"d={d} t={has_t} {name}: {type(e).__name__}: {e}")
        try:
            r = norm(g("_vectorial_laplacian")(t_p, x_p, up, P)); f = norm(g("_vectorial_laplacian")(t_s, x_s, us, P))
            print(f"d={d} t={has_t} veclap: rev axes={r[1]} fwd axes={f[1]} equal={r[0]==f[0]}")
        except (Top, Finding) as e:
            print(f"d={d} t={has_t} veclap: {type(e).__name__}: {e}")
        if d==2:
            try:
                r = norm(g("_u_dot_nabla_times_u_rev")(t_p, x_p, up, P)); f = norm(g("_u_dot_nabla_times_u_fwd")(t_s, x_s, us, P))
                print(f"d={d} t={has_t} adv: rev={r[0]} fwd axes={f[1]} equal={r[0]==f[0]}")
            except (Top, Finding) as e:
                print(f"d={d} t={has_t} adv: {type(e).__name__}: {e}")
