import os, warnings
os.environ["JAX_PLATFORMS"]="cpu"
warnings.filterwarnings("ignore")
import jax, jax.numpy as jnp, jinns, equinox as eqx, optax
import numpy as np
from jinns.loss import ODE
key = jax.random.PRNGKey(0)
class EqO(ODE):
    def equation(self, t, u, params):
        return u(t, params) - t
u = jinns.utils.create_PINN(key, ((eqx.nn.Linear,1,1),), "ODE")
params = jinns.parameters.Params(nn_params=u.init_params(), eq_params={"nu":jnp.array(1.)})
loss = jinns.loss.LossODE(u=u, dynamic_loss=EqO(), initial_condition=(0.,0.), params=params)
for start, every, n_iter in [(0,1,5),(2,2,9),(0,1,12)]:
    rar = {"start_iter":start,"update_every":every,"sample_size_times":10,"selected_sample_size_times":3}
    dg = jinns.data.DataGeneratorODE(key, 20, 0., 1., 2, rar_parameters=rar, nt_start=5)
    out = jinns.solve(n_iter=n_iter, init_params=params, data=dg, loss=loss, optimizer=optax.sgd(1e-3), verbose=False)
    d = out[3]
    print(f"start={start} every={every} n_iter={n_iter}: rar_iter_nb={int(d.rar_iter_nb)} nonzero p={int((d.p_times!=0).sum())} expected n_start+J*sel={5+int(d.rar_iter_nb)*3}")
    print("   p_times:", np.round(np.array(d.p_times),3))
