import os, warnings
os.environ["JAX_PLATFORMS"]="cpu"
warnings.filterwarnings("ignore")
import jax, jax.numpy as jnp, jinns, equinox as eqx
from jinns.data._Batchs import PDEStatioBatch, PDENonStatioBatch, ODEBatch
key = jax.random.PRNGKey(0)
u = jinns.utils.create_PINN(key, ((eqx.nn.Linear,1,1),), "statio_PDE", 1, output_transform=lambda i,o,p: i)
params = jinns.parameters.Params(nn_params=u.init_params(), eq_params={})
xs = jnp.linspace(0,1,1001)[:,None]
loss = jinns.loss.LossPDEStatio(u=u, dynamic_loss=None, norm_samples=xs, norm_int_length=1.0, params=params)
b = PDEStatioBatch(inside_batch=jnp.zeros((2,1)), border_batch=None)
print("statio PINN norm loss:", loss(params,b)[1]["norm_loss"], " (L*mean-1)^2 =", float((xs.mean()-1)**2), " mean((L*u-1)^2)=", float(((xs-1)**2).mean()))
un = jinns.utils.create_PINN(key, ((eqx.nn.Linear,2,1),), "nonstatio_PDE", 1, output_transform=lambda i,o,p: i[1:2])
params = jinns.parameters.Params(nn_params=un.init_params(), eq_params={})
loss = jinns.loss.LossPDENonStatio(u=un, dynamic_loss=None, norm_samples=xs, norm_int_length=1.0, params=params)
b = PDENonStatioBatch(times_x_inside_batch=jnp.ones((3,2)), times_x_border_batch=None)
print("nonstatio PINN norm loss:", loss(params,b)[1]["norm_loss"])
