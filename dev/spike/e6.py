import os, warnings
os.environ["JAX_PLATFORMS"]="cpu"
warnings.filterwarnings("ignore")
import jax, jax.numpy as jnp, jinns, equinox as eqx
from jinns.data._Batchs import PDEStatioBatch, PDENonStatioBatch, ODEBatch
key = jax.random.PRNGKey(0)
# (a) SPINN nonstatio normalization
r=4
eqx_list=((eqx.nn.Linear,1,8),(jax.nn.tanh,),(eqx.nn.Linear,8,r))
s = jinns.utils.create_SPINN(key, 2, r, eqx_list, "nonstatio_PDE")
params = jinns.parameters.Params(nn_params=s.init_params(), eq_params={})
try:
    loss = jinns.loss.LossPDENonStatio(u=s, dynamic_loss=None, norm_samples=jnp.linspace(0,1,6)[:,None], norm_int_length=1.0, params=params)
    b = PDENonStatioBatch(times_x_inside_batch=jnp.ones((3,2))*0.5, times_x_border_batch=None)
    print("SPINN nonstatio norm:", loss(params,b)[1]["norm_loss"])
except Exception as e:
    print("SPINN nonstatio norm raises:", type(e).__name__, str(e)[:200])
# (b) obs eq_params vmapped? ODE PINN whose output uses eq_params nu: u = nu * t
u = jinns.utils.create_PINN(key, ((eqx.nn.Linear,1,1),), "ODE", output_transform=lambda i,o,p: p.eq_params["nu"]*i)
params = jinns.parameters.Params(nn_params=u.init_params(), eq_params={"nu":jnp.array([2.0])})
loss = jinns.loss.LossODE(u=u, dynamic_loss=None, params=params)
t_obs = jnp.array([[1.],[2.],[3.]])
nu_obs = jnp.array([[1.],[10.],[100.]])
val = nu_obs*t_obs  # exact for per-row nu
b = ODEBatch(temporal_batch=jnp.ones((3,)), obs_batch_dict={"pinn_in":t_obs,"val":val,"eq_params":{"nu":nu_obs}})
try:
    print("obs loss with per-row nu (should be 0):", loss(params,b)[1]["observations"])
except Exception as e:
    print("obs raises:", type(e).__name__, str(e)[:300])
