import os
os.environ["JAX_PLATFORMS"]="cpu"
import jax, jax.numpy as jnp, jinns
import numpy as np
# C09: b | n duplicates within an epoch
key = jax.random.PRNGKey(0)
dg = jinns.data.DataGeneratorODE(key, 9, 0., 1., 3, method="grid")
seen=[]
for k in range(8):
    dg, b = dg.get_batch()
    seen.append((int(dg.curr_time_idx), np.round(np.array(b.temporal_batch),3).tolist()))
for s in seen: print(s)
# C15: user_data (n,1)
try:
    pg = jinns.data.DataGeneratorParameter(key, 5, 5, {}, "uniform", {"nu": jnp.arange(5.)[:,None]})
    print("ok (n,1)")
except Exception as e:
    print("C15 (n,1) raises:", repr(e))
