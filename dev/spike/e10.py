import os, warnings
os.environ["JAX_PLATFORMS"]="cpu"
warnings.filterwarnings("ignore")
import jax, jax.numpy as jnp, jinns, jinns.validation, numpy as np, equinox as eqx, optax
key = jax.random.PRNGKey(0)
# C14
for cart in (True, False):
    dg = jinns.data.CubicMeshPDENonStatio(key=key, n=8, nb=16, nt=6, omega_batch_size=2, omega_border_batch_size=2, temporal_batch_size=2 if not cart else 3, dim=2, min_pts=(0.,0.), max_pts=(1.,1.), tmin=0., tmax=1., cartesian_product=cart)
    dg, b = dg.get_batch()
    tx = np.array(b.times_x_inside_batch); tb = np.array(b.times_x_border_batch)
    print("cartesian", cart, "inside", tx.shape, "border", tb.shape)
    print(np.round(tx,2).tolist())
    print("border times per facet equal:", bool(np.all(tb[:,0,:]==tb[:,0,:1])), "time col:", np.round(tb[:,0,0],2).tolist())
# C19 validation schedule
from jinns.loss import ODE
class EqO(ODE):
    def equation(self, t, u, params): return u(t, params) - t
u = jinns.utils.create_PINN(key, ((eqx.nn.Linear,1,4),(jax.nn.tanh,),(eqx.nn.Linear,4,1)), "ODE")
params = jinns.parameters.Params(nn_params=u.init_params(), eq_params={"nu":jnp.array(1.)})
loss = jinns.loss.LossODE(u=u, dynamic_loss=EqO(), initial_condition=(0.,0.), params=params)
dg = jinns.data.DataGeneratorODE(key, 20, 0., 1., 5)
vdg = jinns.data.DataGeneratorODE(jax.random.PRNGKey(1), 20, 0., 1., 20)
val = jinns.validation.ValidationLoss(loss=loss, validation_data=vdg, call_every=3, early_stopping=True, patience=2)
out = jinns.solve(n_iter=30, init_params=params, data=dg, loss=loss, optimizer=optax.sgd(-0.5), validation=val, verbose=False)
crit = np.array(out[7]); tl = np.array(out[1])
print("crit:", np.round(crit[:16],4).tolist())
print("train nonzero until:", int(np.max(np.nonzero(tl)[0])))
