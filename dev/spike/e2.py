import os, warnings
os.environ["JAX_PLATFORMS"]="cpu"
warnings.filterwarnings("ignore")
import jax, jax.numpy as jnp, jinns, equinox as eqx
import numpy as np
from jinns.data._Batchs import PDEStatioBatch, PDENonStatioBatch, ODEBatch
key = jax.random.PRNGKey(0)
# ---- C04: 1D Neumann normal sign. u(x)=3x -> du/dx=3. outward normal at xmin=-1 -> -3, at xmax -> +3
eqx_list=((eqx.nn.Linear,1,1),)
u = jinns.utils.create_PINN(key, eqx_list, "statio_PDE", 1, output_transform=lambda i,o,p: 3*i[0:1])
params = jinns.parameters.Params(nn_params=u.init_params(), eq_params={})
batch = PDEStatioBatch(inside_batch=jnp.zeros((2,1)), border_batch=jnp.array([0.,1.])[None,None])
for f_val, name in [(-3.,"outward@xmin"),(3.,"inward@xmin")]:
    loss = jinns.loss.LossPDEStatio(u=u, dynamic_loss=None, omega_boundary_fun={"xmin":lambda x: f_val,"xmax":None}, omega_boundary_condition={"xmin":"von neumann","xmax":None}, params=params)
    print("1D neumann xmin f=",f_val, name, loss(params,batch)[1]["boundary_loss"])
# 2D
u2 = jinns.utils.create_PINN(key, ((eqx.nn.Linear,2,1),), "statio_PDE", 2, output_transform=lambda i,o,p: 3*i[0:1]+5*i[1:2])
bb = jnp.stack([jnp.array([[0.,.5]]).T, jnp.array([[1.,.5]]).T, jnp.array([[.5,0.]]).T, jnp.array([[.5,1.]]).T],axis=-1)  # (2,1,4)? need (batch, dim, facets)
bb = jnp.stack([jnp.array([[0.,.5]]), jnp.array([[1.,.5]]), jnp.array([[.5,0.]]), jnp.array([[.5,1.]])],axis=-1)
print(bb.shape)
params = jinns.parameters.Params(nn_params=u2.init_params(), eq_params={})
batch2 = PDEStatioBatch(inside_batch=jnp.zeros((1,2)), border_batch=bb)
for fac,(fv) in {"xmin":-3.,"xmax":3.,"ymin":-5.,"ymax":5.}.items():
    d_f={k:None for k in ["xmin","xmax","ymin","ymax"]}; d_c=dict(d_f)
    d_f[fac]=(lambda v: (lambda x: v))(fv); d_c[fac]="von neumann"
    loss = jinns.loss.LossPDEStatio(u=u2, dynamic_loss=None, omega_boundary_fun=d_f, omega_boundary_condition=d_c, params=params)
    print("2D neumann outward", fac, loss(params,batch2)[1]["boundary_loss"])
