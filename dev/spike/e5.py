import os, warnings
os.environ["JAX_PLATFORMS"]="cpu"
warnings.filterwarnings("ignore")
import jax, jax.numpy as jnp, jinns, equinox as eqx
from jinns.data._Batchs import PDEStatioBatch, PDENonStatioBatch, ODEBatch
key = jax.random.PRNGKey(0)
u2 = jinns.utils.create_PINN(key, ((eqx.nn.Linear,2,1),), "statio_PDE", 2, output_transform=lambda i,o,p: 3*i[0:1]+5*i[1:2])
params = jinns.parameters.Params(nn_params=u2.init_params(), eq_params={})
B=4
bb = jnp.stack([jnp.stack([jnp.zeros(B), jnp.linspace(0,1,B)],1), jnp.stack([jnp.ones(B), jnp.linspace(0,1,B)],1), jnp.stack([jnp.linspace(0,1,B), jnp.zeros(B)],1), jnp.stack([jnp.linspace(0,1,B), jnp.ones(B)],1)],axis=-1)
batch2 = PDEStatioBatch(inside_batch=jnp.zeros((1,2)), border_batch=bb)
for name,f in [("scalar", lambda x: 1.0), ("jnp scalar", lambda x: jnp.array(1.0)), ("len-1", lambda x: jnp.array([1.0]))]:
    for cond in ["von neumann","dirichlet"]:
        d_f={k:None for k in ["xmin","xmax","ymin","ymax"]}; d_c=dict(d_f)
        d_f["xmax"]=f; d_c["xmax"]=cond
        loss = jinns.loss.LossPDEStatio(u=u2, dynamic_loss=None, omega_boundary_fun=d_f, omega_boundary_condition=d_c, params=params)
        print(cond, "f returns", name, "->", loss(params,batch2)[1]["boundary_loss"])
