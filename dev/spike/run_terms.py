from tfi import *
env_u, _, it = load_module("jinns/utils/_utils.py", {})
env_p, pclasses, _ = load_module("jinns/parameters/_params.py", {})
def ParamsCtor(nn_params=None, eq_params=None): return Obj("Params", {"nn_params": nn_params, "eq_params": eq_params})
env_p.set("Params", ParamsCtor)
extra = {"_get_grid": env_u.get("_get_grid"), "_check_user_func_return": env_u.get("_check_user_func_return"),
         "_get_vmap_in_axes_params": env_p.get("_get_vmap_in_axes_params"),
         "PDEStatioBatch": ClassTag("PDEStatioBatch"), "PDENonStatioBatch": ClassTag("PDENonStatioBatch")}
# type(params)(...) used in _get_vmap_in_axes_params
BUILTINS["type"] = lambda o: (ParamsCtor if isinstance(o, Obj) and o.cls=="Params" else type(o))
env_p.local["type"] = BUILTINS["type"]
env_b, _, _ = load_module("jinns/loss/_boundary_conditions.py", extra)
extra2 = dict(extra); extra2["_compute_boundary_loss"] = env_b.get("_compute_boundary_loss")
extra2["HYPERPINN"] = ClassTag("HYPERPINN")
env_l, _, _ = load_module("jinns/loss/_loss_utils.py", extra2)

def params(eq=None): return Obj("Params", {"nn_params": "THETA", "eq_params": eq or {}})
def show(tag, f):
    try:
        r = to_at(f())
        print(f"{tag}: axes={r.axes} ->", [r.data[i] for i in np.ndindex(r.data.shape)])
    except (Top, Finding) as e:
        print(f"{tag}: {type(e).__name__}: {e}")

# ---------- dynamic_loss_apply: opaque residual with m components
def make_dyn(m, kind):
    def dyn(*args):
        # args = (*points, u, params); residual atom depends on the row deps of the points
        pts = args[:-2]
        deps = set()
        for p in pts: deps |= to_at(p).deps()
        if kind == "SPINN":
            axes = tuple(a for p in pts for a in ([f"G{i}" for i in range(to_at(p).axes[1])] if True else []))
            axes = tuple(f"G{i}" for i in range(len(pts)))
            return AT(axes + (m,), np.array([Poly.atom(('F', 'R', k, frozenset(axes))) for k in range(m)], dtype=object))
        return AT((m,), np.array([Poly.atom(('F', 'R', k, frozenset(deps))) for k in range(m)], dtype=object))
    return dyn
dla = env_l.get("dynamic_loss_apply")
for m in (1,2):
  for wkind in ("scalar","vector"):
    w = to_at(K("w")) if wkind=="scalar" else AT((m,), np.array([K(f"w{k}") for k in range(m)],dtype=object))
    u = Net("u","PINN",m,False,2)
    show(f"dyn PINN statio m={m} w={wkind}", lambda: dla(make_dyn(m,"PINN"), u, (batch_x(2),), params(), (0,)+(None,), w))
    u = Net("u","PINN",m,True,2)
    show(f"dyn PINN nonstatio m={m} w={wkind}", lambda: dla(make_dyn(m,"PINN"), u, (batch_t(),batch_x(2)), params(), (0,0)+(None,), w))
us = Net("u","SPINN",1,False,2)
show("dyn SPINN", lambda: dla(make_dyn(1,"SPINN"), us, (batch_x(2),), params(), (0,None), to_at(K("w"))))

# ---------- normalisation
nla = env_l.get("normalization_loss_apply")
u1 = Net("u","PINN",1,False,1)
show("norm PINN statio", lambda: nla(u1, (batch_x(1,"S"),), params(), (0,None), K("L"), K("w")))
u1t = Net("u","PINN",1,True,1)
show("norm PINN nonstatio", lambda: nla(u1t, (batch_t("T"), batch_x(1,"S")), params(), (0,0,None), K("L"), K("w")))

# ---------- boundary neumann statio PINN, 2D, facet 1, f scalar vs (1,)
bns = env_b.get("boundary_neumann_statio"); bds = env_b.get("boundary_dirichlet_statio")
def border2d():
    # axes [B, 2, 4]; entry [c, f] = X_c
    d = np.empty((2,4), dtype=object)
    for c in range(2):
        for f in range(4): d[c,f] = Poly.atom(('X', c, frozenset({"B"})))
    return AT(("B",2,4), d)
batch = Obj("PDEStatioBatch", {"inside_batch": batch_x(2), "border_batch": border2d(), "param_batch_dict": None, "obs_batch_dict": None})
u2 = Net("u","PINN",1,False,2)
f_scalar = lambda dx: 1.0
f_0d = lambda dx: to_at(Poly.atom(('F','f',None,frozenset({"B"}))))
f_len1 = lambda dx: AT((1,), np.array([Poly.atom(('F','f',None,frozenset({"B"})))],dtype=object))
for name, f in [("0-d", f_0d), ("len-1", f_len1)]:
    for facet in (0,1,2,3):
        show(f"neumann statio PINN facet={facet} f={name}", lambda: bns(f, batch, u2, params(), facet, slice(None)))
    show(f"dirichlet statio PINN facet=1 f={name}", lambda: bds(f, batch, u2, params(), 1, slice(None)))
