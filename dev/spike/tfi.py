"""Throwaway spike 2: tensor-formula inference (named axes + differential polynomials)
interpreting jinns source from the AST only. NOT framework code."""
import ast, sys, itertools, os
from fractions import Fraction
import numpy as np

REPO = "/repo"

# =====================================================================
# polynomials
# =====================================================================
class Poly:
    __slots__ = ("t",)
    def __init__(self, t=None):
        self.t = {k: v for k, v in (t or {}).items() if v != 0}
    @staticmethod
    def const(c):
        return Poly({(): Fraction(c).limit_denominator(10**9) if isinstance(c, float) else Fraction(c)})
    @staticmethod
    def atom(a): return Poly({((a, 1),): Fraction(1)})
    def is_const(s): return all(k == () for k in s.t)
    def cval(s): return s.t.get((), Fraction(0))
    def __add__(s, o):
        if isinstance(o, AT): return NotImplemented
        o = lift(o); d = dict(s.t)
        for k, v in o.t.items(): d[k] = d.get(k, 0) + v
        return Poly(d)
    def __radd__(s, o):
        if isinstance(o, AT): return NotImplemented
        return s.__add__(o)
    def __neg__(s): return Poly({k: -v for k, v in s.t.items()})
    def __sub__(s, o):
        if isinstance(o, AT): return NotImplemented
        return s + (-lift(o))
    def __rsub__(s, o):
        if isinstance(o, AT): return NotImplemented
        return lift(o) - s
    def __mul__(s, o):
        if isinstance(o, AT): return NotImplemented
        o = lift(o); d = {}
        for k1, v1 in s.t.items():
            for k2, v2 in o.t.items():
                m = dict(k1)
                for a, e in k2: m[a] = m.get(a, 0) + e
                k = tuple(sorted(((a, e) for a, e in m.items() if e != 0), key=repr))
                d[k] = d.get(k, 0) + v1 * v2
        return Poly(d)
    def __rmul__(s, o):
        if isinstance(o, AT): return NotImplemented
        return s.__mul__(o)
    def __truediv__(s, o):
        if isinstance(o, AT): return NotImplemented
        o = lift(o)
        if o.is_const(): return s * Poly.const(1 / o.cval())
        if len(o.t) == 1:
            (k, v), = o.t.items()
            inv = Poly({tuple((a, -e) for a, e in k): 1 / v})
            return s * inv
        raise Top(f"division by non-monomial {o}")
    def __rtruediv__(s, o):
        if isinstance(o, AT): return NotImplemented
        return lift(o) / s
    def __pow__(s, n):
        n = n.cval() if isinstance(n, Poly) else n
        n = int(n)
        if n == 2 and len(s.t) == 1:
            (k, v), = s.t.items()
            if len(k) == 1 and k[0][0][0] == 'Abs' and k[0][1] == 1:
                inner = k[0][0][1]
                return (inner * inner) * Poly.const(v * v)
        r = Poly.const(1)
        for _ in range(n): r = r * s
        return r
    def __eq__(s, o): return isinstance(o, Poly) and s.t == o.t
    def __hash__(s): return hash(tuple(sorted(s.t.items(), key=repr)))
    def __repr__(s):
        if not s.t: return "0"
        out = []
        for k, v in sorted(s.t.items(), key=repr):
            mon = "*".join(fmt_atom(a) + (f"^{e}" if e != 1 else "") for a, e in k)
            c = str(v) if v.denominator == 1 else f"({v})"
            out.append(mon if (mon and v == 1) else (f"{c}*{mon}" if mon else c))
        return " + ".join(out)
    def deps(s):
        d = set()
        for k in s.t:
            for a, e in k: d |= atom_deps(a)
        return d
    def diff(s, var):
        res = Poly()
        for k, v in s.t.items():
            for (a, e) in k:
                da = datom(a, var)
                if da is None: continue
                rest = dict(k); rest[a] = e - 1
                mono = Poly({tuple(sorted(((x, y) for x, y in rest.items() if y), key=repr)): v * e})
                res = res + mono * da
        return res

def lift(x):
    if isinstance(x, Poly): return x
    if isinstance(x, AT): raise _Defer()
    if isinstance(x, bool): raise Top("bool arithmetic")
    if isinstance(x, (int, float, Fraction)): return Poly.const(x)
    raise Top(f"cannot lift {type(x)}")

class _Defer(Exception):
    pass

class Top(Exception):
    """unknown construct -> INCONCLUSIVE"""

class Finding(Exception):
    """positive finding"""

# atoms: ('X', j, deps) ('T', deps) ('U', net, k, alpha, slots, deps) ('P', name, idx, deps)
#        ('K', name)  opaque constant (Tmax, L, W..) ; ('F', name, k, deps) opaque user fn value
#        ('Mean', axis, poly) ('Sum', axis, poly) ('Abs', poly) ('Log', atom)
def atom_deps(a):
    if a[0] in ('X', 'T', 'U', 'P', 'F'): return set(a[-1])
    if a[0] in ('Mean', 'Sum'): return a[2].deps() - {a[1]}
    if a[0] == 'Abs': return a[1].deps()
    if a[0] == 'Log': return atom_deps(a[1])
    return set()

def fmt_atom(a):
    if a[0] == 'X': return f"x{a[1]}"
    if a[0] == 'T': return "t"
    if a[0] == 'U':
        al = "".join(("t" if v == 'T' else str(v[1])) for v in a[3])
        sl = "" if not a[4] else "@" + ",".join(a[4])
        return f"{a[1]}{a[2]}" + (f"_{{{al}}}" if al else "") + sl
    if a[0] == 'P': return f"{a[1]}" + ("".join(f"[{i}]" for i in a[2]))
    if a[0] == 'K': return a[1]
    if a[0] == 'F': return f"{a[1]}" + (f"[{a[2]}]" if a[2] is not None else "")
    if a[0] in ('Mean', 'Sum'): return f"{a[0]}[{a[1]}]({a[2]})"
    if a[0] == 'Abs': return f"|{a[1]}|"
    if a[0] == 'Log': return f"log({fmt_atom(a[1])})"
    return repr(a)

def var_key(a):
    if a[0] == 'X': return ('X', a[1])
    if a[0] == 'T': return 'T'
    return None

def datom(a, var):
    if var_key(a) == var: return Poly.const(1)
    if a[0] == 'U':
        if a[4]: raise Top("derivative of network evaluated at a non-canonical point")
        return Poly.atom(('U', a[1], a[2], tuple(sorted(a[3] + (var,), key=repr)), a[4], a[5]))
    if a[0] == 'Log':
        d = datom(a[1], var)
        return None if d is None else d / Poly.atom(a[1])
    if a[0] in ('Mean', 'Sum', 'Abs', 'F'):
        if a[0] == 'F': return None  # user function: treated as not depending on u's point? -> only used undifferentiated
        raise Top("derivative through binder")
    return None

# =====================================================================
# tensors with named axes
# =====================================================================
class AT:
    def __init__(s, axes, data):
        s.axes = tuple(axes)
        s.data = data if isinstance(data, np.ndarray) else np.array(data, dtype=object)
        cs = tuple(a for a in s.axes if isinstance(a, int))
        if s.data.shape != cs:
            raise AssertionError(f"AT shape mismatch axes={s.axes} data={s.data.shape}")
    # ---- shape-ish
    @property
    def shape(s): return tuple(a if isinstance(a, int) else SymDim(a) for a in s.axes)
    @property
    def ndim(s): return len(s.axes)
    def cidx(s, k):
        k = k % len(s.axes)
        if not isinstance(s.axes[k], int): return None
        return sum(1 for a in s.axes[:k] if isinstance(a, int))
    def __repr__(s): return f"AT{list(s.axes)}{s.data.tolist()}"
    def map(s, f):
        out = np.empty(s.data.shape, dtype=object)
        for i in np.ndindex(s.data.shape): out[i] = f(s.data[i])
        return AT(s.axes, out)
    # ---- arithmetic
    def _bin(s, o, f):
        o = to_at(o)
        axes, a, b = broadcast(s, o)
        out = np.empty(np.broadcast(a, b).shape, dtype=object)
        A, Bb = np.broadcast_arrays(a, b)
        for i in np.ndindex(out.shape): out[i] = f(A[i], Bb[i])
        return AT(axes, out)
    def __add__(s, o): return s._bin(o, lambda x, y: x + y)
    def __radd__(s, o): return to_at(o)._bin(s, lambda x, y: x + y)
    def __sub__(s, o): return s._bin(o, lambda x, y: x - y)
    def __rsub__(s, o): return to_at(o)._bin(s, lambda x, y: x - y)
    def __mul__(s, o): return s._bin(o, lambda x, y: x * y)
    def __rmul__(s, o): return to_at(o)._bin(s, lambda x, y: x * y)
    def __truediv__(s, o): return s._bin(o, lambda x, y: x / y)
    def __rtruediv__(s, o): return to_at(o)._bin(s, lambda x, y: x / y)
    def __neg__(s): return s.map(lambda p: -p)
    def __pow__(s, n): return s.map(lambda p: p ** n)
    # ---- indexing
    def __getitem__(s, idx):
        if not isinstance(idx, tuple): idx = (idx,)
        n_real = sum(1 for i in idx if i is not None and i is not Ellipsis)
        if Ellipsis in idx:
            k = idx.index(Ellipsis)
            idx = idx[:k] + (slice(None),) * (len(s.axes) - n_real) + idx[k + 1:]
        else:
            idx = idx + (slice(None),) * (len(s.axes) - n_real)
        new_axes, np_idx, ax = [], [], 0
        post_insert = []
        for it in idx:
            if it is None:
                new_axes.append(1); np_idx.append(None); continue
            a = s.axes[ax]; ax += 1
            if isinstance(it, Poly):
                if not it.is_const(): raise Top("symbolic index")
                it = int(it.cval())
            if isinstance(a, int):
                if isinstance(it, (int, np.integer)):
                    np_idx.append(int(it))
                elif isinstance(it, slice):
                    ln = len(range(*it.indices(a)))
                    new_axes.append(ln); np_idx.append(it)
                else: raise Top(f"index {it!r}")
            else:
                if isinstance(it, slice) and it == slice(None):
                    new_axes.append(a)
                elif isinstance(it, (int, np.integer)):
                    if a in s.deps(): raise Top(f"integer index on varying symbolic axis {a}")
                    # uniform: drop axis
                else: raise Top(f"partial slice on symbolic axis {a}")
        data = s.data[tuple(np_idx)] if np_idx else s.data
        if not isinstance(data, np.ndarray):
            d = np.empty((), dtype=object); d[()] = data; data = d
        return AT(new_axes, data)
    def deps(s):
        d = set()
        for i in np.ndindex(s.data.shape): d |= s.data[i].deps()
        return d
    def squeeze(s, axis=None): return jnp_squeeze(s, axis)
    def flatten(s):
        if any(not isinstance(a, int) for a in s.axes): raise Top("flatten symbolic")
        return AT((s.data.size,), s.data.reshape(-1))
    def astype(s, _): return s
    def scalar(s):
        if s.axes != (): raise Top(f"expected scalar, got axes {s.axes}")
        return s.data[()]

class SymDim:
    def __init__(s, name): s.name = name
    def __floordiv__(s, o): return SymDim(f"({s.name}//{getattr(o,'name',o)})")
    def __mod__(s, o): return Poly.const(0) if isinstance(o, SymDim) else SymDim(f"({s.name}%{o})")
    def __mul__(s, o): return SymDim(f"({s.name}*{getattr(o,'name',o)})")
    def __eq__(s, o): return isinstance(o, SymDim) and o.name == s.name
    def __hash__(s): return hash(s.name)
    def __repr__(s): return f"|{s.name}|"

def to_at(x):
    if isinstance(x, AT): return x
    if isinstance(x, (int, float, Fraction, Poly)):
        d = np.empty((), dtype=object); d[()] = lift(x); return AT((), d)
    if isinstance(x, (list, tuple)):
        items = [to_at(i) for i in x]
        return jnp_stack(items, 0)
    raise Top(f"to_at {type(x)}")

def broadcast(a, b):
    n = max(len(a.axes), len(b.axes))
    ax_a = (None,) * (n - len(a.axes)) + a.axes
    ax_b = (None,) * (n - len(b.axes)) + b.axes
    axes = []
    sa, sb = [], []   # numpy index to reshape the concrete data
    for x, y in zip(ax_a, ax_b):
        if isinstance(x, str) or isinstance(y, str):
            if isinstance(x, str) and isinstance(y, str) and x != y:
                raise Finding(f"named axes do not line up: {x} vs {y}")
            if (isinstance(x, int) and x != 1) or (isinstance(y, int) and y != 1):
                raise Top(f"concrete axis {x}/{y} against symbolic")
            axes.append(x if isinstance(x, str) else y)
            # a concrete-1 axis facing a symbolic one is dropped from data
            sa.append('drop' if isinstance(x, int) else None)
            sb.append('drop' if isinstance(y, int) else None)
        else:
            if x is None: axes.append(y); sa.append('new'); sb.append('keep')
            elif y is None: axes.append(x); sa.append('keep'); sb.append('new')
            else:
                if x != y and 1 not in (x, y): raise Finding(f"shape mismatch {x} vs {y}")
                axes.append(max(x, y)); sa.append('keep'); sb.append('keep')
    def reshape(t, ax_t, spec):
        data = t.data
        # build index: iterate over full axes
        idx = []; ci = 0
        shape = []
        for x, sp in zip(ax_t, spec):
            if x is None:
                if sp == 'new': shape.append(1)
                continue
            if isinstance(x, str): continue
            # concrete
            if sp == 'drop':
                data = np.take(data, 0, axis=len(shape))
            else:
                shape.append(x)
        return data.reshape(tuple(shape)) if data.shape != tuple(shape) else data
    return tuple(axes), reshape(a, ax_a, sa), reshape(b, ax_b, sb)

# =====================================================================
# jnp / jax primitives
# =====================================================================
def _dim(v):
    if isinstance(v, Poly): return int(v.cval())
    return v

def jnp_array(x, dtype=None): return to_at(x)

def jnp_stack(items, axis=0):
    items = [to_at(i) for i in items]
    ax0 = items[0].axes
    for it in items:
        if it.axes != ax0: raise Top(f"stack of different axes {it.axes} vs {ax0}")
    k = axis % (len(ax0) + 1)
    ck = sum(1 for a in ax0[:k] if isinstance(a, int))
    data = np.stack([it.data for it in items], axis=ck)
    return AT(ax0[:k] + (len(items),) + ax0[k:], data)

def jnp_concatenate(items, axis=0):
    items = [to_at(i) for i in items]
    k = axis % len(items[0].axes)
    ck = items[0].cidx(k)
    if ck is None: raise Top("concatenate along symbolic axis")
    # broadcast-free: other axes must agree
    for it in items:
        if it.axes[:k] + it.axes[k + 1:] != items[0].axes[:k] + items[0].axes[k + 1:]:
            raise Finding(f"concatenate: row axes differ {[i.axes for i in items]}")
    data = np.concatenate([it.data for it in items], axis=ck)
    ax = list(items[0].axes); ax[k] = data.shape[ck]
    return AT(ax, data)

def jnp_sum(a, axis=None): return _reduce(a, axis, 'Sum')
def jnp_mean(a, axis=None): return _reduce(a, axis, 'Mean')

def _reduce(a, axis, kind):
    a = to_at(a)
    if axis is None: axes = list(range(len(a.axes)))
    elif isinstance(axis, (int, Poly)): axes = [_dim(axis)]
    else: axes = [_dim(x) for x in axis]
    axes = sorted({x % len(a.axes) for x in axes}, reverse=True)
    for k in axes:
        ax = a.axes[k]
        if isinstance(ax, int):
            ck = a.cidx(k)
            data = np.sum(a.data, axis=ck) if a.data.size else a.data
            if not isinstance(data, np.ndarray):
                d = np.empty((), dtype=object); d[()] = data; data = d
            if kind == 'Mean':
                out = np.empty(data.shape, dtype=object)
                for i in np.ndindex(data.shape): out[i] = data[i] * Poly.const(Fraction(1, ax))
                data = out
            a = AT(a.axes[:k] + a.axes[k + 1:], data)
        else:
            a = AT(a.axes[:k] + a.axes[k + 1:], a.data).map(lambda p, ax=ax: bind(kind, ax, p))
    return a

def bind(kind, ax, p):
    """linear binder over symbolic axis `ax`, factoring out what does not depend on it"""
    res = Poly()
    for k, v in p.t.items():
        ind = tuple((a, e) for a, e in k if ax not in atom_deps(a))
        dep = tuple((a, e) for a, e in k if ax in atom_deps(a))
        if not dep:
            if kind == 'Sum': raise Top("sum of a constant over a symbolic axis")
            res = res + Poly({ind: v})
        else:
            inner = Poly({dep: Fraction(1)})
            res = res + Poly({ind: v}) * Poly.atom((kind, ax, inner))
    return res

def jnp_trace(a):
    a = to_at(a)
    if len(a.axes) != 2 or not all(isinstance(x, int) for x in a.axes): raise Top("trace")
    d = np.empty((), dtype=object); d[()] = sum((a.data[i, i] for i in range(a.axes[0])), Poly()); return AT((), d)

def jnp_abs(a): return to_at(a).map(lambda p: p if p.is_const() and p.cval() >= 0 else Poly.atom(('Abs', p)))
def jnp_log(a):
    def f(p):
        if len(p.t) == 1:
            (k, v), = p.t.items()
            if v == 1 and len(k) == 1 and k[0][1] == 1: return Poly.atom(('Log', k[0][0]))
        raise Top("log of non-atom")
    return to_at(a).map(f)

def jnp_squeeze(a, axis=None):
    a = to_at(a)
    keep = [i for i, x in enumerate(a.axes) if not (x == 1 and (axis is None or i == axis % len(a.axes)))]
    ax = tuple(a.axes[i] for i in keep)
    return AT(ax, a.data.reshape(tuple(x for x in ax if isinstance(x, int))))

def jnp_expand_dims(a, axis):
    a = to_at(a); k = axis % (len(a.axes) + 1)
    ax = a.axes[:k] + (1,) + a.axes[k:]
    return AT(ax, a.data.reshape(tuple(x for x in ax if isinstance(x, int))))

def jnp_repeat(a, repeats, axis=None):
    a = to_at(a); k = axis % len(a.axes)
    if isinstance(repeats, SymDim):
        if isinstance(a.axes[k], str):
            return AT(a.axes[:k] + (f"Rep({a.axes[k]},{repeats.name})",) + a.axes[k + 1:], a.data)
        if a.axes[k] != 1: raise Top("symbolic repeat of non-unit axis")
        ck = a.cidx(k)
        data = np.take(a.data, 0, axis=ck)
        return AT(a.axes[:k] + (repeats.name,) + a.axes[k + 1:], data)
    repeats = _dim(repeats)
    if isinstance(a.axes[k], str):
        # repeat each row r times: rows axis becomes Rep(name, r)
        return AT(a.axes[:k] + (f"Rep({a.axes[k]},{repeats})",) + a.axes[k + 1:], a.data)
    ck = a.cidx(k)
    return AT(a.axes[:k] + (a.axes[k] * repeats,) + a.axes[k + 1:], np.repeat(a.data, repeats, axis=ck))

def jnp_ones_like(a): return to_at(a).map(lambda p: Poly.const(1))
def jnp_zeros_like(a): return to_at(a).map(lambda p: Poly.const(0))
def jnp_zeros(shape):
    shape = tuple(_dim(x) for x in (shape if isinstance(shape, tuple) else (shape,)))
    d = np.empty(shape, dtype=object); d[...] = Poly.const(0); return AT(shape, d)
def jnp_ones(shape):
    shape = tuple(_dim(x) for x in (shape if isinstance(shape, tuple) else (shape,)))
    d = np.empty(shape, dtype=object)
    for i in np.ndindex(shape): d[i] = Poly.const(1)
    return AT(shape, d)

def jnp_arange(n):
    n = _dim(n)
    if isinstance(n, SymDim): raise Top("arange over symbolic extent")
    return [int(i) for i in range(n)]

def jnp_moveaxis(a, source, destination):
    a = to_at(a); n = len(a.axes); s, d = source % n, destination % n
    order = [i for i in range(n) if i != s]; order.insert(d, s)
    conc = [i for i in range(n) if isinstance(a.axes[i], int)]
    corder = [conc.index(i) for i in order if isinstance(a.axes[i], int)]
    return AT(tuple(a.axes[i] for i in order), np.transpose(a.data, corder))

def jnp_transpose(a):
    a = to_at(a)
    if not all(isinstance(x, int) for x in a.axes): raise Top("transpose symbolic")
    return AT(a.axes[::-1], a.data.T)

def jnp_diag(a):
    a = to_at(a)
    if len(a.axes) != 1: raise Top("diag")
    n = a.axes[0]; d = np.empty((n, n), dtype=object)
    for i in range(n):
        for j in range(n): d[i, j] = a.data[i] if i == j else Poly.const(0)
    return AT((n, n), d)

def jnp_matmul(a, b):
    a, b = to_at(a), to_at(b)
    if not all(isinstance(x, int) for x in a.axes + b.axes): raise Top("matmul symbolic")
    return AT(a.axes[:-1] + b.axes[1:], np.dot(a.data, b.data))

def jnp_dot(a, b):
    a, b = to_at(a), to_at(b)
    if len(a.axes) == 1 and len(b.axes) == 1:
        if a.axes != b.axes: raise Finding(f"dot of different lengths {a.axes} {b.axes}")
        d = np.empty((), dtype=object); d[()] = sum((x * y for x, y in zip(a.data, b.data)), Poly()); return AT((), d)
    return jnp_matmul(a, b)

def one_hot(i, n):
    i, n = _dim(i), _dim(n)
    return AT((n,), np.array([Poly.const(1 if k == i else 0) for k in range(n)], dtype=object))

def jnp_meshgrid(*vecs, indexing="xy"):
    vecs = [to_at(v) for v in vecs]
    names = [f"G{k}" for k in range(len(vecs))]
    outs = []
    order = list(range(len(vecs)))
    if indexing == "xy" and len(vecs) >= 2: order[0], order[1] = 1, 0
    for k, v in enumerate(vecs):
        if len(v.axes) != 1 or not isinstance(v.axes[0], str): raise Top("meshgrid input")
        src = v.axes[0]
        p = rename_dep(v.data[()], src, names[k])
        # value constant along other axes; carry full axes list for alignment
        d = np.empty((), dtype=object); d[()] = p
        outs.append(AT(tuple(names[o] for o in order), d))
    return outs

def rename_dep(p, src, dst):
    def ra(a):
        if a[0] in ('X', 'T', 'P', 'F'):
            return a[:-1] + (frozenset(dst if x == src else x for x in a[-1]),)
        return a
    return Poly({tuple((ra(a), e) for a, e in k): v for k, v in p.t.items()})

# ---------------- AD ----------------
def vars_of(arg):
    arg = to_at(arg)
    vs = np.empty(arg.data.shape, dtype=object)
    for i in np.ndindex(arg.data.shape):
        p = arg.data[i]
        ok = len(p.t) == 1 and list(p.t.values())[0] == 1 and len(list(p.t.keys())[0]) == 1
        vk = var_key(list(p.t.keys())[0][0][0]) if ok else None
        if vk is None: raise Top(f"differentiation w.r.t. a non-canonical argument {p}")
        vs[i] = vk
    return arg.axes, vs

def jax_grad(f, argnums=0):
    def g(*args):
        val = to_at(f(*args))
        p = val.scalar()
        axes, vs = vars_of(args[_dim(argnums)])
        out = np.empty(vs.shape, dtype=object)
        for i in np.ndindex(vs.shape): out[i] = p.diff(vs[i])
        return AT(tuple(a for a in axes), out) if all(isinstance(a, int) for a in axes) else (_ for _ in ()).throw(Top("grad wrt batched arg"))
    return g

def jax_jac(f, argnums=0):
    def g(*args):
        val = to_at(f(*args))
        axes, vs = vars_of(args[_dim(argnums)])
        if len(vs.shape) != 1: raise Top("jacobian wrt non-vector")
        cols = []
        for v in vs:
            cols.append(val.map(lambda p, v=v: p.diff(v)))
        return jnp_stack(cols, axis=-1)
    return g

def jax_hessian(f, argnums=0):
    def h(*args):
        p = to_at(f(*args)).scalar()
        axes, vs = vars_of(args[_dim(argnums)])
        n = len(vs)
        d = np.empty((n, n), dtype=object)
        for i in range(n):
            for j in range(n): d[i, j] = p.diff(vs[i]).diff(vs[j])
        return AT((n, n), d)
    return h

def jax_jvp(f, primals, tangents):
    if len(primals) != 1: raise Top("jvp multi primal")
    x, v = to_at(primals[0]), to_at(tangents[0])
    y = f(x)
    axes, vs = vars_of(x)            # per concrete entry
    if v.axes != x.axes: raise Finding(f"tangent axes {v.axes} != primal axes {x.axes}")
    def d(p):
        r = Poly()
        for i in np.ndindex(vs.shape): r = r + v.data[i] * p.diff(vs[i])
        return r
    yt = to_at(y)
    return yt, yt.map(d)

def lax_scan(f, init, xs):
    outs = []; c = init
    for x in xs:
        c, o = f(c, x); outs.append(to_at(o))
    return c, jnp_stack(outs, 0)

class VMapped:
    def __init__(s, f, in_axes, out_axes=0): s.f, s.in_axes = f, in_axes
    def __call__(s, *args):
        in_axes = s.in_axes
        if not isinstance(in_axes, tuple): in_axes = (in_axes,) * len(args)
        if len(in_axes) != len(args): raise Finding(f"vmap in_axes arity {len(in_axes)} != {len(args)} args")
        names = set(); new = []
        for a, ia in zip(args, in_axes):
            new.append(strip(a, ia, names))
        if len(names) != 1: raise Finding(f"vmapped inputs disagree on the mapped axis: {sorted(names)}")
        name = names.pop()
        out = s.f(*new)
        return prepend(out, name)

def strip(a, ia, names):
    if ia is None: return a
    if isinstance(a, AT):
        if _dim(ia) != 0: raise Top("vmap axis != 0")
        if not isinstance(a.axes[0], str): raise Top(f"vmap over concrete axis {a.axes}")
        names.add(a.axes[0]); return AT(a.axes[1:], a.data)
    if isinstance(a, Obj):
        ia_f = ia.fields if isinstance(ia, Obj) else {k: ia for k in a.fields}
        return Obj(a.cls, {k: strip(v, ia_f.get(k), names) for k, v in a.fields.items()})
    if isinstance(a, dict):
        ia_d = ia if isinstance(ia, dict) else {k: ia for k in a}
        return {k: strip(v, ia_d.get(k), names) for k, v in a.items()}
    if a is None: return None
    raise Top(f"vmap over {type(a)}")

def prepend(o, name):
    if isinstance(o, AT): return AT((name,) + o.axes, o.data)
    if isinstance(o, tuple): return tuple(prepend(x, name) for x in o)
    return prepend(to_at(o), name)

class Obj:
    def __init__(s, cls, fields): s.cls, s.fields = cls, fields
    def __getattr__(s, k):
        f = object.__getattribute__(s, 'fields')
        if k in f: return f[k]
        raise AttributeError(k)
    def __repr__(s): return f"{s.cls}({s.fields})"

# ---------------- networks ----------------
class Net:
    """opaque network; kind in PINN/SPINN"""
    def __init__(s, name, kind, m, has_t, d, slice_solution=slice(None)):
        s.name, s.kind, s.m, s.has_t, s.d = name, kind, m, has_t, d
        s.slice_solution = slice_solution
    def __call__(s, *args):
        if s.has_t: t, x, p = args
        else: (x, p), t = args, None
        x = to_at(x)
        if s.kind == 'PINN':
            slots = []
            deps = set()
            if s.has_t:
                t = to_at(t)
                if t.axes != (1,): raise Finding(f"{s.name}: time argument has axes {t.axes}, expected (1,)")
                pt = t.data[0]
                if pt.is_const(): slots.append(f"t={pt}")
                elif not (len(pt.t) == 1 and list(pt.t)[0][0][0][0] == 'T'): raise Finding(f"{s.name}: time slot receives {pt}")
                deps |= pt.deps()
            if x.axes != (s.d,): raise Finding(f"{s.name}: space argument has axes {x.axes}, expected ({s.d},)")
            for j in range(s.d):
                px = x.data[j]
                if not (len(px.t) == 1 and var_key(list(px.t)[0][0][0]) == ('X', j)): raise Finding(f"{s.name}: space slot {j} receives {px}")
                deps |= px.deps()
            deps |= param_deps(p)
            return AT((s.m,), np.array([Poly.atom(('U', s.name, k, (), tuple(slots), frozenset(deps))) for k in range(s.m)], dtype=object))
        else:  # SPINN: inputs (B,1) and (B,d) -> grid [Gt, G0.., m]
            axes = []
            if s.has_t:
                t = to_at(t)
                if len(t.axes) != 2 or t.axes[1] != 1: raise Finding(f"{s.name}: SPINN time arg axes {t.axes}")
                axes.append("Gt")
            if len(x.axes) != 2 or x.axes[1] != s.d: raise Finding(f"{s.name}: SPINN space arg axes {x.axes}")
            for j in range(s.d):
                px = x.data[j]
                if not (len(px.t) == 1 and var_key(list(px.t)[0][0][0]) == ('X', j)): raise Finding(f"{s.name}: space slot {j} receives {px}")
                axes.append(f"G{j}")
            deps = frozenset(axes)
            return AT(tuple(axes) + (s.m,), np.array([Poly.atom(('U', s.name, k, (), (), deps)) for k in range(s.m)], dtype=object))

def param_deps(p):
    d = set()
    if isinstance(p, Obj):
        for v in p.fields.values(): d |= param_deps(v)
    elif isinstance(p, dict):
        for v in p.values(): d |= param_deps(v)
    elif isinstance(p, AT):
        d |= p.deps()
        for a in p.axes:
            if isinstance(a, str): raise Finding(f"per-sample parameter with un-consumed row axis {a} reaches a network")
    return d

# =====================================================================
# evaluator
# =====================================================================
class Ret(Exception):
    def __init__(s, v): s.v = v

class Closure:
    def __init__(s, node, env, it, name=None): s.node, s.env, s.it, s.name = node, env, it, name
    def __call__(s, *args, **kw):
        a = s.node.args
        env = Env(s.env)
        names = [x.arg for x in a.args]
        defaults = a.defaults
        # positional
        for n, v in zip(names, args): env.set(n, v)
        if a.vararg is not None:
            env.set(a.vararg.arg, tuple(args[len(names):]))
        elif len(args) > len(names): raise Top(f"too many args to {s.name}")
        for n, dnode in zip(names[len(names) - len(defaults):], defaults):
            if n not in env.local: env.set(n, s.it.ev(dnode, s.env))
        for k, v in kw.items(): env.set(k, v)
        for n in names:
            if n not in env.local: raise Top(f"missing arg {n} to {s.name}")
        if isinstance(s.node, ast.Lambda): return s.it.ev(s.node.body, env)
        try:
            for st in s.node.body: s.it.stmt(st, env)
        except Ret as r: return r.v
        return None

class Env:
    def __init__(s, parent=None): s.local, s.parent = {}, parent
    def get(s, k):
        e = s
        while e is not None:
            if k in e.local: return e.local[k]
            e = e.parent
        raise Top(f"unbound name {k}")
    def set(s, k, v): s.local[k] = v

class NS:
    def __init__(s, **k): s.__dict__.update(k)

class Interp:
    def stmt(s, st, env):
        if isinstance(st, ast.Expr):
            if not isinstance(st.value, ast.Constant): s.ev(st.value, env)
        elif isinstance(st, ast.Assign):
            v = s.ev(st.value, env)
            for t in st.targets: s.bind(t, v, env)
        elif isinstance(st, ast.AugAssign):
            cur = s.ev(ast.Name(id=st.target.id, ctx=ast.Load()), env)
            env.set(st.target.id, s.binop(type(st.op), cur, s.ev(st.value, env)))
        elif isinstance(st, ast.Return): raise Ret(s.ev(st.value, env) if st.value else None)
        elif isinstance(st, ast.If):
            c = s.ev(st.test, env)
            if not isinstance(c, (bool, np.bool_)): raise Top(f"non-concrete branch condition {ast.unparse(st.test)} -> {c!r}")
            for x in (st.body if c else st.orelse): s.stmt(x, env)
        elif isinstance(st, ast.FunctionDef): env.set(st.name, Closure(st, env, s, st.name))
        elif isinstance(st, ast.For):
            for v in s.ev(st.iter, env):
                s.bind(st.target, v, env)
                for x in st.body: s.stmt(x, env)
        elif isinstance(st, ast.Raise): raise Top("raise reached: " + ast.unparse(st)[:80])
        elif isinstance(st, ast.Assert): pass
        elif isinstance(st, ast.Pass): pass
        else: raise Top("stmt " + type(st).__name__)
    def bind(s, t, v, env):
        if isinstance(t, ast.Name): env.set(t.id, v)
        elif isinstance(t, (ast.Tuple, ast.List)):
            v = list(v)
            if len(v) != len(t.elts): raise Finding(f"unpack arity {len(t.elts)} != {len(v)}")
            for a, b in zip(t.elts, v): s.bind(a, b, env)
        else: raise Top("bind target")
    def binop(s, op, a, b):
        if op is ast.Add:
            if isinstance(a, tuple) and isinstance(b, tuple): return a + b
            if isinstance(a, str): return a + b
            return a + b
        if op is ast.Sub: return a - b
        if op is ast.Mult: return a * b
        if op is ast.Div: return a / b
        if op is ast.Pow: return a ** b
        if op is ast.FloorDiv: return a // b
        if op is ast.Mod: return a % b
        raise Top("binop")
    def ev(s, e, env):
        m = getattr(s, "ev_" + type(e).__name__, None)
        if m is None: raise Top("expr " + type(e).__name__)
        return m(e, env)
    def ev_Constant(s, e, env): return e.value
    def ev_Name(s, e, env): return env.get(e.id)
    def ev_Lambda(s, e, env): return Closure(e, env, s, "<lambda>")
    def ev_Attribute(s, e, env):
        v = s.ev(e.value, env)
        try: return getattr(v, e.attr)
        except AttributeError: raise Top(f"attribute {e.attr} on {type(v).__name__}")
    def ev_Call(s, e, env):
        f = s.ev(e.func, env)
        args = []
        for a in e.args:
            if isinstance(a, ast.Starred): args.extend(s.ev(a.value, env))
            else: args.append(s.ev(a, env))
        kw = {}
        for k in e.keywords:
            if k.arg is None: kw.update(s.ev(k.value, env))
            else: kw[k.arg] = s.ev(k.value, env)
        return f(*args, **kw)
    def ev_Subscript(s, e, env):
        v = s.ev(e.value, env); i = s.ev(e.slice, env)
        if isinstance(v, (tuple, list)) and isinstance(i, Poly): i = int(i.cval())
        return v[i]
    def ev_Slice(s, e, env):
        f = lambda x: None if x is None else _dim(s.ev(x, env))
        return slice(f(e.lower), f(e.upper), f(e.step))
    def ev_Tuple(s, e, env):
        out = []
        for x in e.elts:
            if isinstance(x, ast.Starred): out.extend(s.ev(x.value, env))
            else: out.append(s.ev(x, env))
        return tuple(out)
    def ev_List(s, e, env): return list(s.ev_Tuple(e, env))
    def ev_Dict(s, e, env):
        d = {}
        for k, v in zip(e.keys, e.values):
            if k is None: d.update(s.ev(v, env))
            else: d[s.ev(k, env)] = s.ev(v, env)
        return d
    def ev_BinOp(s, e, env): return s.binop(type(e.op), s.ev(e.left, env), s.ev(e.right, env))
    def ev_UnaryOp(s, e, env):
        v = s.ev(e.operand, env)
        if isinstance(e.op, ast.USub): return -v
        if isinstance(e.op, ast.Not): return not v
        raise Top("unary")
    def ev_BoolOp(s, e, env):
        vals = [s.ev(v, env) for v in e.values]   # no short-circuit needed for concrete bools
        return all(vals) if isinstance(e.op, ast.And) else any(vals)
    def ev_Compare(s, e, env):
        a = s.ev(e.left, env); b = s.ev(e.comparators[0], env)
        op = type(e.ops[0])
        if op is ast.Is: return a is b
        if op is ast.IsNot: return a is not b
        if op is ast.Eq:
            if isinstance(a, Poly) and a.is_const() and isinstance(b, (int, float)): return a.cval() == b
            return a == b
        if op is ast.NotEq: return a != b
        if op is ast.In: return a in b
        if op is ast.NotIn: return a not in b
        if op in (ast.Gt, ast.Lt, ast.GtE, ast.LtE):
            a, b = _dim(a), _dim(b)
            if isinstance(a, SymDim) or isinstance(b, SymDim): raise Top('ordering on symbolic extent')
            return {ast.Gt: a > b, ast.Lt: a < b, ast.GtE: a >= b, ast.LtE: a <= b}[op]
        raise Top("compare")
    def ev_IfExp(s, e, env):
        c = s.ev(e.test, env)
        if not isinstance(c, (bool, np.bool_)): raise Top("non-concrete IfExp")
        return s.ev(e.body if c else e.orelse, env)
    def ev_GeneratorExp(s, e, env): return s.comp(e, env)
    def ev_ListComp(s, e, env): return s.comp(e, env)
    def comp(s, e, env):
        g, = e.generators
        out = []
        for v in s.ev(g.iter, env):
            en = Env(env); s.bind(g.target, v, en)
            if all(s.ev(c, en) for c in g.ifs): out.append(s.ev(e.elt, en))
        return out

def isinstance_(v, cls):
    if isinstance(cls, tuple): return any(isinstance_(v, c) for c in cls)
    if isinstance(cls, ClassTag):
        if isinstance(v, Net): return v.kind in cls.kinds
        if isinstance(v, Obj): return v.cls in cls.kinds
        return False
    if cls in (int, float, dict, tuple, list, str): return isinstance(v, cls)
    raise Top(f"isinstance against {cls}")

class ClassTag:
    def __init__(s, *kinds): s.kinds = set(kinds)

JNP = NS(array=jnp_array, asarray=jnp_array, stack=jnp_stack, concatenate=jnp_concatenate, sum=jnp_sum, mean=jnp_mean,
         trace=jnp_trace, abs=jnp_abs, log=jnp_log, squeeze=jnp_squeeze, expand_dims=jnp_expand_dims,
         repeat=jnp_repeat, ones_like=jnp_ones_like, zeros_like=jnp_zeros_like, zeros=jnp_zeros, ones=jnp_ones,
         arange=jnp_arange, moveaxis=jnp_moveaxis, transpose=jnp_transpose, diag=jnp_diag, matmul=jnp_matmul,
         dot=jnp_dot, meshgrid=jnp_meshgrid)
JAX = NS(grad=jax_grad, hessian=jax_hessian, jacrev=jax_jac, jacfwd=jax_jac, jvp=jax_jvp,
         vmap=lambda f, in_axes=0, out_axes=0: VMapped(f, in_axes, out_axes),
         lax=NS(scan=lax_scan), nn=NS(one_hot=one_hot))
BUILTINS = dict(range=lambda *a: range(*[_dim(x) for x in a]), len=len, tuple=tuple, enumerate=enumerate,
                isinstance=isinstance_, ValueError=ValueError, NotImplementedError=NotImplementedError,
                type=type, int=int, float=float, dict=dict, list=list, str=str, max=max, min=min, zip=zip, any=any, all=all)

def load_module(path, extra):
    src = open(os.path.join(REPO, path)).read()
    mod = ast.parse(src)
    it = Interp()
    env = Env(); env.local.update(BUILTINS)
    env.local.update(dict(jnp=JNP, jax=JAX, grad=jax_grad, vmap=JAX.vmap, PINN=ClassTag('PINN', 'HYPERPINN'),
                          SPINN=ClassTag('SPINN'), HYPERPINN=ClassTag('HYPERPINN')))
    env.local.update(extra)
    classes = {}
    for st in mod.body:
        if isinstance(st, ast.FunctionDef): env.set(st.name, Closure(st, env, it, st.name))
        elif isinstance(st, ast.ClassDef): classes[st.name] = st
    return env, classes, it

def pt(d, deps=()):
    return AT((d,), np.array([Poly.atom(('X', j, frozenset(deps))) for j in range(d)], dtype=object))
def tm(deps=()):
    return AT((1,), np.array([Poly.atom(('T', frozenset(deps)))], dtype=object))
def batch_x(d, name="B"): return AT((name, d), np.array([Poly.atom(('X', j, frozenset({name}))) for j in range(d)], dtype=object))
def batch_t(name="B"): return AT((name, 1), np.array([Poly.atom(('T', frozenset({name})))], dtype=object))
def K(name): return Poly.atom(('K', name))
def Pm(name, shape=(), deps=()):
    d = np.empty(shape, dtype=object)
    for i in np.ndindex(shape): d[i] = Poly.atom(('P', name, tuple(i), frozenset(deps)))
    return AT(shape, d)
