import os, warnings
os.environ["JAX_PLATFORMS"]="cpu"
warnings.filterwarnings("ignore")
import jax, jax.numpy as jnp, jinns, numpy as np
key = jax.random.PRNGKey(0)
dg = jinns.data.CubicMeshPDEStatio(key=key, n=8, nb=16, omega_batch_size=4, omega_border_batch_size=2, dim=2, min_pts=(0.,0.), max_pts=(1.,1.))
print("omega_border shape", dg.omega_border.shape)
for k in range(12):
    dg, b = dg.get_batch()
    print(int(dg.curr_omega_border_idx), np.round(np.array(b.border_batch[:,1,0]),3))
